package props

import (
	"fmt"
	"go/token"
	"strings"

	"golang.org/x/tools/go/ssa"

	"wrverif/core"
)

// c18ArcCenter folds svg.findEllipseCenter for the four flag combinations, with and without out-of-range radii,
// and compares the result with the centre parameterisation of the SVG implementation notes (F.6.5, F.6.6), as
// rational functions modulo sin² + cos² = 1. The flags are taken from the call in addArcFromA, evaluated for the
// four values of the two flag numbers of the arc command.
func c18ArcCenter(c *core.Check) {
	p := c.Prog
	r := c.Rule("R5", "arc centre as SVG F.6.5/F.6.6 defines it: for the four (large-arc, sweep) flag values as addArcFromA passes them, findEllipseCenter returns M + R(φ)·(± k·rx·y1'/ry, ∓ k·ry·x1'/rx) with k² = (rx²ry² − rx²y1'² − ry²x1'²)/(rx²y1'² + ry²x1'²) and + iff the flags differ; radii too small for the chord are both multiplied by √Λ (their ratio is kept) and the centre is then the chord midpoint", 4)
	fn := p.Fn("svg", "findEllipseCenter")
	caller := p.Method("svg", "pathParser", "addArcFromA")
	if fn == nil || caller == nil || len(fn.Params) != 9 {
		r.Anchor("svg.findEllipseCenter / (*pathParser).addArcFromA")
		return
	}
	// the flag arguments at the call site, as functions of the two flag numbers points[3], points[4]
	var site *ssa.Call
	for _, b := range caller.Blocks {
		for _, ins := range b.Instrs {
			if call, ok := ins.(*ssa.Call); ok && call.Call.StaticCallee() == fn {
				site = call
			}
		}
	}
	if site == nil {
		r.Anchor("call of findEllipseCenter in addArcFromA")
		return
	}
	flagArg := func(v ssa.Value, large, sweep bool) (bool, bool) {
		neg := false
		for {
			if u, ok := v.(*ssa.UnOp); ok && u.Op == token.NOT {
				neg = !neg
				v = u.X
				continue
			}
			break
		}
		b, ok := v.(*ssa.BinOp)
		if !ok || (b.Op != token.EQL && b.Op != token.NEQ) {
			return false, false
		}
		x, y := b.X, b.Y
		if _, isC := x.(*ssa.Const); isC {
			x, y = y, x
		}
		cst, isC := y.(*ssa.Const)
		if !isC {
			return false, false
		}
		zero, okz := core.ConstFloat(cst)
		if !okz || zero != 0 {
			return false, false
		}
		ld, ok := x.(*ssa.UnOp)
		if !ok || ld.Op != token.MUL {
			return false, false
		}
		ia, ok := ld.X.(*ssa.IndexAddr)
		if !ok {
			return false, false
		}
		if par, isP := ia.X.(*ssa.Parameter); !isP || par != caller.Params[1] {
			return false, false
		}
		idx, ok := ia.Index.(*ssa.Const)
		if !ok {
			return false, false
		}
		var set bool
		switch idx.Int64() {
		case 3:
			set = large
		case 4:
			set = sweep
		default:
			return false, false
		}
		res := set // value of "points[i] != 0"
		if b.Op == token.EQL {
			res = !res
		}
		if neg {
			res = !res
		}
		return res, true
	}

	sym := core.SymR
	two := core.NumR(2)
	for _, scaled := range []bool{false, true} {
		for _, large := range []bool{false, true} {
			for _, sweep := range []bool{false, true} {
				if scaled && (large || sweep) {
					continue // with k = 0 the flags select the same point; checked once
				}
				key := fmt.Sprintf("svg.findEllipseCenter | large-arc=%v sweep=%v radii too small=%v", large, sweep, scaled)
				a7, ok7 := flagArg(site.Call.Args[7], large, sweep)
				a8, ok8 := flagArg(site.Call.Args[8], large, sweep)
				if !ok7 || !ok8 {
					r.Cond(false, key, p.Pos(site.Pos()), "", "the flag arguments of the call in addArcFromA are not comparisons of points[3] / points[4] with zero")
					continue
				}
				cosS, sinS := sym("cos(φ)"), sym("sin(φ)")
				ra, rb := sym("rx"), sym("ry")
				sx, sy, ex, ey := sym("x1"), sym("y1"), sym("x2"), sym("y2")
				// SVG F.6.5.1
				x1p := cosS.Mul(sx.Add(ex.Neg())).Add(sinS.Mul(sy.Add(ey.Neg()))).Div(two)
				y1p := sinS.Neg().Mul(sx.Add(ex.Neg())).Add(cosS.Mul(sy.Add(ey.Neg()))).Div(two)
				lambda := x1p.Mul(x1p).Div(ra.Mul(ra)).Add(y1p.Mul(y1p).Div(rb.Mul(rb)))
				den := ra.Mul(ra).Mul(y1p).Mul(y1p).Add(rb.Mul(rb).Mul(x1p).Mul(x1p))
				k2 := ra.Mul(ra).Mul(rb).Mul(rb).Add(den.Neg()).Div(den)

				var sqrtArgs []core.RatP
				cmpErr := ""
				cellA := &core.Cell{V: core.FromRat(ra)}
				cellB := &core.Cell{V: core.FromRat(rb)}
				f := &core.Folder{MaxDepth: 0}
				f.Call = func(_ *core.Folder, call *ssa.Call, args []core.AV) (core.AV, bool) {
					callee := call.Call.StaticCallee()
					if callee == nil || callee.Pkg == nil || callee.Pkg.Pkg.Path() != "math" || len(args) != 1 {
						return nil, false
					}
					switch callee.Name() {
					case "Sqrt":
						a, ok := core.ToRat(args[0])
						if !ok {
							return nil, false
						}
						sqrtArgs = append(sqrtArgs, a)
						return core.SymP(fmt.Sprintf("√%d", len(sqrtArgs))), true
					case "Cos":
						return core.SymP("cos(φ)"), true
					case "Sin":
						return core.SymP("sin(φ)"), true
					}
					return nil, false
				}
				f.Cmp = func(op token.Token, x, y core.AV) (bool, bool) {
					rx, okx := core.ToRat(x)
					ry, oky := core.ToRat(y)
					if !okx || !oky {
						return false, false
					}
					if op == token.EQL || op == token.NEQ {
						// distinct radii: rx == ry is the separate round-off shortcut, folded with distinct symbols
						d := rx.Add(ry.Neg())
						if d.Equal(ra.Add(rb.Neg())) || d.Equal(rb.Add(ra.Neg())) {
							return op == token.NEQ, true
						}
						return false, false
					}
					// "the radii are too small": Λ > 1, written on any positive multiple
					d := rx.Add(ry.Neg()).SubstSquare("sin(φ)", core.NumR(1).Add(cosS.Mul(cosS).Neg()))
					one := core.NumR(1)
					for _, scale := range []core.RatP{one, rb.Mul(rb), ra.Mul(ra), ra.Mul(ra).Mul(rb).Mul(rb)} {
						want := scale.Mul(one.Add(lambda.Neg())).SubstSquare("sin(φ)", core.NumR(1).Add(cosS.Mul(cosS).Neg()))
						if d.Equal(want) { // x − y = s·(1 − Λ): x < y iff Λ > 1
							switch op {
							case token.LSS, token.LEQ:
								return scaled, true
							case token.GTR, token.GEQ:
								return !scaled, true
							}
						}
						if d.Equal(want.Neg()) {
							switch op {
							case token.GTR, token.GEQ:
								return scaled, true
							case token.LSS, token.LEQ:
								return !scaled, true
							}
						}
					}
					cmpErr = fmt.Sprintf("comparison %s %s %s is not the test Λ > 1 of the radii", core.AVString(x), op, core.AVString(y))
					return false, false
				}
				args := []core.AV{core.Ptr{C: cellA}, core.Ptr{C: cellB}, core.SymP("φ"),
					core.SymP("x1"), core.SymP("y1"), core.SymP("x2"), core.SymP("y2"), core.BoolV(a7), core.BoolV(a8)}
				res, err := f.Fold(fn, args)
				if err != nil || len(res) != 2 {
					msg := fmt.Sprintf("could not be folded: %v", err)
					if cmpErr != "" {
						msg += " (" + cmpErr + ")"
					}
					r.Cond(false, key, p.Pos(fn.Pos()), "", msg)
					continue
				}
				gx, okx := core.ToRat(res[0])
				gy, oky := core.ToRat(res[1])
				nra, oka := core.ToRat(cellA.V)
				nrb, okb := core.ToRat(cellB.V)
				if !okx || !oky || !oka || !okb {
					r.Cond(false, key, p.Pos(fn.Pos()), "", "result is not a rational function of the arguments: "+core.AVString(res[0])+", "+core.AVString(res[1]))
					continue
				}
				reduce := func(v core.RatP) core.RatP {
					return v.SubstSquare("sin(φ)", core.NumR(1).Add(cosS.Mul(cosS).Neg()))
				}
				var diffs []string
				mx, my := sx.Add(ex).Div(two), sy.Add(ey).Div(two)
				if scaled {
					// F.6.6: both radii multiplied by √Λ; centre = chord midpoint
					if len(sqrtArgs) != 1 {
						diffs = append(diffs, fmt.Sprintf("%d square roots taken, expected the one of Λ", len(sqrtArgs)))
					} else {
						root := sym("√1")
						if !reduce(sqrtArgs[0].Add(lambda.Mul(rb).Mul(rb).Neg())).IsZero() && !reduce(sqrtArgs[0].Add(lambda.Mul(ra).Mul(ra).Neg())).IsZero() && !reduce(sqrtArgs[0].Add(lambda.Neg())).IsZero() {
							diffs = append(diffs, "the square root taken is not √Λ up to a radius: "+sqrtArgs[0].String())
						}
						if !nra.Mul(rb).Equal(nrb.Mul(ra)) {
							diffs = append(diffs, fmt.Sprintf("new radii (%s, %s) are not in the ratio rx : ry", nra.String(), nrb.String()))
						}
						// new radii squared = Λ · old radii squared
						if !reduce(nrb.Mul(nrb).SubstSquare("√1", sqrtArgs[0]).Add(lambda.Mul(rb).Mul(rb).Neg())).IsZero() {
							diffs = append(diffs, fmt.Sprintf("new ry = %s is not √Λ·ry", nrb.String()))
						}
						_ = root
					}
					if !reduce(gx.Add(mx.Neg())).IsZero() || !reduce(gy.Add(my.Neg())).IsZero() {
						diffs = append(diffs, "centre is not the chord midpoint ((x1+x2)/2, (y1+y2)/2)")
					}
				} else {
					if !nra.Equal(ra) || !nrb.Equal(rb) {
						diffs = append(diffs, "radii changed although they are large enough")
					}
					if len(sqrtArgs) != 2 {
						diffs = append(diffs, fmt.Sprintf("%d square roots taken, expected numerator and denominator of k", len(sqrtArgs)))
					} else {
						// k = √1/√2 or one root of the quotient: compare squares
						h := sym("√1").Div(sym("√2"))
						if !reduce(sqrtArgs[0].Div(sqrtArgs[1]).Add(k2.Neg())).IsZero() {
							diffs = append(diffs, "the ratio of the two square roots is not k of F.6.5.2")
						}
						sign := core.NumR(-1)
						if large != sweep {
							sign = core.NumR(1)
						}
						cxp := sign.Mul(h).Mul(ra).Mul(y1p).Div(rb)
						cyp := sign.Neg().Mul(h).Mul(rb).Mul(x1p).Div(ra)
						wx := cosS.Mul(cxp).Add(sinS.Neg().Mul(cyp)).Add(mx)
						wy := sinS.Mul(cxp).Add(cosS.Mul(cyp)).Add(my)
						if !reduce(gx.Add(wx.Neg())).IsZero() {
							diffs = append(diffs, "centre x differs from cosφ·cx' − sinφ·cy' + (x1+x2)/2")
						}
						if !reduce(gy.Add(wy.Neg())).IsZero() {
							diffs = append(diffs, "centre y differs from sinφ·cx' + cosφ·cy' + (y1+y2)/2")
						}
					}
				}
				r.Cond(len(diffs) == 0, key, p.Pos(fn.Pos()), "centre and radii as F.6.5 / F.6.6", strings.Join(diffs, "; "))
			}
		}
	}
	// the round-off shortcut for equal radii: same obligations with one symbol for both radii
	{
		key := "svg.findEllipseCenter | rx == ry, radii too small"
		cell := func() *core.Cell { return &core.Cell{V: core.SymP("r")} }
		cellA, cellB := cell(), cell()
		f := &core.Folder{MaxDepth: 0}
		n := 0
		f.Call = func(_ *core.Folder, call *ssa.Call, args []core.AV) (core.AV, bool) {
			callee := call.Call.StaticCallee()
			if callee != nil && callee.Pkg != nil && callee.Pkg.Pkg.Path() == "math" && callee.Name() == "Sqrt" {
				n++
				return core.SymP(fmt.Sprintf("√%d", n)), true
			}
			return nil, false
		}
		f.Cmp = func(op token.Token, x, y core.AV) (bool, bool) {
			switch op {
			case token.LSS, token.LEQ:
				return true, true
			case token.GTR, token.GEQ:
				return false, true
			case token.EQL:
				return core.AVString(x) == core.AVString(y), true
			case token.NEQ:
				return core.AVString(x) != core.AVString(y), true
			}
			return false, false
		}
		_, err := f.Fold(fn, []core.AV{core.Ptr{C: cellA}, core.Ptr{C: cellB}, core.Num(0), core.SymP("x1"), core.SymP("y1"), core.SymP("x2"), core.SymP("y2"), core.BoolV(true), core.BoolV(true)})
		same := err == nil && core.AVString(cellA.V) == core.AVString(cellB.V) && core.AVString(cellA.V) != "r"
		r.Cond(same, key, p.Pos(fn.Pos()), "both radii become the same new value", fmt.Sprintf("new radii (%s, %s) (error: %v): a circle must stay a circle and grow", core.AVString(cellA.V), core.AVString(cellB.V), err))
	}
}
