package props

import (
	"go/token"
	"go/types"

	"golang.org/x/tools/go/ssa"

	"wrverif/core"
)

// c01OrderedSlices: in the code that maps glyphs to the text they stand for (text/draw), a slice x[a:b] whose two
// bounds are both computed (cluster positions) has ordered bounds by construction: b is the merge of a and of a value
// tested `< a` on the edge that replaces it (clamp), or the slice is reachable only under a comparison of the two.
// Cluster positions decrease in right-to-left runs; without the clamp any Hebrew or Arabic text panics.
func c01OrderedSlices(c *core.Check) {
	p := c.Prog
	r := c.Rule("R17", "glyph-to-text ranges are ordered: in text/draw every slice whose two bounds are computed positions has its upper bound clamped to the lower one (merge of the lower bound and of a value found smaller than it) or is reached only under a comparison of the two bounds — cluster positions decrease in right-to-left runs", 1)
	n := 0
	for _, fn := range p.FuncsOfPkg("text/draw") {
		if fn.Blocks == nil {
			continue
		}
		fn := fn
		core.Instrs(fn, func(in ssa.Instruction) {
			sl, ok := in.(*ssa.Slice)
			if !ok || sl.Low == nil || sl.High == nil {
				return
			}
			if _, isK := core.ConstInt(sl.Low); isK {
				return
			}
			if _, isK := core.ConstInt(sl.High); isK {
				return
			}
			if _, isSlice := sl.X.Type().Underlying().(*types.Slice); !isSlice {
				if b, isStr := sl.X.Type().Underlying().(*types.Basic); !isStr || b.Info()&types.IsString == 0 {
					return
				}
			}
			n++
			lo, hi := resolveExtract(sl.Low), resolveExtract(sl.High)
			ok2, how := boundsOrdered(fn, sl, lo, hi)
			key := core.FuncName(fn) + " | " + p.StmtTextAt(fn, sl.Pos())
			r.Cond(ok2, key, p.Pos(sl.Pos()), how, "the two bounds are computed independently and nothing orders them: in a right-to-left run the position of the next glyph's cluster is smaller than this glyph's (`<p>אבג</p>`: slice bounds out of range [1:0])")
		})
	}
	if n == 0 {
		r.Anchor("text/draw: slices with two computed bounds")
	}
}

// resolveExtract follows the results of a local closure call back to the returned values when there is a single
// return (the clamp may sit in a helper closure).
func resolveExtract(v ssa.Value) ssa.Value {
	ex, ok := v.(*ssa.Extract)
	if !ok {
		return v
	}
	call, ok := ex.Tuple.(*ssa.Call)
	if !ok {
		return v
	}
	var callee *ssa.Function
	if mc, ok := call.Call.Value.(*ssa.MakeClosure); ok {
		callee, _ = mc.Fn.(*ssa.Function)
	} else {
		callee = call.Call.StaticCallee()
	}
	if callee == nil || callee.Blocks == nil {
		return v
	}
	var rets []*ssa.Return
	core.Instrs(callee, func(in ssa.Instruction) {
		if ret, ok := in.(*ssa.Return); ok {
			rets = append(rets, ret)
		}
	})
	if len(rets) != 1 || ex.Index >= len(rets[0].Results) {
		return v
	}
	return rets[0].Results[ex.Index]
}

func boundsOrdered(fn *ssa.Function, at ssa.Instruction, lo, hi ssa.Value) (bool, string) {
	// clamp: hi = phi(lo [edge taken when hi0 < lo], hi0)
	if phi, ok := hi.(*ssa.Phi); ok {
		for i, e := range phi.Edges {
			if e != lo {
				continue
			}
			pred := phi.Block().Preds[i]
			// the block that replaces hi by lo is entered on the true edge of `hi0 < lo` (or `lo > hi0`)
			for _, pp := range pred.Preds {
				ifi, isIf := pp.Instrs[len(pp.Instrs)-1].(*ssa.If)
				if !isIf || pp.Succs[0] != pred {
					continue
				}
				cmp, isCmp := ifi.Cond.(*ssa.BinOp)
				if !isCmp {
					continue
				}
				for j, e2 := range phi.Edges {
					if j == i {
						continue
					}
					if (cmp.Op == token.LSS && cmp.X == e2 && cmp.Y == lo) || (cmp.Op == token.GTR && cmp.X == lo && cmp.Y == e2) {
						return true, "upper bound clamped to the lower bound"
					}
				}
			}
			// the phi's own predecessor may be the testing block (no separate block for the assignment)
			if ifi, isIf := pred.Instrs[len(pred.Instrs)-1].(*ssa.If); isIf {
				if cmp, isCmp := ifi.Cond.(*ssa.BinOp); isCmp {
					for j, e2 := range phi.Edges {
						if j != i && ((cmp.Op == token.LSS && cmp.X == e2 && cmp.Y == lo) || (cmp.Op == token.GTR && cmp.X == lo && cmp.Y == e2)) {
							return true, "upper bound clamped to the lower bound"
						}
					}
				}
			}
		}
	}
	// guarded by a comparison of the two bounds
	var atoms []ssa.Value
	pol := map[ssa.Value]bool{}
	for _, a := range core.CondAtoms(fn) {
		cmp, ok := a.(*ssa.BinOp)
		if !ok {
			continue
		}
		switch {
		case (cmp.Op == token.LEQ || cmp.Op == token.LSS) && cmp.X == lo && cmp.Y == hi, (cmp.Op == token.GEQ || cmp.Op == token.GTR) && cmp.X == hi && cmp.Y == lo:
			atoms, pol[a] = append(atoms, a), true
		case cmp.Op == token.GTR && cmp.X == lo && cmp.Y == hi, cmp.Op == token.LSS && cmp.X == hi && cmp.Y == lo:
			atoms, pol[a] = append(atoms, a), false
		}
	}
	if len(atoms) > 0 {
		if g, _ := core.GuardedBy(fn, at.Block(), atoms, func(m map[ssa.Value]bool) bool {
			for a, v := range m {
				if v == pol[a] {
					return true
				}
			}
			return false
		}); g {
			return true, "reached only when the lower bound is at most the upper bound"
		}
	}
	return false, ""
}
