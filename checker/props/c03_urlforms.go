package props

import (
	"fmt"
	"go/token"
	"go/types"

	"golang.org/x/tools/go/ssa"

	"wrverif/core"
)

// c03URLForms (R12): a <url> has two token forms: the url token `url(x)` and, when the address is quoted, a
// function block named url holding a string.  Wherever the module tests a token for being a parser.URL it must
// also consider the function form, or `@import url("…")` (the usual spelling) and `list-style-image: url("…")` are
// dropped.  Sibling cross-check: every function that type-asserts a value to parser.URL also type-asserts the same
// value to parser.FunctionBlock.
func c03URLForms(c *core.Check) {
	p := c.Prog
	r := c.Rule("R12", "both token forms of <url>: every function of the module that tests a token for parser.URL (type switch or assertion) tests the same value for parser.FunctionBlock too — the quoted form url(\"…\") is a function block", 2)
	n := 0
	for _, fn := range p.ModFuncs {
		if fn.Pkg == nil || fn.Blocks == nil {
			continue
		}
		if core.Rel(fn.Pkg.Pkg.Path()) == "css/parser" {
			continue // the tokenizer and serializer produce and print the forms; they do not read urls
		}
		asserted := map[ssa.Value]map[string]ssa.Instruction{}
		core.Instrs(fn, func(in ssa.Instruction) {
			ta, ok := in.(*ssa.TypeAssert)
			if !ok {
				return
			}
			nm, ok := ta.AssertedType.(*types.Named)
			if !ok || nm.Obj().Pkg() == nil || core.Rel(nm.Obj().Pkg().Path()) != "css/parser" {
				return
			}
			if asserted[ta.X] == nil {
				asserted[ta.X] = map[string]ssa.Instruction{}
			}
			if asserted[ta.X][nm.Obj().Name()] == nil {
				asserted[ta.X][nm.Obj().Name()] = in
			}
		})
		k := 0
		for _, m := range asserted {
			in := m["URL"]
			if in == nil {
				continue
			}
			n++
			k++
			key := fmt.Sprintf("%s | token tested for parser.URL #%d", core.FuncName(fn), k)
			r.Cond(m["FunctionBlock"] != nil, key, p.Pos(in.Pos()), "the function form is tested too", "the value is never tested for parser.FunctionBlock: the quoted form url(\"…\") is not recognised as a url here")
		}
	}
	r.OK("scan", "-", fmt.Sprintf("%d values tested for parser.URL", n))
}

// c03StyleAttrFresh (R13): every style attribute gets the sentinel specificity.  In findStyleAttributes the value
// stored as the specificity of a style-attribute entry is the specificity literal itself, built in the same
// iteration — not a variable merged at the head of the loop, which still holds the {0,0,0} that the presentational
// hints of the previous element assigned to it.
func c03StyleAttrFresh(c *core.Check) {
	p := c.Prog
	r := c.Rule("R13", "findStyleAttributes: the specificity stored with each entry is a specificity literal of the current iteration (a load of the literal, never a merge at the loop header): the weight of a style attribute does not depend on the element visited before", 36)
	fn := p.Fn("html/tree", "findStyleAttributes")
	if fn == nil {
		r.Anchor("html/tree.findStyleAttributes")
		return
	}
	loops := core.Loops(fn)
	n := 0
	core.Instrs(fn, func(in ssa.Instruction) {
		st, ok := in.(*ssa.Store)
		if !ok {
			return
		}
		fa, ok := st.Addr.(*ssa.FieldAddr)
		if !ok || core.FieldName(fa) != "specificity" {
			return
		}
		n++
		key := fmt.Sprintf("html/tree.findStyleAttributes | specificity of entry #%d", n)
		bad := ""
		seen := map[ssa.Value]bool{}
		var walk func(v ssa.Value, d int)
		walk = func(v ssa.Value, d int) {
			if seen[v] || d > 6 {
				return
			}
			seen[v] = true
			if phi, ok := v.(*ssa.Phi); ok {
				for _, l := range loops {
					if l.Header == phi.Block() {
						bad = "a value merged at the head of the loop (" + phi.Comment + ")"
						return
					}
				}
				for _, e := range phi.Edges {
					walk(e, d+1)
				}
			}
			// a variable kept in memory (arrays are not promoted to registers): the load must see a store of this iteration
			if ld, ok := v.(*ssa.UnOp); ok && ld.Op == token.MUL {
				if al, ok := ld.X.(*ssa.Alloc); ok {
					var l *core.Loop
					for _, lp := range loops {
						if lp.Blocks[ld.Block()] && (l == nil || len(lp.Blocks) > len(l.Blocks)) {
							l = lp // the outermost loop: the walk over the elements
						}
					}
					if l == nil || l.Blocks[al.Block()] {
						return // not in a loop, or a variable of the iteration itself
					}
					fresh := false
					for _, ref := range *al.Referrers() {
						stw := storeInto(ref, al)
						if stw == nil || !l.Blocks[stw.Block()] {
							continue
						}
						if stw.Block() == ld.Block() && stw.Pos() < ld.Pos() || stw.Block() != ld.Block() && stw.Block().Dominates(ld.Block()) {
							fresh = true
						}
					}
					if !fresh {
						bad = "the variable " + al.Comment + ", set before the loop and re-assigned inside it"
					}
				}
			}
		}
		walk(st.Val, 0)
		r.Cond(bad == "", key, p.Pos(st.Pos()), "a literal of the current iteration", "the specificity stored is "+bad+": after an element with presentational hints the next style attribute is weighed {0,0,0} and loses against any selector")
	})
	if n == 0 {
		r.Unknown("html/tree.findStyleAttributes | specificity", p.Pos(fn.Pos()), "no store to a specificity field")
	}
}

// storeInto: the instruction writes the variable: a store to it, or to one of its elements.
func storeInto(ref ssa.Instruction, al *ssa.Alloc) ssa.Instruction {
	switch x := ref.(type) {
	case *ssa.Store:
		if x.Addr == ssa.Value(al) {
			return x
		}
	case *ssa.IndexAddr:
		for _, r2 := range *x.Referrers() {
			if st, ok := r2.(*ssa.Store); ok && st.Addr == ssa.Value(x) {
				return st
			}
		}
	}
	return nil
}

// c03ImportantTrivia (R14): the importance of a declaration is part of its precedence.  parseDeclaration finds
// `!important` with a small state machine over the tokens of the value; a comment is to it what white space is
// (`color: red !important /* c */`, `! /**/ important`): where a switch of that function has a case for the
// white-space token it has one for the comment token.  The same syntactic rule as C06.R5, here for the one function
// that sets Declaration.Important.
func c03ImportantTrivia(c *core.Check) {
	r := c.Rule("R14", "!important survives comments: in css/parser.parseDeclaration, which sets the importance of a declaration, every switch with a case for the white-space token has a case for the comment token, and every condition that excludes white space excludes comments", 1)
	triviaRule(c, r, "parseDeclaration")
}

// c03NestedListOwnFlags (R15): the selectors of a nested rule's list are relative to the parent each on its own:
// `& .a, span` is `:is(parent) .a, :is(parent) span`.  PreprocessDeclarationsPrelude decides per selector whether it
// holds an `&` (then the `&` is replaced) or not (then the parent is prefixed); that decision is taken afresh for
// each selector: no boolean tested inside the loop over the comma-separated parts is carried around that loop (a
// flag declared before the loop stays true after the first `&`, and the later selectors lose the parent: a bare
// `span` matches every span of the document, with a lower specificity).
func c03NestedListOwnFlags(c *core.Check) {
	p := c.Prog
	r := c.Rule("R15", "each selector of a nested list on its own: in css/validation.PreprocessDeclarationsPrelude no boolean tested inside the loop over the results of SplitOnComma is a value carried from one iteration of that loop to the next", 1)
	fn := p.Fn("css/validation", "PreprocessDeclarationsPrelude")
	if fn == nil {
		r.Anchor("css/validation.PreprocessDeclarationsPrelude")
		return
	}
	key := "css/validation.PreprocessDeclarationsPrelude | flags of the loop over the selectors"
	// the loop that ranges over SplitOnComma(...)
	var loop *core.Loop
	for _, l := range core.Loops(fn) {
		for _, in := range l.Header.Instrs {
			// rangeindex loops compare the index with len(list)
			if b, ok := in.(*ssa.BinOp); ok {
				if call, ok := b.Y.(*ssa.Call); ok {
					if bi, ok := call.Call.Value.(*ssa.Builtin); ok && bi.Name() == "len" && core.DerivesFrom(call.Call.Args[0], core.IsCallNamed("SplitOnComma")) {
						loop = l
					}
				}
			}
		}
		// or the length is computed before the loop
		if loop == nil {
			for _, pred := range l.Header.Preds {
				if l.Blocks[pred] {
					continue
				}
				for _, in := range pred.Instrs {
					if call, ok := in.(*ssa.Call); ok {
						if bi, ok := call.Call.Value.(*ssa.Builtin); ok && bi.Name() == "len" && core.DerivesFrom(call.Call.Args[0], core.IsCallNamed("SplitOnComma")) {
							for _, hin := range l.Header.Instrs {
								if b, ok := hin.(*ssa.BinOp); ok && b.Y == ssa.Value(call) {
									loop = l
								}
							}
						}
					}
				}
			}
		}
	}
	if loop == nil {
		r.Unknown(key, p.Pos(fn.Pos()), "the loop over the results of SplitOnComma was not found")
		return
	}
	carried := func(v ssa.Value) bool {
		seen := map[ssa.Value]bool{}
		var walk func(ssa.Value) bool
		walk = func(v ssa.Value) bool {
			if seen[v] {
				return false
			}
			seen[v] = true
			if u, ok := v.(*ssa.UnOp); ok && u.Op == token.NOT {
				return walk(u.X)
			}
			phi, ok := v.(*ssa.Phi)
			if !ok {
				return false
			}
			if phi.Block() == loop.Header {
				for i, pred := range phi.Block().Preds {
					if loop.Blocks[pred] {
						if _, isK := phi.Edges[i].(*ssa.Const); !isK {
							return true
						}
					}
				}
			}
			for _, e := range phi.Edges {
				if walk(e) {
					return true
				}
			}
			return false
		}
		return walk(v)
	}
	n, bad := 0, ""
	for b := range loop.Blocks {
		if len(b.Instrs) == 0 {
			continue
		}
		ifi, ok := b.Instrs[len(b.Instrs)-1].(*ssa.If)
		if !ok {
			continue
		}
		if bt, ok := ifi.Cond.Type().Underlying().(*types.Basic); !ok || bt.Kind() != types.Bool {
			continue
		}
		n++
		if carried(ifi.Cond) {
			bad = p.Pos(ifi.Pos())
			if bad == "-" || bad == "" {
				bad = fmt.Sprintf("block %d", b.Index)
			}
		}
	}
	r.Cond(bad == "", key, p.Pos(fn.Pos()), fmt.Sprintf("%d tests inside the loop, none on a value carried around it", n), "the test at "+bad+" is on a boolean carried from the previous selector of the list: once a selector holds `&` the following ones are handled as if they did")
}
