package props

import (
	"fmt"
	"go/types"

	"golang.org/x/tools/go/ssa"

	"wrverif/core"
)

// c03URLForms (R12): a <url> has two token forms: the url token `url(x)` and, when the address is quoted, a
// function block named url holding a string.  Wherever the module tests a token for being a parser.URL it must
// also consider the function form, or `@import url("…")` (the usual spelling) and `list-style-image: url("…")` are
// dropped.  Sibling cross-check: every function that type-asserts a value to parser.URL also type-asserts the same
// value to parser.FunctionBlock.
func c03URLForms(c *core.Check) {
	p := c.Prog
	r := c.Rule("R12", "both token forms of <url>: every function of the module that tests a token for parser.URL (type switch or assertion) tests the same value for parser.FunctionBlock too — the quoted form url(\"…\") is a function block", 3)
	n := 0
	for _, fn := range p.ModFuncs {
		if fn.Pkg == nil || fn.Blocks == nil {
			continue
		}
		if core.Rel(fn.Pkg.Pkg.Path()) == "css/parser" {
			continue // the tokenizer and serializer produce and print the forms; they do not read urls
		}
		asserted := map[ssa.Value]map[string]ssa.Instruction{}
		core.Instrs(fn, func(in ssa.Instruction) {
			ta, ok := in.(*ssa.TypeAssert)
			if !ok {
				return
			}
			nm, ok := ta.AssertedType.(*types.Named)
			if !ok || nm.Obj().Pkg() == nil || core.Rel(nm.Obj().Pkg().Path()) != "css/parser" {
				return
			}
			if asserted[ta.X] == nil {
				asserted[ta.X] = map[string]ssa.Instruction{}
			}
			if asserted[ta.X][nm.Obj().Name()] == nil {
				asserted[ta.X][nm.Obj().Name()] = in
			}
		})
		k := 0
		for _, m := range asserted {
			in := m["URL"]
			if in == nil {
				continue
			}
			n++
			k++
			key := fmt.Sprintf("%s | token tested for parser.URL #%d", core.FuncName(fn), k)
			r.Cond(m["FunctionBlock"] != nil, key, p.Pos(in.Pos()), "the function form is tested too", "the value is never tested for parser.FunctionBlock: the quoted form url(\"…\") is not recognised as a url here")
		}
	}
	r.OK("scan", "-", fmt.Sprintf("%d values tested for parser.URL", n))
}
