package props

import (
	"fmt"
	"go/token"
	"go/types"

	"golang.org/x/tools/go/ssa"

	"wrverif/core"
)

// c04CacheOwnership (R14): every computed style owns the storage of its cache of computed values.  Copy() and
// updateWith build a new cache from another one; if the slice or the map of the other cache is stored as it is
// (or re-sliced) into the new one, a later Set on the copy — the box builder does that for anonymous table and flex
// wrappers — overwrites the computed values of the element the style was copied from, and of everything that
// inherits from it.
func c04CacheOwnership(c *core.Check) {
	p := c.Prog
	r := c.Rule("R14", "computed values are not shared between styles: in html/tree no slice or map field of a propsCache is assigned the same field of another propsCache, directly, re-sliced, merged or as the first argument of append (a fresh make/copy/append onto own storage is required)", 2)
	isCache := func(t types.Type) bool {
		if pt, ok := t.(*types.Pointer); ok {
			t = pt.Elem()
		}
		n, ok := t.(*types.Named)
		return ok && n.Obj().Name() == "propsCache"
	}
	n := 0
	for _, fn := range p.FuncsOfPkg("html/tree") {
		if fn.Blocks == nil {
			continue
		}
		k := 0
		core.Instrs(fn, func(in ssa.Instruction) {
			st, ok := in.(*ssa.Store)
			if !ok {
				return
			}
			fa, ok := st.Addr.(*ssa.FieldAddr)
			if !ok || !isCache(fa.X.Type()) {
				return
			}
			switch st.Val.Type().Underlying().(type) {
			case *types.Slice, *types.Map:
			default:
				return
			}
			n++
			k++
			key := fmt.Sprintf("%s | store to propsCache.%s #%d", core.FuncName(fn), core.FieldName(fa), k)
			alias := ""
			seen := map[ssa.Value]bool{}
			var walk func(v ssa.Value, d int)
			walk = func(v ssa.Value, d int) {
				if v == nil || seen[v] || d > 8 {
					return
				}
				seen[v] = true
				switch x := v.(type) {
				case *ssa.Phi:
					for _, e := range x.Edges {
						walk(e, d+1)
					}
				case *ssa.Slice:
					walk(x.X, d+1)
				case *ssa.ChangeType:
					walk(x.X, d+1)
				case *ssa.Call:
					if b, ok := x.Call.Value.(*ssa.Builtin); ok && b.Name() == "append" {
						walk(x.Call.Args[0], d+1)
					}
				case *ssa.Field:
					if isCache(x.X.Type()) {
						alias = "the field of the cache value " + x.X.Name()
					}
				case *ssa.UnOp:
					if x.Op == token.MUL {
						if fa2, ok := x.X.(*ssa.FieldAddr); ok && isCache(fa2.X.Type()) && valueText(fa2.X) != valueText(fa.X) {
							alias = "the field of the cache " + fa2.X.Name()
						}
					}
				}
			}
			walk(st.Val, 0)
			r.Cond(alias == "", key, p.Pos(st.Pos()), "fresh or own storage", "the stored value is "+alias+", not a copy: the two styles share their computed values and a Set on one (anonymous table and flex wrappers) changes the other")
		})
	}
	if n == 0 {
		r.Unknown("html/tree | propsCache", "-", "no store to a slice or map field of a propsCache")
	}
}
