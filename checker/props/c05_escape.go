package props

import (
	"go/constant"
	"sort"

	"golang.org/x/tools/go/ssa"

	"wrverif/core"
)

// c05EscapedSet: the serializer of selectors escapes every ASCII character that cannot be written as it is in a
// name.  The set is the string ranged over in the initialisation of css/selector (each character is paired with its
// escaped form in a strings.Replacer): it must contain every printable ASCII character that is not a name character
// (letters, digits, `_`, `-`), the space included — an unescaped space in `#a\ b` reads back as a descendant combinator.
func c05EscapedSet(c *core.Check) {
	p := c.Prog
	r := c.Rule("R12", "names are serialized so that they read back: the characters escaped by the selector serializer (the string its initialisation ranges over to build the replacer) include every printable ASCII character that is not a letter, a digit, `_` or `-`, the space among them", 1)
	var set string
	found := false
	for _, fn := range p.FuncsOfPkg("css/selector") {
		if fn.Blocks == nil || len(fn.Name()) < 4 || fn.Name()[:4] != "init" {
			continue
		}
		core.Instrs(fn, func(in ssa.Instruction) {
			rg, ok := in.(*ssa.Range)
			if !ok {
				return
			}
			if k, ok := rg.X.(*ssa.Const); ok && k.Value != nil && k.Value.Kind() == constant.String {
				s := constant.StringVal(k.Value)
				if len(s) > len(set) {
					set, found = s, true
				}
			}
		})
	}
	if !found {
		r.Anchor("css/selector init: `for _, s := range \"…\"` building specialCharReplacer")
		return
	}
	has := map[rune]bool{}
	for _, ch := range set {
		has[ch] = true
	}
	var missing []string
	for ch := rune(0x20); ch < 0x7f; ch++ {
		switch {
		case ch >= 'a' && ch <= 'z', ch >= 'A' && ch <= 'Z', ch >= '0' && ch <= '9', ch == '_', ch == '-':
			continue
		}
		if !has[ch] {
			missing = append(missing, string(ch))
		}
	}
	sort.Strings(missing)
	desc := ""
	for _, m := range missing {
		desc += " " + "U+" + hex4(m)
	}
	r.Cond(len(missing) == 0, "css/selector | characters escaped in serialized names", "css/selector/serialize.go", "every non-name printable ASCII character is escaped", "not escaped:"+desc+" — a name containing one of them is written as it is and reads back as something else (`#a\\ b` printed `#a b`: an id and a descendant type selector)")
}

func hex4(s string) string {
	const digits = "0123456789ABCDEF"
	r := []rune(s)[0]
	return string([]byte{digits[(r>>12)&15], digits[(r>>8)&15], digits[(r>>4)&15], digits[r&15]})
}
