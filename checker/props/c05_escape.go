package props

import (
	"go/constant"
	"sort"
	"strconv"

	"golang.org/x/tools/go/ssa"

	"wrverif/core"
)

// c05EscapedSet: the serializer of selectors escapes every ASCII character that cannot be written as it is in a
// name.  The set is the string ranged over in the initialisation of css/selector (each character is paired with its
// escaped form in a strings.Replacer): it must contain every printable ASCII character that is not a name character
// (letters, digits, `_`, `-`), the space included — an unescaped space in `#a\ b` reads back as a descendant combinator.
func c05EscapedSet(c *core.Check) {
	p := c.Prog
	r := c.Rule("R12", "names are serialized so that they read back: the characters escaped by the selector serializer (the string its initialisation ranges over to build the replacer) include every printable ASCII character that is not a letter, a digit, `_` or `-`, the space among them", 1)
	var set string
	found := false
	for _, fn := range p.FuncsOfPkg("css/selector") {
		if fn.Blocks == nil || len(fn.Name()) < 4 || fn.Name()[:4] != "init" {
			continue
		}
		core.Instrs(fn, func(in ssa.Instruction) {
			rg, ok := in.(*ssa.Range)
			if !ok {
				return
			}
			if k, ok := rg.X.(*ssa.Const); ok && k.Value != nil && k.Value.Kind() == constant.String {
				s := constant.StringVal(k.Value)
				if len(s) > len(set) {
					set, found = s, true
				}
			}
		})
	}
	if !found {
		r.Anchor("css/selector init: `for _, s := range \"…\"` building specialCharReplacer")
		return
	}
	has := map[rune]bool{}
	for _, ch := range set {
		has[ch] = true
	}
	var missing []string
	for ch := rune(0x20); ch < 0x7f; ch++ {
		switch {
		case ch >= 'a' && ch <= 'z', ch >= 'A' && ch <= 'Z', ch >= '0' && ch <= '9', ch == '_', ch == '-':
			continue
		}
		if !has[ch] {
			missing = append(missing, string(ch))
		}
	}
	sort.Strings(missing)
	desc := ""
	for _, m := range missing {
		desc += " " + "U+" + hex4(m)
	}
	r.Cond(len(missing) == 0, "css/selector | characters escaped in serialized names", "css/selector/serialize.go", "every non-name printable ASCII character is escaped", "not escaped:"+desc+" — a name containing one of them is written as it is and reads back as something else (`#a\\ b` printed `#a b`: an id and a descendant type selector)")
}

func hex4(s string) string {
	const digits = "0123456789ABCDEF"
	r := []rune(s)[0]
	return string([]byte{digits[(r>>12)&15], digits[(r>>8)&15], digits[(r>>4)&15], digits[r&15]})
}

// c05HexEscapes (R15): the selector parser, like the CSS tokenizer, swallows one white space after a hexadecimal
// escape whatever its length; every replacement string of the selector serializer that spells such an escape
// (backslash, hexadecimal digits) therefore ends with exactly one space, or a space that follows in the value is lost
// when the selector is read back.
func c05HexEscapes(c *core.Check) {
	p := c.Prog
	r := c.Rule("R15", "hexadecimal escapes written by the selector serializer are terminated: every constant handed to strings.NewReplacer in css/selector that is a backslash followed by hexadecimal digits ends with one space", 1)
	n := 0
	var fns []*ssa.Function
	for fn := range p.AllFuncs { // the package initialiser (package-level variables) is a synthetic function
		if fn.Pkg != nil && core.Rel(fn.Pkg.Pkg.Path()) == "css/selector" && fn.Blocks != nil {
			fns = append(fns, fn)
		}
	}
	sort.Slice(fns, func(i, j int) bool { return fns[i].String() < fns[j].String() })
	for _, fn := range fns {
		core.Instrs(fn, func(in ssa.Instruction) {
			call, ok := in.(*ssa.Call)
			if !ok {
				return
			}
			callee := call.Call.StaticCallee()
			if callee == nil || callee.Pkg == nil || callee.Pkg.Pkg.Path() != "strings" || callee.Name() != "NewReplacer" || len(call.Call.Args) != 1 {
				return
			}
			sl, ok := call.Call.Args[0].(*ssa.Slice)
			if !ok {
				return
			}
			al, ok := sl.X.(*ssa.Alloc)
			if !ok {
				return
			}
			for _, ref := range *al.Referrers() {
				ia, ok := ref.(*ssa.IndexAddr)
				if !ok {
					continue
				}
				for _, r2 := range *ia.Referrers() {
					st, ok := r2.(*ssa.Store)
					if !ok {
						continue
					}
					s, ok := core.ConstStr(st.Val)
					if !ok || len(s) < 2 || s[0] != '\\' {
						continue
					}
					hex := 0
					for 1+hex < len(s) && isHexDigit(s[1+hex]) {
						hex++
					}
					if hex == 0 {
						continue
					}
					n++
					rest := s[1+hex:]
					r.Cond(rest == " ", core.FuncName(fn)+" | escape "+strconvQuote(s), p.Pos(st.Pos()), "ends with its terminating space", "the escape is written without its terminating space: the parser swallows the space, tab or newline that follows it in the value (`[title=\"first\\a  second\"]` reads back as first, newline, second)")
				}
			}
		})
	}
	if n == 0 {
		r.Unknown("css/selector | escapes of the string replacer", "-", "no hexadecimal escape constant handed to strings.NewReplacer")
	}
}

func isHexDigit(b byte) bool {
	return b >= '0' && b <= '9' || b >= 'a' && b <= 'f' || b >= 'A' && b <= 'F'
}

func strconvQuote(s string) string { return strconv.Quote(s) }
