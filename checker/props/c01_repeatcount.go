package props

import (
	"fmt"
	"go/token"
	"go/types"
	"strings"

	"golang.org/x/tools/go/ssa"

	"wrverif/core"
)

// nonNegative: the integer value cannot be negative by construction: a non-negative constant, a length, a count of
// runes, a counter that starts at such a value and is only incremented, a sum, product or quotient of such values.
func nonNegative(v ssa.Value, seen map[ssa.Value]bool, at *ssa.BasicBlock) bool {
	if seen[v] {
		return true // a cycle through a phi: decided by the other edges
	}
	seen[v] = true
	if k, ok := core.ConstInt(v); ok {
		return k >= 0
	}
	switch x := v.(type) {
	case *ssa.Call:
		if b, ok := x.Call.Value.(*ssa.Builtin); ok && (b.Name() == "len" || b.Name() == "cap") {
			return true
		}
		if callee := x.Call.StaticCallee(); callee != nil && callee.Pkg != nil {
			switch callee.Pkg.Pkg.Path() + "." + callee.Name() {
			case "unicode/utf8.RuneCountInString", "unicode/utf8.RuneCount", "strings.Count", "bytes.Count":
				return true
			}
			// a maximum with a non-negative value: MaxInt(0, n)
			if callee.Name() == "MaxInt" || callee.Name() == "Max" {
				for _, a := range x.Call.Args {
					if k, ok := core.ConstInt(a); ok && k >= 0 {
						return true
					}
				}
			}
		}
		if b, ok := x.Call.Value.(*ssa.Builtin); ok && b.Name() == "max" {
			for _, a := range x.Call.Args {
				if k, ok := core.ConstInt(a); ok && k >= 0 {
					return true
				}
			}
		}
	case *ssa.Phi:
		for _, e := range x.Edges {
			if !nonNegative(e, seen, at) {
				return false
			}
		}
		return true
	case *ssa.BinOp:
		switch x.Op {
		case token.ADD, token.MUL, token.QUO, token.REM:
			return nonNegative(x.X, seen, at) && nonNegative(x.Y, seen, at)
		case token.SUB:
			// x - k with x >= k established on the way: a test `x < c` (c >= k) whose false side, or `x >= c` whose
			// true side, dominates the site
			if k, ok := core.ConstInt(x.Y); ok && at != nil {
				return atLeast(x.X, k, at)
			}
		}
	case *ssa.Convert:
		return nonNegative(x.X, seen, at)
	case *ssa.ChangeType:
		return nonNegative(x.X, seen, at)
	}
	return false
}

// atLeast: on every path to block `at`, v >= k was established by a comparison of v with a constant.
func atLeast(v ssa.Value, k int64, at *ssa.BasicBlock) bool {
	fn := at.Parent()
	for _, b := range fn.Blocks {
		if len(b.Instrs) == 0 {
			continue
		}
		ifi, ok := b.Instrs[len(b.Instrs)-1].(*ssa.If)
		if !ok {
			continue
		}
		cond, neg := ifi.Cond, false
		for {
			u, ok := cond.(*ssa.UnOp)
			if !ok || u.Op != token.NOT {
				break
			}
			cond, neg = u.X, !neg
		}
		bo, ok := cond.(*ssa.BinOp)
		if !ok || bo.X != v {
			continue
		}
		c, ok := core.ConstInt(bo.Y)
		if !ok {
			continue
		}
		// which successor has v >= k
		side := -1
		switch bo.Op {
		case token.LSS: // v < c false => v >= c
			if c >= k {
				side = 1
			}
		case token.LEQ: // v <= c false => v >= c+1
			if c+1 >= k {
				side = 1
			}
		case token.GEQ:
			if c >= k {
				side = 0
			}
		case token.GTR:
			if c+1 >= k {
				side = 0
			}
		}
		if side < 0 {
			continue
		}
		if neg {
			side = 1 - side
		}
		s := b.Succs[side]
		if len(s.Preds) == 1 && (s == at || s.Dominates(at)) {
			return true
		}
	}
	return false
}

// c01RepeatCounts (R31): strings.Repeat panics on a negative count.  Every call of it in the library (the test helpers
// aside) has a count that cannot be negative by construction, or is reached only when a comparison of the count
// with zero found it not negative, or is one of the named sites whose count is validated where the value is read.
// (The additive system divided the "absolute value" of the minimum integer, which is negative.)
func c01RepeatCounts(c *core.Check) {
	p := c.Prog
	r := c.Rule("R31", "strings.Repeat never gets a negative count: at every call in the library the count is non-negative by construction (constant, length, counter only incremented, sums and quotients of those), or the call is reached only when a comparison of the count with zero or a positive constant excluded the negative values; named sites: the count is a validated property value", 4)
	exempt := map[string]string{
		"text.(*TextLayoutPango).setTabs": "tab-size: css/validation.tabSize accepts an integer only when ValueF >= 0",
		"css/parser.ParseColor":           "the multiplier is a field of the constant table of hash patterns (1 or 2)",
		"css/parser.parseColorHash":       "the multiplier is a field of the constant table of hash patterns (1 or 2)",
	}
	n := 0
	for _, fn := range p.ModFuncs {
		if fn.Pkg == nil || strings.Contains(fn.Pkg.Pkg.Path(), "testutils") || strings.HasSuffix(fn.Pkg.Pkg.Path(), "/gen") {
			continue
		}
		fn := fn
		k := 0
		core.Instrs(fn, func(in ssa.Instruction) {
			call, ok := in.(*ssa.Call)
			if !ok {
				return
			}
			callee := call.Call.StaticCallee()
			if callee == nil || callee.Pkg == nil || callee.Pkg.Pkg.Path() != "strings" || callee.Name() != "Repeat" || len(call.Call.Args) != 2 {
				return
			}
			k++
			n++
			key := fmt.Sprintf("%s | strings.Repeat #%d", core.FuncName(fn), k)
			count := call.Call.Args[1]
			if nonNegative(count, map[ssa.Value]bool{}, call.Block()) {
				r.OK(key, p.Pos(call.Pos()), "the count is non-negative by construction")
				return
			}
			// comparisons of the count with a non-negative constant
			type cmp struct {
				atom ssa.Value
				op   token.Token
				k    int64
			}
			var cmps []cmp
			var atoms []ssa.Value
			for _, a := range core.CondAtoms(fn) {
				b, ok := a.(*ssa.BinOp)
				if !ok {
					continue
				}
				if kk, ok := core.ConstInt(b.Y); ok && b.X == count {
					cmps = append(cmps, cmp{a, b.Op, kk})
					atoms = append(atoms, a)
				} else if kk, ok := core.ConstInt(b.X); ok && b.Y == count {
					cmps = append(cmps, cmp{a, flipCmp(b.Op), kk})
					atoms = append(atoms, a)
				}
			}
			if len(atoms) > 0 {
				ok2, _ := core.GuardedBy(fn, call.Block(), atoms, func(m map[ssa.Value]bool) bool {
					for _, cm := range cmps {
						t := m[cm.atom]
						switch cm.op {
						case token.GTR: // count > k
							if t && cm.k >= -1 {
								return true
							}
						case token.GEQ:
							if t && cm.k >= 0 {
								return true
							}
						case token.LSS: // count < k false => count >= k
							if !t && cm.k >= 0 {
								return true
							}
						case token.LEQ:
							if !t && cm.k >= -1 {
								return true
							}
						case token.NEQ, token.EQL:
						}
					}
					return false
				})
				if ok2 {
					r.OK(key, p.Pos(call.Pos()), "reached only when a comparison excluded the negative counts")
					return
				}
			}
			if why, ok := exempt[core.FuncName(fn)]; ok {
				r.Skip(key, p.Pos(call.Pos()), why)
				return
			}
			r.Fail(key, p.Pos(call.Pos()), "the count can be negative as far as this function shows (no comparison with zero on the way, not a length or a counter): strings.Repeat panics on a negative count")
		})
	}
	if n == 0 {
		r.Anchor("calls of strings.Repeat")
	}
}

// c01RootStaysBlock (R32): the root box is block-level: BuildFormattingStructure asserts it (the display of the root
// element computes to a block-level value).  elementToBox overrides the display of a footnote element with its
// footnote-display; an override by an inline display is unreachable for the root element, which elementToBox knows by
// its nil state parameter.  (`<html style="float: footnote; footnote-display: inline">` panicked on the assertion.)
func c01RootStaysBlock(c *core.Check) {
	p := c.Prog
	r := c.Rule("R32", "the root box stays block-level: in html/boxes.elementToBox every SetDisplay of an inline display is reached only when the state parameter was compared with nil and found non-nil (the root element is the call without state)", 1)
	fn := p.Fn("html/boxes", "elementToBox")
	if fn == nil {
		r.Anchor("html/boxes.elementToBox")
		return
	}
	var state *ssa.Parameter
	for _, prm := range fn.Params {
		if prm.Name() == "state" {
			state = prm
		}
	}
	if state == nil {
		r.Anchor("html/boxes.elementToBox: parameter state")
		return
	}
	var atoms []ssa.Value
	eq := map[ssa.Value]bool{}
	for _, a := range core.CondAtoms(fn) {
		b, ok := a.(*ssa.BinOp)
		if !ok || (b.Op != token.EQL && b.Op != token.NEQ) || b.X != ssa.Value(state) {
			continue
		}
		if k, ok := b.Y.(*ssa.Const); ok && k.IsNil() {
			atoms = append(atoms, a)
			eq[a] = b.Op == token.EQL
		}
	}
	n := 0
	core.Instrs(fn, func(in ssa.Instruction) {
		call, ok := in.(*ssa.Call)
		if !ok || !call.Call.IsInvoke() || call.Call.Method.Name() != "SetDisplay" || len(call.Call.Args) != 1 {
			return
		}
		// first word of the display literal
		first := ""
		if ld, ok := call.Call.Args[0].(*ssa.UnOp); ok {
			if al, ok := ld.X.(*ssa.Alloc); ok && al.Referrers() != nil {
				for _, ref := range *al.Referrers() {
					if ia, ok := ref.(*ssa.IndexAddr); ok {
						if i, ok := core.ConstInt(ia.Index); ok && i == 0 && ia.Referrers() != nil {
							for _, r2 := range *ia.Referrers() {
								if st, ok := r2.(*ssa.Store); ok {
									first, _ = core.ConstStr(st.Val)
								}
							}
						}
					}
				}
			}
		}
		if first != "inline" && first != "run-in" && first != "" {
			return
		}
		n++
		key := fmt.Sprintf("html/boxes.elementToBox | SetDisplay(%s …) #%d", first, n)
		if first == "" {
			r.Unknown(key, p.Pos(call.Pos()), "the display set is not a literal")
			return
		}
		ok2, _ := core.GuardedBy(fn, call.Block(), atoms, func(m map[ssa.Value]bool) bool {
			for a, v := range m {
				if v != eq[a] { // the test says "state is not nil"
					return true
				}
			}
			return false
		})
		r.Cond(ok2 && len(atoms) > 0, key, p.Pos(call.Pos()), "reached only for an element with a state: not the root", "the display of the root element can be set to an inline one: BuildFormattingStructure asserts that the root box is block-level and panics")
	})
	if n == 0 {
		r.Skip("html/boxes.elementToBox | SetDisplay(inline …)", p.Pos(fn.Pos()), "elementToBox sets no inline display")
	}
}

// c01NilCheckedThenUsed (R33): a contradiction lint (Engler et al.): when a function compares an optional value (an
// interface such as pr.MaybeFloat, obtained from a call) with nil on one path, it believes the value can be nil; a
// method called on the same value on a path where no such comparison found it non-nil contradicts that belief.  For
// every interface-typed result of a call that the function compares with nil: each method invoked on it is reached
// only when one of those comparisons says "not nil".  Scope: packages svg and images (the optional intrinsic sizes).
// (svg.image.draw tested the intrinsic ratio for nil in its first branch and called V() on it in the two others.)
func c01NilCheckedThenUsed(c *core.Check) {
	p := c.Prog
	r := c.Rule("R33", "a value compared with nil is not used where it may be nil: in packages svg and images, for every interface-typed result of a call that the function compares with nil, each method invoked on that value is reached only when one of the comparisons found it non-nil", 3)
	n := 0
	for _, pkg := range []string{"svg", "images"} {
		for _, fn := range p.FuncsOfPkg(pkg) {
			fn := fn
			// candidate values: compared with nil
			type cand struct {
				atoms []ssa.Value
				eq    map[ssa.Value]bool
			}
			cands := map[ssa.Value]*cand{}
			var order []ssa.Value
			for _, a := range core.CondAtoms(fn) {
				b, ok := a.(*ssa.BinOp)
				if !ok || (b.Op != token.EQL && b.Op != token.NEQ) {
					continue
				}
				for _, side := range [][2]ssa.Value{{b.X, b.Y}, {b.Y, b.X}} {
					k, ok := side[1].(*ssa.Const)
					if !ok || !k.IsNil() {
						continue
					}
					v := side[0]
					if _, isIface := v.Type().Underlying().(*types.Interface); !isIface {
						continue
					}
					switch v.(type) {
					case *ssa.Extract, *ssa.Call:
					default:
						continue
					}
					if cands[v] == nil {
						cands[v] = &cand{eq: map[ssa.Value]bool{}}
						order = append(order, v)
					}
					cands[v].atoms = append(cands[v].atoms, a)
					cands[v].eq[a] = b.Op == token.EQL
				}
			}
			for _, v := range order {
				cd := cands[v]
				k := 0
				core.Instrs(fn, func(in ssa.Instruction) {
					call, ok := in.(*ssa.Call)
					if !ok || !call.Call.IsInvoke() || call.Call.Value != v {
						return
					}
					k++
					n++
					key := fmt.Sprintf("%s | (%s).%s() #%d", core.FuncName(fn), resultName(v), call.Call.Method.Name(), k)
					// all the comparisons with nil of the function take part: the same value is compared more than once
					// (no common sub-expressions in this form), and what is known of one value decides another
					// (`a == nil && b == nil … else if a == nil`: b is not nil there)
					var all []ssa.Value
					for _, v2 := range order {
						all = append(all, cands[v2].atoms...)
					}
					if len(all) > 12 {
						r.Skip(key, p.Pos(call.Pos()), "too many comparisons with nil to enumerate")
						return
					}
					ok2, _ := core.GuardedBy(fn, call.Block(), all, func(m map[ssa.Value]bool) bool {
						// an assignment that gives two answers for one value is not a path
						for _, v2 := range order {
							isNil, seen := false, false
							for _, a := range cands[v2].atoms {
								nilHere := m[a] == cands[v2].eq[a]
								if seen && nilHere != isNil {
									return true
								}
								isNil, seen = nilHere, true
							}
						}
						for _, a := range cd.atoms {
							if m[a] != cd.eq[a] { // this comparison says "not nil"
								return true
							}
						}
						return false
					})
					r.Cond(ok2, key, p.Pos(call.Pos()), "reached only when the value was found non-nil", "the function compares this value with nil elsewhere, and this call of a method on it is reached without any of those comparisons having found it non-nil: nil pointer dereference")
				})
			}
		}
	}
	if n == 0 {
		r.Anchor("methods invoked on nil-compared optional values in svg and images")
	}
}

// resultName names a value that is the result of a call without its register: "result 2 of GetIntrinsicSize".
func resultName(v ssa.Value) string {
	switch x := v.(type) {
	case *ssa.Extract:
		if call, ok := x.Tuple.(*ssa.Call); ok {
			return fmt.Sprintf("result %d of %s", x.Index, core.CalleeName(call))
		}
	case *ssa.Call:
		return "result of " + core.CalleeName(x)
	}
	return "value"
}
