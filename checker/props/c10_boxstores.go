package props

import (
	"fmt"
	"go/token"
	"sort"
	"strings"

	"golang.org/x/tools/go/ssa"

	"wrverif/core"
)

// c10BoxSizingStores (R14): the box-sizing reduction of each of the six sizes is independent of the other sizes.
// In resolvePercentages every size of an axis (the size itself, its minimum and its maximum) is reduced by the delta
// of that axis whenever the delta is positive; the only further condition a reduction may depend on is a test of the
// very field it writes (an auto size has nothing to subtract from). A test of another field guarding the store makes
// the border-box constraints of a box with an auto width be compared, unreduced, with its content width.
func c10BoxSizingStores(c *core.Check) {
	p := c.Prog
	r := c.Rule("R14", "resolvePercentages: each of width, min-width, max-width, height, min-height, max-height is reduced by the box-sizing delta of its own axis whenever that delta is positive, whatever the other sizes are: the store is reached for either outcome of every test inside the `delta > 0` region that is not a test of the stored field itself", 4)
	fn := p.Fn("html/layout", "resolvePercentages")
	if fn == nil {
		r.Anchor("html/layout.resolvePercentages")
		return
	}
	type delta struct {
		phi  *ssa.Phi
		atom ssa.Value
		axis string
	}
	var deltas []delta
	atoms := core.CondAtoms(fn)
	for _, a := range atoms {
		if bo, ok := a.(*ssa.BinOp); ok && bo.Op == token.GTR {
			if phi, ok := bo.X.(*ssa.Phi); ok {
				if z, ok := core.ConstFloat(bo.Y); ok && z == 0 {
					axis := "horizontal"
					if core.DerivesFrom(phi, func(v ssa.Value) bool {
						fa, ok := v.(*ssa.FieldAddr)
						return ok && core.FieldName(fa) == "PaddingTop"
					}) || phiReadsField(phi, "PaddingTop") {
						axis = "vertical"
					}
					deltas = append(deltas, delta{phi, a, axis})
				}
			}
		}
	}
	if len(deltas) != 2 {
		r.Unknown("resolvePercentages | deltas", p.Pos(fn.Pos()), fmt.Sprintf("%d `delta > 0` tests on merged values found, 2 expected", len(deltas)))
		return
	}
	want := map[string]string{"Width": "horizontal", "MinWidth": "horizontal", "MaxWidth": "horizontal", "Height": "vertical", "MinHeight": "vertical", "MaxHeight": "vertical"}
	found := map[string]bool{}
	fieldOfAtom := func(a ssa.Value) map[string]bool {
		out := map[string]bool{}
		if bo, ok := a.(*ssa.BinOp); ok {
			for _, o := range []ssa.Value{bo.X, bo.Y} {
				if u, ok := o.(*ssa.UnOp); ok && u.Op == token.MUL {
					if fa, ok := u.X.(*ssa.FieldAddr); ok {
						out[core.FieldName(fa)] = true
					}
				}
			}
		}
		return out
	}
	core.Instrs(fn, func(in ssa.Instruction) {
		st, ok := in.(*ssa.Store)
		if !ok {
			return
		}
		fa, ok := st.Addr.(*ssa.FieldAddr)
		if !ok {
			return
		}
		f := core.FieldName(fa)
		var d *delta
		for i := range deltas {
			phi := deltas[i].phi
			if subtracts(st.Val, phi, 0) {
				d = &deltas[i]
			}
		}
		if d == nil {
			return
		}
		key := "resolvePercentages | " + f + " reduced by the delta of its axis"
		axis, ok := want[f]
		if !ok {
			r.Fail(key, p.Pos(st.Pos()), "a box-sizing delta is subtracted from a field that is not one of the six sizes")
			return
		}
		found[f] = true
		if axis != d.axis {
			r.Fail(key, p.Pos(st.Pos()), fmt.Sprintf("%s is reduced by the %s delta", f, d.axis))
			return
		}
		// the region: atoms evaluated in blocks dominated by the true successor of the delta test
		var region *ssa.BasicBlock
		if ai, ok := d.atom.(ssa.Instruction); ok && ai.Block() != nil {
			b := ai.Block()
			if ifi, ok := b.Instrs[len(b.Instrs)-1].(*ssa.If); ok && ifi.Cond == d.atom {
				region = b.Succs[0]
			}
		}
		if region == nil {
			r.Unknown(key, p.Pos(st.Pos()), "the delta test does not end its block")
			return
		}
		var own, others []ssa.Value
		for _, a := range atoms {
			in, ok := a.(ssa.Instruction)
			if !ok || a == d.atom || in.Block() == nil || !(region == in.Block() || region.Dominates(in.Block())) {
				continue
			}
			if fieldOfAtom(a)[f] {
				own = append(own, a)
			} else {
				others = append(others, a)
			}
		}
		// some polarity of the own tests reaches the store for every outcome of every other test
		var blocked []string
		okPolarity := false
		for mask := 0; mask < 1<<len(own) && !okPolarity; mask++ {
			base := map[ssa.Value]bool{d.atom: true}
			for i, a := range own {
				base[a] = mask&(1<<i) != 0
			}
			if !core.ForwardReach(fn.Blocks[0], base, nil)[st.Block()] {
				continue
			}
			blocked = nil
			for _, o := range others {
				for _, val := range []bool{true, false} {
					as := map[ssa.Value]bool{}
					for k, v := range base {
						as[k] = v
					}
					as[o] = val
					if !core.ForwardReach(fn.Blocks[0], as, nil)[st.Block()] {
						blocked = append(blocked, fmt.Sprintf("%s is %v", valueText(o), val))
					}
				}
			}
			if len(blocked) == 0 {
				okPolarity = true
			}
		}
		sort.Strings(blocked)
		r.Cond(okPolarity, key, p.Pos(st.Pos()), fmt.Sprintf("reached for both outcomes of %d other tests of the region (%d tests of %s itself)", len(others), len(own), f), "the reduction is skipped when "+strings.Join(blocked, " or when "))
	})
	for f := range want {
		if !found[f] {
			r.Fail("resolvePercentages | "+f+" reduced by the delta of its axis", p.Pos(fn.Pos()), "no store subtracts a box-sizing delta from this size")
		}
	}
}

// subtracts: v is computed from `x - phi` through calls and interface conversions.
func subtracts(v ssa.Value, phi *ssa.Phi, depth int) bool {
	if depth > 6 {
		return false
	}
	switch x := v.(type) {
	case *ssa.BinOp:
		if x.Op == token.SUB && x.Y == ssa.Value(phi) {
			return true
		}
		return subtracts(x.X, phi, depth+1) || subtracts(x.Y, phi, depth+1)
	case *ssa.Call:
		for _, a := range x.Call.Args {
			if subtracts(a, phi, depth+1) {
				return true
			}
		}
	case *ssa.MakeInterface:
		return subtracts(x.X, phi, depth+1)
	case *ssa.ChangeType:
		return subtracts(x.X, phi, depth+1)
	case *ssa.Convert:
		return subtracts(x.X, phi, depth+1)
	}
	return false
}

func phiReadsField(phi *ssa.Phi, field string) bool {
	seen := map[ssa.Value]bool{}
	var walk func(v ssa.Value) bool
	walk = func(v ssa.Value) bool {
		if v == nil || seen[v] {
			return false
		}
		seen[v] = true
		switch x := v.(type) {
		case *ssa.Phi:
			for _, e := range x.Edges {
				if walk(e) {
					return true
				}
			}
		case *ssa.BinOp:
			return walk(x.X) || walk(x.Y)
		case *ssa.Call:
			if x.Call.IsInvoke() && walk(x.Call.Value) {
				return true
			}
			for _, a := range x.Call.Args {
				if walk(a) {
					return true
				}
			}
		case *ssa.UnOp:
			if fa, ok := x.X.(*ssa.FieldAddr); ok {
				return core.FieldName(fa) == field
			}
			return walk(x.X)
		case *ssa.ChangeType:
			return walk(x.X)
		case *ssa.Convert:
			return walk(x.X)
		case *ssa.MakeInterface:
			return walk(x.X)
		case *ssa.TypeAssert:
			return walk(x.X)
		}
		return false
	}
	return walk(phi)
}

