package props

import (
	"fmt"
	"go/ast"
	"go/token"
	"go/types"
	"os"
	"sort"
	"strings"

	"golang.org/x/tools/go/ssa"

	"wrverif/core"
)

func init() { register("C15", c15) }

func c15Scope(fn *ssa.Function) bool {
	if fn.Pkg == nil {
		return false
	}
	return c15PkgScope(core.Rel(fn.Pkg.Pkg.Path())) && !core.IsInitFunc(fn)
}

func c15PkgScope(rel string) bool {
	switch {
	case strings.HasPrefix(rel, "utils/testutils"), rel == "css/properties/gen", rel == "macros":
		return false
	}
	return true
}

// reasoned exceptions for E1 (one named statement, one reason)
var c15WriteExempt = map[string]string{
	"html/layout.getTemplateTracks | tracksList[len(tracksList)-1] = append(tracksList[len(tracksList)-1].(pr.GridNames), repea…": c15GridNamesReason,
	"html/layout.getTemplateTracks | tracksList[len(tracksList)-1] = append(tracksList[len(tracksList)-1].(pr.GridNames), track…": c15GridNamesReason,
	"html/layout.gridLayout | rows[2*y] = append(rows[2*y].(pr.GridNames), startName)":                                            c15GridNamesReason,
	"html/layout.gridLayout | columns[2*x] = append(columns[2*x].(pr.GridNames), startName)":                                      c15GridNamesReason,
	"html/layout.gridLayout | rows[len(rows)-2*y-1] = append(rows[len(rows)-2*y-1].(pr.GridNames), endName)":                      c15GridNamesReason,
	"html/layout.gridLayout | columns[len(columns)-2*x-1] = append(columns[len(columns)-2*x-1].(pr.GridNames), endName)":          c15GridNamesReason,
	"html/boxes.computeContentList | value = append(value, \"first\")":                                                            "value is the Strings of a string()/element() content item, which validation.checkStringOrElementFunction always builds as a two-element literal: the len(value)==1 branch is dead and a literal has no spare capacity for append to write into",
}

const c15GridNamesReason = "the entry extended is a line-names entry (even index) of the list built by getTemplateTracks, and those are copies: obligation `getTemplateTracks | line names are copies` checks that every shared value put in the list sits at a track-size position (odd index), where the validator never stores a GridNames; the analysis itself does not distinguish the dynamic types of the list's entries"

// mutex-guarded memo caches: package-level variable -> its mutex
var c15GuardedMemo = map[string]string{
	"text/hyphen.dictionariesCache": "dictionariesCacheLock",
}

// map iterations whose order-insensitivity was confirmed by reading (function | ranged expression -> verdict: reason).
// verdict "insensitive" discharges; "not-decided" names the site in the evidence without reporting it.
var c15MapRanges = map[string][2]string{
	"backend.(*FontChars).IsFixedPitch | f.Extents":                                {"insensitive", "returns false iff two widths differ: the result is the same whichever width is met first"},
	"css/validation.expandFontVariant | features":                                  {"insensitive", "each appended entry names a distinct longhand; the consumers (cascade maps) key declarations by property, so the order among distinct properties cannot be observed"},
	"html/boxes.wrapTable | pr.TableWrapperBoxProperties":                          {"insensitive", "each iteration moves one property between the two styles, keyed by that property only"},
	"html/layout.getColumnPlacement | childrenPositions":                           {"insensitive", "marks occupied columns with the constant true (set union)"},
	"html/layout.resolveTracksSizes | childrenPositions":                           {"not-decided", "grid track sizing groups items per track in map order; whether the per-track maxima make this unobservable is not decided here"},
	"html/layout.layoutDocument | context.TargetCollector.CounterLookupItems":      {"insensitive", "each iteration re-parses the content of its own lookup item (keyed by source box and token) and touches the bookmark label of that box only"},
	"html/layout.(*layoutContext).makePage | targetMissing":                        {"insensitive", "sets the constant flag PagesWanted on the page maker entry of its own anchor"},
	"html/tree.newStyleFor | out.cascadedStyles":                                   {"insensitive", "computes the style of the pseudo-element named by its own key; its only input besides the key is the already computed style of the parent element"},
	"html/tree.StyleFor.SetPageComputedStylesT | styleFor.cascadedStyles":          {"insensitive", "computes the style of the margin box named by its own key from the page style computed before the loop"},
	"html/tree.ResumeStack.Unpack | r":                                             {"not-decided", "returns the first entry: order-independent only when the stack level holds one entry, which no rule here establishes"},
	"html/tree.(*TargetCollector).CheckPendingTargets | tc.TargetLookupItems":      {"insensitive", "every pending parse-again function is called once with the same argument; each updates the box it closes over"},
	"html/tree.(*TargetCollector).CheckPendingTargets | item.parseAgainFunctions":  {"insensitive", "same loop, inner level: each function updates the box it closes over"},
	"html/tree.(*TargetCollector).CacheTargetPageCounters | tc.CounterLookupItems": {"insensitive", "each iteration updates its own lookup item and sets constant flags on the page maker entry the item points to"},
	"html/tree.(*TargetCollector).CacheTargetPageCounters | missingCounters":       {"insensitive", "existence search: the first hit sets a constant flag and re-parses once, then breaks"},
	"html/tree.newComputedStyle | cascaded":                                        {"insensitive", "stores each custom property under its own name k.Var (keys with an empty Var are skipped); distinct keys have distinct names"},
	"svg.newSVGContext | colorAttributes":                                          {"insensitive", "rewrites the entry of its own key; the only other entry it reads is \"color\", which is not a key of colorAttributes"},
}

// map iterations whose order reaches the output: reproduced findings (listed in known_findings.json)
var c15MapFindings = map[string]string{
	"html/layout.(*layoutContext).makePage | contextOutOfFlow": "out-of-flow boxes broken across pages are laid out and prepended to the page in map order: with several of them the order of the boxes (and of their drawing calls) changes from run to run",
}

type mapRangeSite struct {
	fn    string
	expr  string
	pos   token.Pos
	class string // auto-classification ("" = none)
}

// classifyMapRange recognises loop bodies that are order-insensitive by construction.
func classifyMapRange(info *types.Info, rs *ast.RangeStmt, after []ast.Stmt) string {
	keyObj := types.Object(nil)
	if id, ok := rs.Key.(*ast.Ident); ok && id.Name != "_" {
		keyObj = info.Defs[id]
		if keyObj == nil {
			keyObj = info.Uses[id]
		}
	}
	isKey := func(e ast.Expr) bool {
		id, ok := e.(*ast.Ident)
		return ok && keyObj != nil && info.Uses[id] == keyObj
	}
	isConst := func(e ast.Expr) bool {
		if tv, ok := info.Types[e]; ok && tv.Value != nil {
			return true
		}
		if id, ok := e.(*ast.Ident); ok && (id.Name == "true" || id.Name == "false" || id.Name == "nil") {
			return true
		}
		return false
	}
	// P1: keyed stores only
	var keyedOnly func(stmts []ast.Stmt) bool
	keyedOnly = func(stmts []ast.Stmt) bool {
		for _, st := range stmts {
			switch x := st.(type) {
			case *ast.AssignStmt:
				for _, l := range x.Lhs {
					if id, ok := l.(*ast.Ident); ok && x.Tok == token.DEFINE {
						_ = id
						continue // local definition
					}
					ie, ok := l.(*ast.IndexExpr)
					if !ok {
						return false
					}
					if !isKey(ie.Index) {
						// storing a constant under any key is a set union
						if !(len(x.Rhs) == 1 && isConst(x.Rhs[0])) {
							return false
						}
					}
				}
			case *ast.ExprStmt:
				call, ok := x.X.(*ast.CallExpr)
				if !ok {
					return false
				}
				switch f := call.Fun.(type) {
				case *ast.Ident:
					if f.Name != "delete" || len(call.Args) != 2 || !isKey(call.Args[1]) {
						return false
					}
				case *ast.SelectorExpr:
					if f.Sel.Name != "Add" || len(call.Args) != 1 || !isKey(call.Args[0]) {
						return false
					}
				default:
					return false
				}
			case *ast.IfStmt:
				if x.Init != nil {
					if as, ok := x.Init.(*ast.AssignStmt); !ok || as.Tok != token.DEFINE {
						return false
					}
				}
				if !keyedOnly(x.Body.List) {
					return false
				}
				if x.Else != nil {
					switch e := x.Else.(type) {
					case *ast.BlockStmt:
						if !keyedOnly(e.List) {
							return false
						}
					case *ast.IfStmt:
						if !keyedOnly([]ast.Stmt{e}) {
							return false
						}
					}
				}
			case *ast.BranchStmt:
				if x.Tok != token.CONTINUE {
					return false
				}
			case *ast.RangeStmt:
				// nested loop over a slice value of the entry, storing constants
				if !keyedOnly(x.Body.List) {
					return false
				}
			case *ast.ForStmt:
				if !keyedOnly(x.Body.List) {
					return false
				}
			default:
				return false
			}
		}
		return true
	}
	if keyedOnly(rs.Body.List) {
		return "keyed stores only (each iteration writes the slot of its own key, or a constant)"
	}
	// P2: existence / universal test: the body only evaluates conditions and returns constants / sets constant flags then breaks
	var testOnly func(stmts []ast.Stmt) bool
	testOnly = func(stmts []ast.Stmt) bool {
		for _, st := range stmts {
			switch x := st.(type) {
			case *ast.IfStmt:
				if !testOnly(x.Body.List) {
					return false
				}
				if x.Else != nil {
					if b, ok := x.Else.(*ast.BlockStmt); !ok || !testOnly(b.List) {
						return false
					}
				}
			case *ast.ReturnStmt:
				for _, r := range x.Results {
					if !isConst(r) {
						return false
					}
				}
			case *ast.AssignStmt:
				if x.Tok == token.DEFINE {
					continue
				}
				for _, r := range x.Rhs {
					if !isConst(r) {
						return false
					}
				}
				for _, l := range x.Lhs {
					if _, ok := l.(*ast.Ident); !ok {
						return false
					}
				}
			case *ast.BranchStmt:
			default:
				return false
			}
		}
		return true
	}
	if testOnly(rs.Body.List) {
		return "existence / universal test (returns constants or sets constant flags)"
	}
	// P3: commutative integer accumulation (count, sum, min, max)
	var accOnly func(stmts []ast.Stmt) bool
	isMinMaxCall := func(e ast.Expr) bool {
		call, ok := e.(*ast.CallExpr)
		if !ok {
			return false
		}
		name := types.ExprString(call.Fun)
		return strings.HasSuffix(name, "MinInt") || strings.HasSuffix(name, "MaxInt") || strings.HasSuffix(name, "Min") || strings.HasSuffix(name, "Max") || name == "min" || name == "max"
	}
	accOnly = func(stmts []ast.Stmt) bool {
		for _, st := range stmts {
			switch x := st.(type) {
			case *ast.IncDecStmt:
			case *ast.AssignStmt:
				if x.Tok == token.DEFINE {
					continue
				}
				if x.Tok == token.ADD_ASSIGN {
					if t, ok := info.Types[x.Lhs[0]]; ok {
						if b, ok := t.Type.Underlying().(*types.Basic); ok && b.Info()&types.IsInteger != 0 {
							continue
						}
					}
					return false
				}
				if x.Tok == token.ASSIGN && len(x.Rhs) == 1 && len(x.Lhs) == 1 {
					if isMinMaxCall(x.Rhs[0]) {
						continue
					}
					if _, ok := x.Lhs[0].(*ast.Ident); ok {
						continue // guarded by a comparison in the enclosing if: max/min idiom (checked below)
					}
				}
				return false
			case *ast.IfStmt:
				// if v > acc { acc = v }
				be, ok := x.Cond.(*ast.BinaryExpr)
				if !ok || x.Else != nil || x.Init != nil {
					return false
				}
				switch be.Op {
				case token.LSS, token.GTR, token.LEQ, token.GEQ:
				default:
					return false
				}
				if len(x.Body.List) != 1 {
					return false
				}
				as, ok := x.Body.List[0].(*ast.AssignStmt)
				if !ok || as.Tok != token.ASSIGN || len(as.Lhs) != 1 {
					return false
				}
				l, r := types.ExprString(as.Lhs[0]), types.ExprString(as.Rhs[0])
				cx, cy := types.ExprString(be.X), types.ExprString(be.Y)
				if !((l == cx && r == cy) || (l == cy && r == cx)) {
					return false
				}
			default:
				return false
			}
		}
		return true
	}
	if accOnly(rs.Body.List) {
		return "commutative integer accumulation (count / sum / min / max)"
	}
	// P4: appends to one slice which is sorted right after the loop
	appended := ""
	okAppend := true
	var appendOnly func(stmts []ast.Stmt)
	appendOnly = func(stmts []ast.Stmt) {
		for _, st := range stmts {
			switch x := st.(type) {
			case *ast.AssignStmt:
				if x.Tok == token.DEFINE {
					continue
				}
				if len(x.Lhs) == 1 && len(x.Rhs) == 1 {
					if call, ok := x.Rhs[0].(*ast.CallExpr); ok && types.ExprString(call.Fun) == "append" && types.ExprString(call.Args[0]) == types.ExprString(x.Lhs[0]) {
						if appended != "" && appended != types.ExprString(x.Lhs[0]) {
							okAppend = false
						}
						appended = types.ExprString(x.Lhs[0])
						continue
					}
				}
				okAppend = false
			case *ast.IfStmt:
				appendOnly(x.Body.List)
				if x.Else != nil {
					okAppend = false
				}
			case *ast.BranchStmt:
			default:
				okAppend = false
			}
		}
	}
	// P5: longest key that prefixes one fixed string: `if strings.HasPrefix(x, key) && len(key) > len(best) { best = key }`.
	// Two keys of the same length that both prefix x are equal, so the strict maximum is unique whatever the order.
	if len(rs.Body.List) == 1 {
		if ifs, ok := rs.Body.List[0].(*ast.IfStmt); ok && ifs.Else == nil && ifs.Init == nil && len(ifs.Body.List) == 1 {
			var conj []ast.Expr
			var split func(e ast.Expr)
			split = func(e ast.Expr) {
				if be, ok := ast.Unparen(e).(*ast.BinaryExpr); ok && be.Op == token.LAND {
					split(be.X)
					split(be.Y)
					return
				}
				conj = append(conj, ast.Unparen(e))
			}
			split(ifs.Cond)
			lenOf := func(e ast.Expr) ast.Expr {
				if call, ok := e.(*ast.CallExpr); ok && len(call.Args) == 1 {
					if id, ok := call.Fun.(*ast.Ident); ok && id.Name == "len" && info.Uses[id] == types.Universe.Lookup("len") {
						return call.Args[0]
					}
				}
				return nil
			}
			as, isAssign := ifs.Body.List[0].(*ast.AssignStmt)
			if isAssign && as.Tok == token.ASSIGN && len(as.Lhs) == 1 && len(as.Rhs) == 1 && isKey(as.Rhs[0]) {
				if best, ok := as.Lhs[0].(*ast.Ident); ok {
					prefix, longer := false, false
					for _, e := range conj {
						if call, ok := e.(*ast.CallExpr); ok && len(call.Args) == 2 && isKey(call.Args[1]) {
							if sel, ok := call.Fun.(*ast.SelectorExpr); ok {
								if fn, ok := info.Uses[sel.Sel].(*types.Func); ok && fn.FullName() == "strings.HasPrefix" {
									if x, ok := call.Args[0].(*ast.Ident); ok && info.Uses[x] != info.Uses[best] && !isKey(x) {
										prefix = true
									}
								}
							}
						}
						if be, ok := e.(*ast.BinaryExpr); ok {
							var big, small ast.Expr
							switch be.Op {
							case token.GTR:
								big, small = lenOf(be.X), lenOf(be.Y)
							case token.LSS:
								big, small = lenOf(be.Y), lenOf(be.X)
							}
							if big != nil && small != nil && isKey(big) {
								if id, ok := small.(*ast.Ident); ok && info.Uses[id] == info.Uses[best] {
									longer = true
								}
							}
						}
					}
					if prefix && longer {
						return "longest key prefixing one string, kept under a strict length comparison (the maximum is unique)"
					}
				}
			}
		}
	}
	appendOnly(rs.Body.List)
	if okAppend && appended != "" {
		for _, st := range after {
			// the first later statement mentioning the slice must be a sort call on it
			mentions := false
			ast.Inspect(st, func(n ast.Node) bool {
				if id, ok := n.(*ast.Ident); ok && id.Name == appended {
					mentions = true
				}
				return true
			})
			if !mentions {
				continue
			}
			if es, ok := st.(*ast.ExprStmt); ok {
				if call, ok := es.X.(*ast.CallExpr); ok {
					name := types.ExprString(call.Fun)
					if (strings.HasPrefix(name, "sort.") || strings.HasPrefix(name, "slices.Sort")) && len(call.Args) > 0 && types.ExprString(call.Args[0]) == appended {
						return "appends to " + appended + " which is sorted (" + name + ") before any other use"
					}
				}
			}
			break
		}
	}
	return ""
}

func funcDeclName(pkgRel string, fd *ast.FuncDecl) string {
	if fd.Recv != nil && len(fd.Recv.List) == 1 {
		t := fd.Recv.List[0].Type
		if st, ok := t.(*ast.StarExpr); ok {
			return fmt.Sprintf("%s.(*%s).%s", pkgRel, types.ExprString(st.X), fd.Name.Name)
		}
		return fmt.Sprintf("%s.%s.%s", pkgRel, types.ExprString(t), fd.Name.Name)
	}
	return pkgRel + "." + fd.Name.Name
}

func c15(c *core.Check) {
	p := c.Prog
	c15MapReadWhileRewritten(c)
	c15TokenListsNotAppendedTo(c)
	c.Explain = "Structural necessary conditions of deterministic, non-interfering rendering, decided on SSA and AST: (R1) no write into memory that outlives one computation — the declared value handed to a computer function, values read back from a style, anything reached from a package-level variable — outside package initialisation, except mutex-guarded memo caches (field-sensitive taint with strong updates on local copies and callee summaries to a fixpoint); (R2) every iteration over a map is order-insensitive by construction (keyed stores, existence tests, commutative accumulation, append-then-sort) or is a named site whose insensitivity was confirmed by reading; (R3) no call to a source of nondeterminism and no goroutine or channel operation in the module; (R4) no direct store to a package-level variable outside init. Races inside the text-shaping dependencies and objects supplied by the caller are not decided. Also decided: (R5) re-evaluation closures (tree.ParseFunc) capture slices and maps as fresh copies only."
	c.Assume = []string{"memo caches return a value that is a function of the key", "dependencies outside the module (text shaping, image decoding) are deterministic"}

	exempted := map[string]bool{}
	eng := core.NewEffectsEngine(p, func(fn *ssa.Function, in ssa.Instruction) bool {
		k := core.FuncName(fn) + " | " + p.StmtTextAt(fn, in.Pos())
		if _, ok := c15WriteExempt[k]; ok {
			exempted[k] = true
			return true
		}
		return false
	})
	if name := os.Getenv("WRV_DEBUG_PARAMWRITES"); name != "" {
		if fn := p.Lookup(name); fn != nil {
			for i := range fn.Params {
				for _, w := range eng.ParamWrites(fn, i) {
					fmt.Fprintf(os.Stderr, "DEBUG %s param %d: %s %s at %s via %s\n", name, i, w.What, p.StmtTextAt(w.Fn, w.Instr.Pos()), p.Pos(w.Instr.Pos()), w.Via)
				}
			}
			fmt.Fprintf(os.Stderr, "DEBUG summary %+v\n", eng.Summary(fn))
		}
	}
	r1 := c.Rule("R1", "no write into memory that outlives one style computation / one render: the declared value handed to a computer function (it belongs to the parsed stylesheet or to the initial values and is shared by every element and every render), a value read back from a style through its accessors, and anything reached from a package-level variable are never written outside package initialisation, except mutex-guarded memo caches whose every access is inside the lock region", 40)
	// (a) computer functions
	ctab, err := p.Table("html/tree", "tmp")
	if err != nil {
		r1.Anchor("html/tree computer table")
	} else {
		seen := map[*ssa.Function]bool{}
		for _, e := range ctab {
			f, ok := e.ValObj.(*types.Func)
			if !ok {
				continue
			}
			fn := p.SSA.FuncValue(f)
			if fn == nil || seen[fn] || len(fn.Params) != 3 {
				continue
			}
			seen[fn] = true
			ws := eng.WritesFrom(fn, func(v ssa.Value) bool { return v == ssa.Value(fn.Params[2]) })
			if len(ws) == 0 {
				r1.OK("computer "+fn.Name()+" does not write through its declared value", p.Pos(fn.Pos()), "no store, map update, copy or in-place append reaches memory derived from the _value parameter (callee summaries included)")
				continue
			}
			for _, w := range ws {
				r1.Fail(fmt.Sprintf("computer %s | %s", fn.Name(), p.StmtTextAt(fn, w.Instr.Pos())), p.Pos(w.Instr.Pos()), fmt.Sprintf("%s %s: the declared value is stored in the stylesheet (or is an initial value) and is shared by every element that the rule matches and by every later render", w.What, w.Via))
			}
		}
	}
	// (c) values read from a style through its typed accessors
	isStyleGet := func(v ssa.Value) bool {
		call, ok := v.(*ssa.Call)
		if !ok {
			return false
		}
		name := ""
		var recv types.Type
		if call.Common().IsInvoke() {
			name = call.Common().Method.Name()
			recv = call.Common().Value.Type()
		} else if callee := call.Common().StaticCallee(); callee != nil && callee.Signature.Recv() != nil {
			name = callee.Name()
			recv = callee.Signature.Recv().Type()
		}
		if !(strings.HasPrefix(name, "Get") || name == "Variables") || recv == nil {
			return false
		}
		rs := recv.String()
		return strings.HasSuffix(rs, "properties.ElementStyle") || strings.HasSuffix(rs, "properties.StyleAccessor") || strings.HasSuffix(rs, "tree.ComputedStyle") || strings.HasSuffix(rs, "tree.AnonymousStyle") || strings.HasSuffix(rs, "properties.Properties")
	}
	nFns := 0
	for _, fn := range p.ModFuncs {
		if !c15Scope(fn) {
			continue
		}
		nFns++
		for _, w := range eng.WritesFrom(fn, isStyleGet) {
			r1.Fail(fmt.Sprintf("%s | %s", core.FuncName(fn), p.StmtTextAt(fn, w.Instr.Pos())), p.Pos(w.Instr.Pos()), fmt.Sprintf("%s %s: a value read from a style is shared with the stylesheet's declared value (computer functions may return it unchanged)", w.What, w.Via))
		}
		// (b) globals
		for _, w := range eng.WritesFrom(fn, core.GlobalLoadSeed) {
			key := fmt.Sprintf("%s | %s", core.FuncName(fn), p.StmtTextAt(fn, w.Instr.Pos()))
			// guarded memo?
			if g := globalOfChain(w.Via); g != "" {
				full := core.Rel(fn.Pkg.Pkg.Path()) + "." + g
				if mu, ok := c15GuardedMemo[full]; ok {
					if okLock, why := lockRegion(p, fn, w.Instr, core.Rel(fn.Pkg.Pkg.Path()), g, mu); okLock {
						r1.OK(key, p.Pos(w.Instr.Pos()), "memo cache written inside the lock region of "+mu+": "+why)
					} else {
						r1.Fail(key, p.Pos(w.Instr.Pos()), "memo cache "+g+" written outside the lock region of "+mu+": "+why)
					}
					continue
				}
			}
			r1.Fail(key, p.Pos(w.Instr.Pos()), fmt.Sprintf("%s %s reached from a package-level variable", w.What, w.Via))
		}
	}
	// (d) values of the type stored in a memo cache are shared wherever they travel (a Hyphener keeps a reference
	//     to the cached dictionary): any write through them outside the lock region is a shared write
	for full := range c15GuardedMemo {
		i := strings.LastIndex(full, ".")
		g := p.Global(full[:i], full[i+1:])
		if g == nil {
			continue
		}
		mt, ok := g.Type().(*types.Pointer).Elem().Underlying().(*types.Map)
		if !ok {
			continue
		}
		elem := mt.Elem()
		// contains: the first-level fields of struct type t through which a memo value is embedded by value
		var contains func(t types.Type, depth int) (bool, []int)
		contains = func(t types.Type, depth int) (bool, []int) {
			if depth > 4 {
				return false, nil
			}
			if _, isNamed := t.(*types.Named); isNamed && types.Identical(t, elem) {
				return true, nil
			}
			st, ok := t.Underlying().(*types.Struct)
			if !ok {
				return false, nil
			}
			var fields []int
			for f := 0; f < st.NumFields(); f++ {
				if all, sub := contains(st.Field(f).Type(), depth+1); all || len(sub) > 0 {
					fields = append(fields, f)
				}
			}
			return false, fields
		}
		isMemoValue := func(v ssa.Value) (bool, []int) {
			t := v.Type()
			if t == nil {
				return false, nil
			}
			if _, isTuple := t.(*types.Tuple); isTuple {
				return false, nil
			}
			// a value under construction in a local variable is not shared yet
			switch x := v.(type) {
			case *ssa.Range:
				return false, nil // go/ssa's opaque iterator type
			case *ssa.Alloc:
				return false, nil
			case *ssa.UnOp:
				if _, isAlloc := x.X.(*ssa.Alloc); isAlloc {
					return false, nil
				}
			}
			if pt, ok := t.Underlying().(*types.Pointer); ok {
				t = pt.Elem()
			}
			if _, isNamed := t.(*types.Named); !isNamed {
				return false, nil
			}
			return contains(t, 0)
		}
		for _, fn := range p.FuncsOfPkg(full[:i]) {
			if !c15Scope(fn) {
				continue
			}
			for _, w := range eng.WritesFromFields(fn, isMemoValue) {
				if okLock, _ := lockRegion(p, fn, w.Instr, full[:i], full[i+1:], c15GuardedMemo[full]); okLock {
					continue
				}
				r1.Fail(fmt.Sprintf("%s | %s", core.FuncName(fn), p.StmtTextAt(fn, w.Instr.Pos())), p.Pos(w.Instr.Pos()), fmt.Sprintf("%s %s: the value belongs to the memo cache %s, shared by every user of the cache", w.What, w.Via, full))
			}
		}
	}
	r1.OK(fmt.Sprintf("%d module functions scanned for writes through style values and package-level variables", nFns), "-", "every remaining function has no such write")
	c15GridNamesCopies(p, eng, r1)
	for k := range exempted {
		r1.Skip(k, "-", "reasoned exception: "+c15WriteExempt[k])
	}
	// every access to a guarded memo is in a function that locks
	for full, mu := range c15GuardedMemo {
		i := strings.LastIndex(full, ".")
		pkg, name := full[:i], full[i+1:]
		g := p.Global(pkg, name)
		if g == nil {
			r1.Anchor(full)
			continue
		}
		for _, fn := range p.FuncsOfPkg(pkg) {
			if core.IsInitFunc(fn) {
				continue
			}
			core.Instrs(fn, func(in ssa.Instruction) {
				u, ok := in.(*ssa.UnOp)
				if !ok || u.X != ssa.Value(g) {
					return
				}
				okLock, why := lockRegion(p, fn, in, pkg, name, mu)
				r1.Cond(okLock, fmt.Sprintf("%s | access to %s under %s", core.FuncName(fn), name, mu), p.Pos(in.Pos()), why, why)
			})
		}
	}

	// ---- R2 map iteration order
	r2 := c.Rule("R2", "every `range` over a map outside package initialisation is order-insensitive by construction (keyed stores only; existence test; commutative integer accumulation; append then sort) or is a named site confirmed by reading; a new unclassified iteration in rendering code is reported", 50)
	var sites []mapRangeSite
	for _, pk := range p.Pkgs {
		rel := core.Rel(pk.PkgPath)
		if !c15PkgScope(rel) {
			continue
		}
		for _, f := range pk.Syntax {
			for _, d := range f.Decls {
				fd, ok := d.(*ast.FuncDecl)
				if !ok || fd.Body == nil || fd.Name.Name == "init" {
					continue
				}
				name := funcDeclName(rel, fd)
				var walk func(stmts []ast.Stmt)
				walkNode := func(n ast.Node) {}
				_ = walkNode
				walk = func(stmts []ast.Stmt) {
					for i, st := range stmts {
						if rs, ok := st.(*ast.RangeStmt); ok {
							if _, isMap := pk.TypesInfo.Types[rs.X].Type.Underlying().(*types.Map); isMap {
								sites = append(sites, mapRangeSite{name, types.ExprString(rs.X), rs.Pos(), classifyMapRange(pk.TypesInfo, rs, stmts[i+1:])})
							}
						}
						// recurse into nested statement lists
						ast.Inspect(st, func(n ast.Node) bool {
							switch b := n.(type) {
							case *ast.BlockStmt:
								if n != st {
									walk(b.List)
									return false
								}
							case *ast.CaseClause:
								walk(b.Body)
								return false
							case *ast.CommClause:
								walk(b.Body)
								return false
							}
							return true
						})
					}
				}
				walk(fd.Body.List)
			}
		}
	}
	sort.Slice(sites, func(i, j int) bool {
		if sites[i].fn != sites[j].fn {
			return sites[i].fn < sites[j].fn
		}
		return sites[i].pos < sites[j].pos
	})
	usedTable := map[string]bool{}
	for _, s := range sites {
		key := s.fn + " | " + s.expr
		if s.class != "" {
			r2.OK(key, p.Pos(s.pos), s.class)
			continue
		}
		if t, ok := c15MapRanges[key]; ok {
			usedTable[key] = true
			if t[0] == "insensitive" {
				r2.OK(key, p.Pos(s.pos), "confirmed by reading: "+t[1])
			} else {
				r2.Skip(key, p.Pos(s.pos), t[1])
			}
			continue
		}
		if why, ok := c15MapFindings[key]; ok {
			usedTable[key] = true
			r2.Fail(key, p.Pos(s.pos), why)
			continue
		}
		r2.Fail(key, p.Pos(s.pos), "unclassified iteration over a map: its body is none of the order-insensitive patterns and the site is not in the table confirmed by reading; if the iteration order can reach the backend calls, two renders of the same document differ")
	}

	// the reason given for svg.inheritDefs is itself an obligation: inheritElement resolves the parent before copying from it
	if ie := p.Method("svg", "svgContext", "inheritElement"); ie != nil {
		isRec := func(in ssa.Instruction) bool {
			c2, ok := in.(*ssa.Call)
			return ok && c2.Common().StaticCallee() == ie
		}
		isCopy := func(in ssa.Instruction) bool {
			rg, ok := in.(*ssa.Range)
			return ok && core.DerivesFrom(rg.X, func(v ssa.Value) bool { return core.IsFieldNamed(v, "attrs") })
		}
		okOrder, _ := core.MustPassThrough(ie, isRec, isCopy)
		r2.Cond(okOrder, "svg.(*svgContext).inheritElement | parent resolved before its attributes are copied", p.Pos(ie.Pos()), "the recursive call on the parent precedes the loop over parent.attrs on every path", "attributes are copied from a parent that may not be resolved yet: the result depends on the order in which inheritDefs visits the map")
	} else {
		r2.Anchor("svg.(*svgContext).inheritElement")
	}

	// ---- R3 nondeterminism sources, goroutines, channels
	r3 := c.Rule("R3", "no module function outside tests calls time.Now, math/rand, os.Getenv/Environ/Hostname/Getpid or runtime.NumCPU, starts a goroutine or uses a channel", 1)
	forbidden := map[string]bool{"time.Now": true, "time.Since": true, "os.Getenv": true, "os.Environ": true, "os.Hostname": true, "os.Getpid": true, "os.LookupEnv": true, "runtime.NumCPU": true, "runtime.GOMAXPROCS": true}
	nBad := 0
	for _, fn := range p.ModFuncs {
		if !c15Scope(fn) || strings.HasPrefix(core.Rel(fn.Pkg.Pkg.Path()), "logger") {
			continue
		}
		core.Instrs(fn, func(in ssa.Instruction) {
			switch x := in.(type) {
			case *ssa.Go:
				nBad++
				r3.Fail(core.FuncName(fn)+" | go statement", p.Pos(in.Pos()), "starts a goroutine: the order of its effects is schedule-dependent")
			case *ssa.Send, *ssa.Select:
				nBad++
				r3.Fail(core.FuncName(fn)+" | channel operation", p.Pos(in.Pos()), "channel operation in rendering code")
			case ssa.CallInstruction:
				if callee := x.Common().StaticCallee(); callee != nil && callee.Pkg != nil {
					full := callee.Pkg.Pkg.Path() + "." + callee.Name()
					if forbidden[full] || callee.Pkg.Pkg.Path() == "math/rand" || callee.Pkg.Pkg.Path() == "math/rand/v2" || callee.Pkg.Pkg.Path() == "crypto/rand" {
						nBad++
						r3.Fail(core.FuncName(fn)+" | call "+full, p.Pos(in.Pos()), "source of nondeterminism: the output would depend on the clock, the environment or a random source")
					}
				}
			}
		})
	}
	r3.Cond(nBad == 0, "module scan for nondeterminism sources", "-", "none found", fmt.Sprintf("%d found", nBad))

	c15Snapshots(c, eng)
	c15ParsedSVG(c, eng)
	c15DrawState(c)

	// ---- R4 direct stores to globals outside init
	r4 := c.Rule("R4", "no direct assignment to a package-level variable of the module outside package initialisation (logger configuration excepted)", 1)
	nSt := 0
	for _, fn := range p.ModFuncs {
		if !c15Scope(fn) || core.Rel(fn.Pkg.Pkg.Path()) == "logger" {
			continue
		}
		core.Instrs(fn, func(in ssa.Instruction) {
			st, ok := in.(*ssa.Store)
			if !ok {
				return
			}
			addr := st.Addr
			for {
				if fa, ok := addr.(*ssa.FieldAddr); ok {
					addr = fa.X
					continue
				}
				if ia, ok := addr.(*ssa.IndexAddr); ok {
					if _, isPtr := ia.X.Type().Underlying().(*types.Pointer); isPtr {
						addr = ia.X
						continue
					}
				}
				break
			}
			if g, ok := addr.(*ssa.Global); ok && g.Pkg != nil && core.InModule(g.Pkg.Pkg.Path()) {
				nSt++
				r4.Fail(core.FuncName(fn)+" | "+p.StmtTextAt(fn, in.Pos()), p.Pos(in.Pos()), "assigns package-level variable "+g.Name()+" at run time: concurrent renders race on it and later renders see the change")
			}
		})
	}
	r4.Cond(nSt == 0, "module scan for run-time assignments to package-level variables", "-", "none found", fmt.Sprintf("%d found", nSt))
}

// globalOfChain extracts the global's name from a provenance chain "… ← global X".
func globalOfChain(via string) string {
	i := strings.LastIndex(via, "global ")
	if i < 0 {
		return ""
	}
	rest := via[i+len("global "):]
	if j := strings.IndexAny(rest, " ←"); j >= 0 {
		rest = rest[:j]
	}
	return rest
}

// lockRegion: is instruction `in` of fn executed with the mutex held? The function must call mu.Lock() on every
// path before `in` and release it with a deferred Unlock (or an Unlock that `in` precedes on every path).
func lockRegion(p *core.Prog, fn *ssa.Function, in ssa.Instruction, pkg, varName, mu string) (bool, string) {
	g := p.Global(pkg, mu)
	if g == nil {
		return false, "mutex " + mu + " not found"
	}
	isOn := func(i ssa.Instruction, method string) bool {
		var common *ssa.CallCommon
		switch x := i.(type) {
		case *ssa.Call:
			common = x.Common()
		case *ssa.Defer:
			common = x.Common()
		default:
			return false
		}
		callee := common.StaticCallee()
		if callee == nil || callee.Name() != method || len(common.Args) == 0 {
			return false
		}
		return common.Args[0] == ssa.Value(g)
	}
	okLock, _ := core.MustPassThrough(fn, func(i ssa.Instruction) bool {
		_, isCall := i.(*ssa.Call)
		return isCall && isOn(i, "Lock")
	}, func(i ssa.Instruction) bool { return i == in })
	if !okLock {
		return false, "no " + mu + ".Lock() on every path before the access"
	}
	deferred := false
	core.Instrs(fn, func(i ssa.Instruction) {
		if _, isDefer := i.(*ssa.Defer); isDefer && isOn(i, "Unlock") {
			deferred = true
		}
	})
	if deferred {
		return true, mu + ".Lock() dominates the access and Unlock is deferred"
	}
	// explicit unlock: must not be able to run before the access
	unlockedBefore := false
	core.Instrs(fn, func(i ssa.Instruction) {
		if _, isCall := i.(*ssa.Call); isCall && isOn(i, "Unlock") && core.Reaches(i, func(x ssa.Instruction) bool { return x == in }) {
			unlockedBefore = true
		}
	})
	if unlockedBefore {
		return false, mu + ".Unlock() can run before the access"
	}
	return true, mu + ".Lock() dominates the access and no Unlock precedes it"
}

// c15GridNamesCopies backs the reasoned exceptions of the grid line names: in getTemplateTracks every value put into the
// list that is shared with the style's value is put there under an odd-index test (a track size), so the line-name
// entries (even indices), the only ones the layout extends, are fresh copies.
func c15GridNamesCopies(p *core.Prog, eng *core.EffectsEngine, r *core.Rule) {
	const key = "html/layout.getTemplateTracks | line names are copies"
	fn := p.Lookup("html/layout.getTemplateTracks")
	if fn == nil || len(fn.Params) != 1 {
		r.Anchor(key)
		return
	}
	shared := eng.ParamTaint(fn, 0)
	isOddTest := func(a ssa.Value) bool {
		ne, ok := a.(*ssa.BinOp)
		if !ok || ne.Op != token.NEQ {
			return false
		}
		if z, ok := core.ConstInt(ne.Y); !ok || z != 0 {
			return false
		}
		rem, ok := ne.X.(*ssa.BinOp)
		if !ok || rem.Op != token.REM {
			return false
		}
		two, ok := core.ConstInt(rem.Y)
		return ok && two == 2
	}
	var odd []ssa.Value
	for _, a := range core.CondAtoms(fn) {
		if isOddTest(a) {
			odd = append(odd, a)
		}
	}
	n, bad := 0, 0
	core.Instrs(fn, func(in ssa.Instruction) {
		call, ok := in.(*ssa.Call)
		if !ok {
			return
		}
		bi, ok := call.Call.Value.(*ssa.Builtin)
		if !ok || bi.Name() != "append" || types.TypeString(call.Type(), nil) != "[]github.com/benoitkugler/webrender/css/properties.GridSpec" {
			return
		}
		for _, v := range core.AppendOperands(call) {
			n++
			if !shared(v) {
				continue
			}
			// shared: must be a track-size position
			// under some index%2 != 0 test, and under no failed one (the inner loop over repeat() has its own index)
			guarded := false
			for _, a := range odd {
				if ok, _ := core.GuardedBy(fn, call.Block(), []ssa.Value{a}, func(m map[ssa.Value]bool) bool { return m[a] }); ok {
					guarded = true
				}
			}
			for _, a := range odd {
				if ok, _ := core.GuardedBy(fn, call.Block(), []ssa.Value{a}, func(m map[ssa.Value]bool) bool { return !m[a] }); ok {
					guarded = false
				}
			}
			if !guarded {
				bad++
				r.Fail(key+" | "+p.StmtTextAt(fn, call.Pos()), p.Pos(call.Pos()), "a value shared with the style's grid-template value is put in the tracks list outside an odd-index (track size) branch: the layout appends area names to the line-name entries of this list, so it would write into the stylesheet's value")
			}
		}
	})
	if n < 4 {
		r.Unknown(key, p.Pos(fn.Pos()), fmt.Sprintf("only %d values appended to the tracks list were found (4 expected)", n))
		return
	}
	if bad == 0 {
		r.OK(key, p.Pos(fn.Pos()), fmt.Sprintf("%d appended values: the shared ones are all under an index%%2 != 0 test", n))
	}
}

// c15Snapshots: a computation that is stored to be run again later must not see state that keeps changing meanwhile.
func c15Snapshots(c *core.Check, eng *core.EffectsEngine) {
	p := c.Prog
	r := c.Rule("R5", "re-evaluation closures take snapshots: every closure of type tree.ParseFunc (stored in the target collector and called again, in map iteration order, when a target or counter becomes known) captures slices and maps only as fresh copies made in the enclosing function — never a parameter or a re-slice of one, whose later changes (the running quote depth) would make the re-evaluation depend on when it runs", 4)
	n := 0
	for _, fn := range p.ModFuncs {
		fn := fn
		core.Instrs(fn, func(in ssa.Instruction) {
			mc, ok := in.(*ssa.MakeClosure)
			if !ok {
				return
			}
			cl := mc.Fn.(*ssa.Function)
			// is the closure used as a tree.ParseFunc?
			isParse := false
			if refs := mc.Referrers(); refs != nil {
				for _, ref := range *refs {
					switch x := ref.(type) {
					case *ssa.ChangeType:
						if strings.HasSuffix(x.Type().String(), "tree.ParseFunc") {
							isParse = true
						}
					case *ssa.Store:
						if pt, ok := x.Addr.Type().Underlying().(*types.Pointer); ok && strings.HasSuffix(pt.Elem().String(), "tree.ParseFunc") {
							isParse = true
						}
					case *ssa.Call:
						if callee := x.Call.StaticCallee(); callee != nil {
							for i, a := range x.Call.Args {
								if a == ssa.Value(mc) && i < len(callee.Params) && strings.HasSuffix(callee.Params[i].Type().String(), "tree.ParseFunc") {
									isParse = true
								}
							}
						}
					}
				}
			}
			// a closure stored in a local that is later passed as ParseFunc: the local has the func type; accept by signature
			if !isParse {
				sig := cl.Signature
				if sig.Params().Len() == 1 && strings.HasSuffix(sig.Params().At(0).Type().String(), "tree.CounterValues") && sig.Results().Len() == 0 {
					isParse = true
				}
			}
			if !isParse {
				return
			}
			n++
			for i, b := range mc.Bindings {
				fv := cl.FreeVars[i]
				t := b.Type()
				byRef := false
				if pt, ok := t.Underlying().(*types.Pointer); ok {
					if _, isAlloc := b.(*ssa.Alloc); isAlloc {
						t = pt.Elem()
						byRef = true
					}
				}
				switch t.Underlying().(type) {
				case *types.Slice, *types.Map:
				default:
					continue
				}
				key := core.FuncName(fn) + " | " + cl.Name() + " captures " + fv.Name()
				var vals []ssa.Value
				if byRef {
					vals = core.StoresTo(b)
				} else {
					vals = []ssa.Value{b}
				}
				bad := ""
				for _, v := range vals {
					why, par := notFresh(v, 0)
					if why == "" {
						continue
					}
					if par != nil {
						// a parameter nobody writes through (declared values, the counter style table) can be shared
						idx := -1
						for k, q := range fn.Params {
							if q == par {
								idx = k
							}
						}
						if idx >= 0 && len(eng.ParamWrites(fn, idx)) == 0 {
							continue
						}
						why += ", which is written through while the content is computed"
					}
					bad = why
				}
				at := mc.Pos()
				if !at.IsValid() {
					at = cl.Pos()
				}
				r.Cond(bad == "", key, p.Pos(at), "a fresh copy made in the enclosing function", "the closure keeps "+bad+": the value it sees when it is run again depends on what happened to that memory in between")
			}
		})
	}
	if n == 0 {
		r.Anchor("closures of type tree.ParseFunc")
	}
}

// notFresh explains why a slice/map value is not a fresh allocation of the current function ("" when it is); when
// the value is (a re-slice of) a parameter, the parameter is returned too.
func notFresh(v ssa.Value, depth int) (string, *ssa.Parameter) {
	if depth > 6 {
		return "a value of unknown origin", nil
	}
	switch x := v.(type) {
	case *ssa.MakeSlice, *ssa.MakeMap:
		return "", nil
	case *ssa.Const:
		return "", nil // nil
	case *ssa.Slice:
		return notFresh(x.X, depth+1)
	case *ssa.Phi:
		for _, e := range x.Edges {
			if why, par := notFresh(e, depth+1); why != "" {
				return why, par
			}
		}
		return "", nil
	case *ssa.Call:
		if b, ok := x.Call.Value.(*ssa.Builtin); ok && b.Name() == "append" {
			return notFresh(x.Call.Args[0], depth+1)
		}
		if callee := x.Call.StaticCallee(); callee != nil && (callee.Name() == "Copy" || callee.Name() == "copy") {
			return "", nil
		}
		if x.Call.IsInvoke() && x.Call.Method.Name() == "Copy" {
			return "", nil
		}
		return "the result of " + x.Call.String(), nil
	case *ssa.Parameter:
		return "the parameter " + x.Name() + " (memory of the caller)", x
	case *ssa.UnOp:
		if al, ok := x.X.(*ssa.Alloc); ok {
			for _, st := range StoresToAlloc(al) {
				if why, par := notFresh(st, depth+1); why != "" {
					return why, par
				}
			}
			return "", nil
		}
		return "memory loaded from " + x.X.Name(), nil
	}
	return "a value of unknown origin (" + v.Name() + ")", nil
}

// StoresToAlloc lists the values stored into a local cell.
func StoresToAlloc(al *ssa.Alloc) []ssa.Value { return core.StoresTo(al) }

// c15ParsedSVG: drawing a parsed SVG image does not change it.
func c15ParsedSVG(c *core.Check, eng *core.EffectsEngine) {
	p := c.Prog
	r := c.Rule("R6", "a parsed SVG image is drawn without being changed (the image cache hands the same object to every place of a document that uses the url, and to later renders): no drawing function of package svg writes through a definition looked up in the image's tables of markers, clip paths, masks, paint servers or nodes", 2)
	n := 0
	for _, fn := range p.FuncsOfPkg("svg") {
		fn := fn
		hasSeed := false
		isSeed := func(v ssa.Value) bool {
			var lk *ssa.Lookup
			switch x := v.(type) {
			case *ssa.Lookup:
				lk = x
			case *ssa.Extract:
				lk, _ = x.Tuple.(*ssa.Lookup)
				if x.Index != 0 {
					return false
				}
			}
			if lk == nil {
				return false
			}
			if !core.DerivesFrom(lk.X, func(w ssa.Value) bool { return core.IsFieldNamed(w, "definitions") }) {
				return false
			}
			// pointers into the tables only (values are copies)
			switch lk.Type().Underlying().(type) {
			case *types.Pointer, *types.Tuple:
				return true
			}
			return false
		}
		core.Instrs(fn, func(in ssa.Instruction) {
			if v, ok := in.(ssa.Value); ok && isSeed(v) {
				hasSeed = true
			}
		})
		if !hasSeed {
			continue
		}
		n++
		ws := eng.WritesFrom(fn, isSeed)
		if len(ws) == 0 {
			r.OK(core.FuncName(fn)+" | definitions looked up are only read", p.Pos(fn.Pos()), "no store reaches memory derived from a looked-up definition")
		}
		for _, w := range ws {
			r.Fail(core.FuncName(fn)+" | "+p.StmtTextAt(fn, w.Instr.Pos()), p.Pos(w.Instr.Pos()), fmt.Sprintf("%s %s: the parsed image is modified while it is drawn, so a second drawing of the same image differs from the first", w.What, w.Via))
		}
	}
	if n == 0 {
		r.Anchor("package svg: lookups in the image's definitions")
	}
}

// c15DrawState: what one drawing of an SVG image leaves behind does not reach the next drawing.
func c15DrawState(c *core.Check) {
	p := c.Prog
	r := c.Rule("R7", "per-drawing state of an SVG image: every field of SVGImage that the drawing code assigns (the text cursor, the text context) is assigned by Draw itself before the first node is drawn, so that a second drawing of the same image starts from the same state (the set of definitions being drawn is emptied by the enter/leave pairs and is excepted)", 2)
	draw := p.Method("svg", "SVGImage", "Draw")
	if draw == nil {
		r.Anchor("svg.(*SVGImage).Draw")
		return
	}
	isImage := func(v ssa.Value) bool {
		pt, ok := v.Type().Underlying().(*types.Pointer)
		if !ok {
			return false
		}
		n, ok := pt.Elem().(*types.Named)
		return ok && n.Obj().Name() == "SVGImage"
	}
	topField := func(addr ssa.Value) string {
		for i := 0; i < 4; i++ {
			fa, ok := addr.(*ssa.FieldAddr)
			if !ok {
				return ""
			}
			if isImage(fa.X) {
				// an image received as a parameter or captured, not one being built
				switch fa.X.(type) {
				case *ssa.Parameter, *ssa.FreeVar:
					return core.FieldName(fa)
				}
				return ""
			}
			addr = fa.X
		}
		return ""
	}
	written := map[string]string{}
	for _, fn := range p.FuncsOfPkg("svg") {
		root := fn
		for root.Parent() != nil {
			root = root.Parent()
		}
		if root == draw || root.Name() == "Parse" || root.Name() == "enter" || root.Name() == "leave" {
			continue
		}
		fn := fn
		core.Instrs(fn, func(in ssa.Instruction) {
			if st, ok := in.(*ssa.Store); ok {
				if f := topField(st.Addr); f != "" {
					written[f] = core.FuncName(fn) + " at " + p.Pos(st.Pos())
				}
			}
		})
	}
	// fields assigned by Draw before the first drawNode
	var first ssa.Instruction
	core.Instrs(draw, func(in ssa.Instruction) {
		if call, ok := in.(*ssa.Call); ok && first == nil && call.Call.StaticCallee() != nil && call.Call.StaticCallee().Name() == "drawNode" {
			first = in
		}
	})
	reset := map[string]bool{}
	core.Instrs(draw, func(in ssa.Instruction) {
		if st, ok := in.(*ssa.Store); ok && first != nil && instrDominates(st, first) {
			if f := topField(st.Addr); f != "" {
				reset[f] = true
			}
		}
	})
	var fields []string
	for f := range written {
		fields = append(fields, f)
	}
	sort.Strings(fields)
	for _, f := range fields {
		r.Cond(reset[f], "svg.(*SVGImage).Draw | "+f, p.Pos(draw.Pos()), "assigned by Draw before the first node is drawn", "the field "+f+" is assigned while drawing ("+written[f]+") and Draw does not reset it: the second drawing of an image starts where the first one ended")
	}
	if len(fields) == 0 {
		r.Anchor("package svg: stores into fields of SVGImage while drawing")
	}
}
