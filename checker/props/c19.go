package props

import (
	"fmt"
	"go/ast"
	"go/constant"
	"go/token"
	"go/types"
	"sort"
	"strings"

	"golang.org/x/tools/go/ssa"

	"wrverif/core"
)

func init() { register("C19", c19) }

// stringsIn collects the string constants mentioned in an expression.
func stringsIn(info *types.Info, e ast.Node) []string {
	var out []string
	seen := map[string]bool{}
	ast.Inspect(e, func(n ast.Node) bool {
		if ex, ok := n.(ast.Expr); ok {
			if s, ok := core.StrConst(info, ex); ok && !seen[s] {
				if _, isLit := ex.(*ast.BasicLit); isLit {
					seen[s] = true
					out = append(out, s)
				}
			}
		}
		return true
	})
	sort.Strings(out)
	return out
}

// switchOn finds the expression switch of fn whose tag text is one of tags.
func switchOn(p *core.Prog, fn *ssa.Function, tags ...string) *core.SwitchInfo {
	for _, sw := range core.Switches(p.Body(fn)) {
		if sw.Tag == nil {
			// switch x := f(); x { ... } has Tag too; init-only switches are skipped
			continue
		}
		t := types.ExprString(sw.Tag)
		for _, want := range tags {
			if t == want {
				return sw
			}
		}
	}
	return nil
}

func caseLabels(info *types.Info, sw *core.SwitchInfo) []string {
	var out []string
	for _, cs := range sw.Cases {
		for _, l := range cs {
			if s, ok := core.StrConst(info, l); ok {
				out = append(out, s)
			}
		}
	}
	sort.Strings(out)
	return out
}

// callsSymbolOfNegative: v is symbol(vs[0]) where vs is the counter's Negative descriptor (the prefix).
func callsSymbolOfNegative(v ssa.Value) bool {
	call, ok := v.(*ssa.Call)
	if !ok || call.Common().StaticCallee() == nil || call.Common().StaticCallee().Name() != "symbol" || len(call.Call.Args) != 1 {
		return false
	}
	// argument is element 0 of a [2]NamedString
	arg := call.Call.Args[0]
	if u, ok := arg.(*ssa.UnOp); ok {
		if ia, ok := u.X.(*ssa.IndexAddr); ok {
			if k, ok := core.ConstInt(ia.Index); ok && k == 0 {
				return true
			}
		}
	}
	if ix, ok := arg.(*ssa.Index); ok {
		if k, ok := core.ConstInt(ix.Index); ok && k == 0 {
			return true
		}
	}
	return false
}

func c19(c *core.Check) {
	p := c.Prog
	c.Explain = "Structural necessary conditions of counter rendering, decided on the type-checked source: no integer division or modulo of css/counters can see a zero divisor and no modulo result that indexes the symbol list can be negative (path-condition reachability under the scenarios divisor==0 / dividend<0, with coinductive reasoning on loop-carried values); the vocabulary of counter systems agrees between the @counter-style validator, symbols(), Validate and the renderer; each system name dispatches to its algorithm, the negative-sign set and the automatic ranges are those of Counter Styles 3; the extends and fallback walks consult and extend a visited set. The arithmetic of each system and counter scoping are not decided. Also decided: (R6) extends merges a descriptor only when the extending style did not set it (whole-field tests). Also decided: (R10) decimal, the last resort, accepts every integer (unbounded automatic range)."
	c.Assume = []string{"the counter style named decimal cannot be redefined by a document once the user-agent sheet defined it (validation.ParseCounterStyleName refuses it), so falling back to decimal terminates"}

	c19Merge(c)
	c19Descriptors(c)
	c19Ranges(c)
	c19Copy(c)
	c19RangeAuto(c)
	c19PadCharacters(c)
	c19ExtendsCycle(c)
	c19NoBoxNoCounters(c)
	c19StyleKeywordNeedsType(c)
	c19DescriptorsReplace(c)
	r10 := c.Rule("R10", "decimal is the last resort for every integer: the automatic range used for decimal (numeric system) has the smallest and the largest integer as constant bounds, so no integer is refused by it", 2)
	autoRangeRule(c, r10)
	r11 := c.Rule("R11", "a fallback renders the same integer: every restart of renderValue with another style (fallback, decimal) passes on the parameter counterValue itself, never the absolute value taken for the systems that write the sign apart", 12)
	fallbackValueRule(c, r11)
	r1 := c.Rule("R1", "every integer / and % of css/counters has a divisor proven non-zero, and every % whose result indexes a list has a dividend proven non-negative (Go's % keeps the sign of the dividend)", 16)
	divisionRule(c, r1, inPkgs("css/counters"))
	// the sign is accounted for in the padding exactly when it is written: both steps test isNegative && useNegative
	if rvf := p.Lookup("css/counters.CounterStyle.renderValue"); rvf != nil {
		if body := p.Body(rvf); body != nil {
			nNeg := 0
			ast.Inspect(body, func(n ast.Node) bool {
				ifs, ok := n.(*ast.IfStmt)
				if !ok {
					return true
				}
				txt := p.NodeText(ifs.Cond)
				if strings.Contains(p.NodeText(ifs.Body), "useNegative =") {
					return true // the block that decides useNegative
				}
				if strings.Contains(txt, "isNegative") {
					nNeg++
					r1.Cond(strings.Contains(txt, "useNegative"), "renderValue | "+txt+" | sign condition", p.Pos(ifs.Pos()), "tests isNegative together with useNegative", "the sign is taken into account for a negative value even when the system does not write signs (cyclic, fixed): padding and sign disagree")
				}
				return true
			})
			if nNeg < 2 {
				r1.Unknown("renderValue | sign conditions", p.Pos(rvf.Pos()), fmt.Sprintf("%d conditions on isNegative found, 2 expected (padding, sign)", nNeg))
			}
		}
	}
	// a negative remainder must be brought back by adding the modulus (floor modulo), never mirrored by Abs
	nAbs := 0
	for _, fn := range p.FuncsOfPkg("css/counters") {
		core.Instrs(fn, func(in ssa.Instruction) {
			call, ok := in.(*ssa.Call)
			if !ok || call.Call.StaticCallee() == nil || call.Call.StaticCallee().Name() != "Abs" || len(call.Call.Args) != 1 {
				return
			}
			nAbs++
			rem, isRem := call.Call.Args[0].(*ssa.BinOp)
			bad := isRem && rem.Op == token.REM
			if bad {
				// digit extraction (the same dividend is also divided by the same modulus: value%L, value/L) is not
				// a cycle: the digits of a negative number are the negated digits of its absolute value
				core.Instrs(fn, func(in2 ssa.Instruction) {
					if q, ok := in2.(*ssa.BinOp); ok && q.Op == token.QUO && q.X == rem.X && q.Y == rem.Y {
						bad = false
					}
				})
			}
			r1.Cond(!bad, core.FuncName(fn)+" | "+p.StmtTextAt(fn, call.Pos())+" | Abs", p.Pos(call.Pos()), "Abs is applied before the remainder is taken, not to a remainder, or to a digit (the dividend is also divided by the modulus)", "Abs is applied to a remainder: for a negative dividend this mirrors the cycle (-1 % 3 gives 1 instead of 2) instead of continuing it")
		})
	}
	if n := divLoopRule(c, r1, inPkgs("css/counters")); n < 2 {
		r1.Unknown("division-progress loops", "-", fmt.Sprintf("%d digit-extraction loops found in css/counters, 2 expected (alphabetic, numeric)", n))
	}

	// ---- R2 vocabulary
	r2 := c.Rule("R2", "the system names accepted by the `system` descriptor validator and by symbols() are all cases of counters.renderValue's dispatch and of CounterStyleDescriptors.Validate; the six systems of Counter Styles 3 are all present", 21)
	spec := []string{"additive", "alphabetic", "cyclic", "fixed", "numeric", "symbolic"}
	sysFn := p.Fn("css/validation", "system")
	rv := p.Method("css/counters", "CounterStyle", "renderValue")
	val := p.Method("css/counters", "CounterStyleDescriptors", "Validate")
	lst := p.Fn("css/validation", "listStyleType_")
	if sysFn == nil || rv == nil || val == nil || lst == nil {
		r2.Anchor("css/validation.system / listStyleType_ / css/counters renderValue / Validate")
		return
	}
	var producer []string
	if sw := switchOn(p, sysFn, "keyword"); sw != nil {
		for _, s := range caseLabels(p.InfoOf(sysFn), sw) {
			if s != "extends" {
				producer = append(producer, s)
			}
		}
	} else {
		// switch keyword := getKeyword(tokens[0]); keyword { — tag text is "keyword"
		r2.Anchor("switch over the system keyword in css/validation.system")
	}
	rvSw := switchOn(p, rv, "system")
	valSw := switchOn(p, val, "system.System")
	if rvSw == nil || valSw == nil {
		r2.Anchor("switch system in renderValue / switch system.System in Validate")
		return
	}
	rvCases := caseLabels(p.InfoOf(rv), rvSw)
	valCases := caseLabels(p.InfoOf(val), valSw)
	has := func(l []string, s string) bool {
		for _, x := range l {
			if x == s {
				return true
			}
		}
		return false
	}
	for _, s := range spec {
		r2.Cond(has(producer, s), "validator accepts system "+s, p.Pos(sysFn.Pos()), "case present", "the `system` descriptor no longer accepts this Counter Styles system")
	}
	for _, s := range producer {
		r2.Cond(has(rvCases, s), "renderValue handles system "+s, p.Pos(rvSw.Pos), "case present", "accepted by the validator but renderValue has no case: such a counter renders as the empty string")
		r2.Cond(has(valCases, s), "Validate handles system "+s, p.Pos(valSw.Pos), "case present", "accepted by the validator but Validate does not check its symbols: an empty symbol list reaches the renderer")
	}
	// symbols(): the names compared with arg0.Value in listStyleType_
	symNames := core.ComparedStrings(lst, func(v ssa.Value) bool { return true })
	nSys := 0
	for _, s := range symNames {
		if has(spec, s) {
			nSys++
			r2.Cond(has(rvCases, s), "symbols("+s+") is rendered", p.Pos(lst.Pos()), "renderValue has the case", "symbols() accepts this system but renderValue has no case")
		}
	}
	r2.Cond(nSys >= 5, "symbols() accepts the five systems of CSS Lists", p.Pos(lst.Pos()), fmt.Sprint(nSys), fmt.Sprintf("only %d system names compared in listStyleType_", nSys))

	// ---- R2b dispatch, negative set, automatic ranges
	r2b := c.Rule("R2b", "renderValue dispatches cyclic→repeating, fixed→nonRepeating, symbolic→symbolic, alphabetic→alphabetic, numeric→numeric, additive→additive; a negative sign is used exactly for symbolic, alphabetic, numeric and additive; the automatic range starts at 1 for alphabetic and symbolic and at 0 for additive", 7)
	wantCallee := map[string]string{"cyclic": "repeating", "fixed": "nonRepeating", "symbolic": "symbolic", "alphabetic": "alphabetic", "numeric": "numeric", "additive": "additive"}
	info := p.InfoOf(rv)
	for i, cs := range rvSw.Cases {
		for _, l := range cs {
			s, ok := core.StrConst(info, l)
			if !ok {
				continue
			}
			var callees []string
			for _, st := range rvSw.Bodies[i] {
				ast.Inspect(st, func(n ast.Node) bool {
					if call, ok := n.(*ast.CallExpr); ok {
						if id, ok := call.Fun.(*ast.Ident); ok {
							if f, ok := info.Uses[id].(*types.Func); ok && f.Pkg() != nil && f.Pkg().Path() == core.ModPath+"/css/counters" {
								callees = append(callees, id.Name)
							}
						}
					}
					return true
				})
			}
			w, known := wantCallee[s]
			if !known {
				continue
			}
			r2b.Cond(has(callees, w) && len(callees) == 1, "system "+s+" → "+w, p.Pos(l.Pos()), "calls "+strings.Join(callees, ","), fmt.Sprintf("calls %v, Counter Styles 3 §3 requires the %s algorithm", callees, w))
		}
	}
	var negSet []string
	minRange := map[string]string{}
	ast.Inspect(p.Body(rv), func(n ast.Node) bool {
		switch x := n.(type) {
		case *ast.AssignStmt:
			if len(x.Lhs) == 1 && types.ExprString(x.Lhs[0]) == "useNegative" && x.Tok == token.ASSIGN {
				negSet = stringsIn(info, x.Rhs[0])
			}
		case *ast.IfStmt:
			// if <cond on system> { minRange = K }
			for _, st := range x.Body.List {
				if as, ok := st.(*ast.AssignStmt); ok && len(as.Lhs) == 1 && types.ExprString(as.Lhs[0]) == "minRange" {
					if v := core.ConstOf(info, as.Rhs[0]); v != nil && v.Kind() == constant.Int {
						for _, s := range stringsIn(info, x.Cond) {
							minRange[s] = v.ExactString()
						}
					}
				}
			}
		}
		return true
	})
	r2b.Cond(strings.Join(negSet, ",") == "additive,alphabetic,numeric,symbolic", "systems using a negative sign", p.Pos(rv.Pos()), strings.Join(negSet, ","), "set is {"+strings.Join(negSet, ",")+"}, Counter Styles 3 §2.1: symbolic, alphabetic, numeric, additive")
	r2b.Cond(minRange["alphabetic"] == "1" && minRange["symbolic"] == "1" && minRange["additive"] == "0" && len(minRange) == 3, "automatic range lower bounds", p.Pos(rv.Pos()), fmt.Sprint(minRange), fmt.Sprintf("lower bounds %v, Counter Styles 3 §2.2: alphabetic/symbolic 1, additive 0, others unbounded", minRange))

	// pad before negative sign (Counter Styles 3 §2 step 4 then 5)
	{
		var negConcat *ssa.BinOp
		core.Instrs(rv, func(in ssa.Instruction) {
			b, ok := in.(*ssa.BinOp)
			if !ok || b.Op != token.ADD {
				return
			}
			// (negativePrefix + initial) + negativeSuffix : the inner concatenation has the prefix as left operand
			if inner, ok := b.X.(*ssa.BinOp); ok && inner.Op == token.ADD {
				if bt, ok := b.Type().Underlying().(*types.Basic); ok && bt.Info()&types.IsString != 0 {
					if core.DerivesFrom(inner.X, func(v ssa.Value) bool { return callsSymbolOfNegative(v) }) {
						negConcat = inner
					}
				}
			}
		})
		if negConcat == nil {
			r2b.Fail("negative sign wraps the padded representation", p.Pos(rv.Pos()), "no negativePrefix + initial + negativeSuffix concatenation found")
		} else {
			padded := core.DerivesFrom(negConcat.Y, func(v ssa.Value) bool {
				call, ok := v.(*ssa.Call)
				return ok && call.Common().StaticCallee() != nil && call.Common().StaticCallee().Name() == "Repeat"
			})
			r2b.Cond(padded, "negative sign wraps the padded representation", p.Pos(negConcat.Pos()), "the text wrapped by the negative prefix/suffix includes the pad symbols (step 4 before step 5)", "the negative sign is added before padding: pad symbols end up outside the sign (-7 padded to 4 gives 00-7 instead of -007)")
		}
	}

	// ---- R5 counter-set / counter-increment instances are scoped
	r5 := c.Rule("R5", "when boxes.UpdateCounters creates a counter instance for counter-set / counter-increment (no instance in scope) it registers the name in the sibling scope, so that the instance is removed when the parent element ends", 1)
	if uc := p.Fn("html/boxes", "UpdateCounters"); uc != nil {
		setAdd := p.Method("utils", "Set", "Add")
		n := 0
		core.Instrs(uc, func(in ssa.Instruction) {
			call, ok := in.(*ssa.Call)
			if !ok {
				return
			}
			bi, ok := call.Call.Value.(*ssa.Builtin)
			if !ok || bi.Name() != "append" || len(call.Call.Args) != 2 {
				return
			}
			// append(values, 0): the appended slice literal holds the constant 0
			isZeroLit := false
			if sl, ok := call.Call.Args[1].(*ssa.Slice); ok {
				if al, ok := sl.X.(*ssa.Alloc); ok && al.Referrers() != nil {
					for _, rr := range *al.Referrers() {
						if ia, ok := rr.(*ssa.IndexAddr); ok && ia.Referrers() != nil {
							for _, r3 := range *ia.Referrers() {
								if st, ok := r3.(*ssa.Store); ok {
									if k, ok := core.ConstInt(st.Val); ok && k == 0 {
										isZeroLit = true
									}
								}
							}
						}
					}
				}
			}
			if !isZeroLit {
				return
			}
			n++
			// an Add call in the same block (the creation branch)
			hasAdd := false
			for _, i2 := range call.Block().Instrs {
				if c2, ok := i2.(*ssa.Call); ok && c2.Common().StaticCallee() == setAdd {
					hasAdd = true
				}
			}
			r5.Cond(hasAdd, "UpdateCounters | new instance registered in the sibling scope", p.Pos(call.Pos()), "siblingScopes.Add(name) in the branch that creates the instance", "the instance created here is never recorded in the sibling scope: it outlives its parent element")
		})
		r5.Cond(n >= 2, "UpdateCounters creates instances for counter-set and counter-increment", p.Pos(uc.Pos()), fmt.Sprint(n), fmt.Sprintf("%d creation sites found", n))
	} else {
		r5.Anchor("html/boxes.UpdateCounters")
	}

	// ---- R3 visited sets
	r3 := c.Rule("R3", "resolveCounter refuses a counter name already in previousTypes and records the name before returning it; its extends loop and renderValue's extends loop test and extend previousTypes on every iteration; renderValue's fallback recursion passes the same set on", 9)
	rc := p.Method("css/counters", "CounterStyle", "resolveCounter")
	if rc == nil {
		r3.Anchor("css/counters.CounterStyle.resolveCounter")
		return
	}
	setHas := p.Method("utils", "Set", "Has")
	setAdd := p.Method("utils", "Set", "Add")
	if setHas == nil || setAdd == nil {
		r3.Anchor("utils.Set.Has / Add")
		return
	}
	isSetCall := func(in ssa.Instruction, m *ssa.Function) bool {
		call, ok := in.(*ssa.Call)
		return ok && call.Common().StaticCallee() == m
	}
	// (a) entry guard: a Has(counterName) test whose true branch returns nil, and Add(counterName) before any non-nil return
	nameParam := rc.Params[1]
	hasGuard := false
	for _, a := range core.CondAtoms(rc) {
		if call, ok := a.(*ssa.Call); ok && call.Common().StaticCallee() == setHas && len(call.Call.Args) == 2 && call.Call.Args[1] == nameParam {
			hasGuard = true
		}
	}
	r3.Cond(hasGuard, "resolveCounter tests previousTypes.Has(counterName)", p.Pos(rc.Pos()), "test present", "a counter already being resolved is resolved again: fallback cycles recurse forever")
	okAdd, off := core.MustPassThrough(rc, func(in ssa.Instruction) bool {
		call, ok := in.(*ssa.Call)
		return ok && call.Common().StaticCallee() == setAdd && len(call.Call.Args) == 2 && call.Call.Args[1] == nameParam
	}, func(in ssa.Instruction) bool {
		ret, ok := in.(*ssa.Return)
		if !ok || len(ret.Results) != 1 {
			return false
		}
		k, isK := ret.Results[0].(*ssa.Const)
		return !(isK && k.Value == nil)
	})
	pos := p.Pos(rc.Pos())
	if off != nil {
		pos = p.Pos(off.Pos())
	}
	r3.Cond(okAdd, "resolveCounter records the name before returning a counter", pos, "every non-nil return is preceded by previousTypes.Add(counterName)", "a counter can be returned without being recorded as visited")
	// (b) loops
	for _, fn := range []*ssa.Function{rc, rv} {
		// blocks that are in a cycle and contain a lookup in the receiver map
		var loopHas, loopAdd, loopLookup bool
		for _, b := range fn.Blocks {
			inLoop := false
			if len(b.Instrs) > 0 {
				inLoop = core.Reaches(b.Instrs[0], func(i ssa.Instruction) bool { return i == b.Instrs[0] })
			}
			if !inLoop {
				continue
			}
			for _, in := range b.Instrs {
				if isSetCall(in, setHas) {
					loopHas = true
				}
				if isSetCall(in, setAdd) {
					loopAdd = true
				}
				if l, ok := in.(*ssa.Lookup); ok && l.X == fn.Params[0] {
					loopLookup = true
				}
			}
		}
		okG, whyG := core.LoopVisitedGuard(p, fn, func(l *ssa.Lookup) bool { return l.X == fn.Params[0] })
		r3.Cond(okG, core.FuncName(fn)+" extends loop records a new name on every iteration", p.Pos(fn.Pos()), whyG, whyG+": an `extends` cycle would not terminate")
		r3.Cond(loopLookup && loopHas && loopAdd, core.FuncName(fn)+" extends loop consults and extends the visited set", p.Pos(fn.Pos()),
			"the loop that follows `extends` looks the style up, tests previousTypes.Has and calls previousTypes.Add", fmt.Sprintf("lookup=%v Has=%v Add=%v inside the loop: an `extends` cycle would not terminate", loopLookup, loopHas, loopAdd))
	}
	// (c) fallback recursion passes the set
	nRec := 0
	core.Instrs(rv, func(in ssa.Instruction) {
		call, ok := in.(*ssa.Call)
		if !ok || call.Common().StaticCallee() != rv {
			return
		}
		nRec++
		set := call.Call.Args[3]
		_, isNil := set.(*ssa.Const)
		viaResolve := false
		if rcall, ok := call.Call.Args[2].(*ssa.Call); ok && rcall.Common().StaticCallee() == rc && len(rcall.Call.Args) == 3 {
			viaResolve = rcall.Call.Args[2] == set
		}
		r3.Cond(!isNil && viaResolve, "renderValue fallback recursion keeps the visited set", p.Pos(call.Pos()), "recursive call passes previousTypes to resolveCounter and to itself", "the recursive call starts from a fresh / different visited set: fallback cycles recurse forever")
	})
	r3.Cond(nRec >= 1, "renderValue has a fallback recursion", p.Pos(rv.Pos()), fmt.Sprint(nRec), "no recursive fallback call found")
}

// c19Merge: descriptors inherited through `extends` replace only the descriptors the extending style did not set.
func c19Merge(c *core.Check) {
	p := c.Prog
	r := c.Rule("R6", "extends: CounterStyleDescriptors.merge takes a descriptor from the extended style exactly when the extending style did not set it — each `desc.F = src.F` is guarded by a test of the whole field F (its IsNone() when the type has one, a comparison of the field with its zero value otherwise), never of a part of it (range: auto has no list of ranges and is still set)", 7)
	fn := p.Method("css/counters", "CounterStyleDescriptors", "merge")
	if fn == nil {
		r.Anchor("css/counters.(*CounterStyleDescriptors).merge")
		return
	}
	body := p.Body(fn)
	if body == nil {
		r.Anchor("body of merge")
		return
	}
	recvT := fn.Params[0].Type()
	var st *types.Struct
	if pt, ok := recvT.Underlying().(*types.Pointer); ok {
		st, _ = pt.Elem().Underlying().(*types.Struct)
	}
	hasIsNone := func(field string) bool {
		if st == nil {
			return false
		}
		for i := 0; i < st.NumFields(); i++ {
			if st.Field(i).Name() == field {
				ms := types.NewMethodSet(st.Field(i).Type())
				for j := 0; j < ms.Len(); j++ {
					if ms.At(j).Obj().Name() == "IsNone" {
						return true
					}
				}
			}
		}
		return false
	}
	fieldOf := func(e ast.Expr, recv string) string {
		sel, ok := e.(*ast.SelectorExpr)
		if !ok {
			return ""
		}
		id, ok := sel.X.(*ast.Ident)
		if !ok || id.Name != recv {
			return ""
		}
		return sel.Sel.Name
	}
	for _, stmt := range body.List {
		ifs, ok := stmt.(*ast.IfStmt)
		if !ok || len(ifs.Body.List) != 1 {
			continue
		}
		as, ok := ifs.Body.List[0].(*ast.AssignStmt)
		if !ok || len(as.Lhs) != 1 || len(as.Rhs) != 1 {
			continue
		}
		f := fieldOf(as.Lhs[0], "desc")
		if f == "" || fieldOf(as.Rhs[0], "src") != f {
			continue
		}
		key := "css/counters.merge | " + f
		whole, how := false, ""
		switch cnd := ifs.Cond.(type) {
		case *ast.CallExpr:
			if sel, ok := cnd.Fun.(*ast.SelectorExpr); ok && sel.Sel.Name == "IsNone" && fieldOf(sel.X, "desc") == f {
				whole, how = true, "desc."+f+".IsNone()"
			}
		case *ast.BinaryExpr:
			if cnd.Op == token.EQL && fieldOf(cnd.X, "desc") == f {
				if hasIsNone(f) {
					how = "the field's type has IsNone() and the test does not use it"
				} else {
					whole, how = true, "desc."+f+" == zero value"
				}
			}
		}
		if !whole && how == "" {
			how = "the guard `" + p.NodeText(ifs.Cond) + "` does not test the field as a whole"
		}
		r.Cond(whole, key, p.Pos(ifs.Pos()), how, how+": a descriptor that was set to a value with an empty part is overwritten by the extended style's")
	}
}

// c19Descriptors: order and bounds of the @counter-style descriptors, and the order in which the counter properties
// are applied.
func c19Descriptors(c *core.Check) {
	p := c.Prog
	r := c.Rule("R7", "counter plumbing: the two values of `negative` are read in source order (prefix, then suffix); `infinite` is negative infinity as the lower bound of a range and positive infinity as the upper bound; UpdateCounters applies counter-reset, then counter-increment, then counter-set (CSS Lists 3 §4); the `value` attribute hint belongs to the li element", 4)
	// negative: tokens read from the front
	if fn := p.Fn("css/validation", "negative"); fn == nil {
		r.Anchor("css/validation.negative")
	} else {
		bad, n := "", 0
		core.Instrs(fn, func(in ssa.Instruction) {
			ia, ok := in.(*ssa.IndexAddr)
			if !ok {
				return
			}
			if !core.DerivesFrom(ia.X, func(v ssa.Value) bool { return v == ssa.Value(fn.Params[0]) }) {
				return
			}
			n++
			if k, isK := core.ConstInt(ia.Index); isK && k == 0 {
				return
			}
			if phi, isPhi := ia.Index.(*ssa.Phi); isPhi && phi.Comment == "rangeindex" {
				return
			}
			if bo, isB := ia.Index.(*ssa.BinOp); isB && bo.Op == token.ADD { // rangeindex + 1
				return
			}
			bad = p.Pos(ia.Pos())
		})
		r.Cond(bad == "" && n > 0, "css/validation.negative | values read in source order", p.Pos(fn.Pos()), "tokens are taken from the front", "the tokens of `negative` are not taken front to back (at "+bad+"): `negative: '(' ')'` prints the suffix before the number")
	}
	// range: infinite
	if fn := p.Fn("css/validation", "range_"); fn == nil {
		r.Anchor("css/validation.range_")
	} else {
		neg, pos := false, false
		core.Instrs(fn, func(in ssa.Instruction) {
			st, ok := in.(*ssa.Store)
			if !ok {
				return
			}
			if k, isK := core.ConstInt(st.Val); isK {
				if k <= -(1 << 30) {
					neg = true
				}
				if k >= 1<<30 {
					pos = true
				}
			}
		})
		// phi of the two bounds stored once
		core.Instrs(fn, func(in ssa.Instruction) {
			if phi, ok := in.(*ssa.Phi); ok {
				for _, e := range phi.Edges {
					if k, isK := core.ConstInt(e); isK {
						if k <= -(1 << 30) {
							neg = true
						}
						if k >= 1<<30 {
							pos = true
						}
					}
				}
			}
		})
		// … and they are the extreme integers of the platform: nothing lies beyond an infinite bound
		var minInt, maxInt int64 = -1 << 63, 1<<63 - 1
		if pk := p.ByPath["css/validation"]; pk != nil && pk.TypesSizes != nil && pk.TypesSizes.Sizeof(types.Typ[types.Int]) == 4 {
			minInt, maxInt = -1<<31, 1<<31-1
		}
		extreme := true
		check := func(v ssa.Value) {
			if k, isK := core.ConstInt(v); isK && (k <= -(1<<30) || k >= 1<<30) && k != minInt && k != maxInt {
				extreme = false
			}
		}
		core.Instrs(fn, func(in ssa.Instruction) {
			switch x := in.(type) {
			case *ssa.Store:
				check(x.Val)
			case *ssa.Phi:
				for _, e := range x.Edges {
					check(e)
				}
			}
		})
		r.Cond(extreme, "css/validation.range_ | infinite is unbounded", p.Pos(fn.Pos()), "the two infinities are the extreme values of int", "`infinite` is stored as a 32-bit bound: a counter beyond it (3000000000 with `range: infinite infinite`) is out of an unbounded range and falls back to decimal")
		r.Cond(neg && pos, "css/validation.range_ | infinite", p.Pos(fn.Pos()), "both a negative and a positive infinity are stored", fmt.Sprintf("`infinite` stands for negative infinity: %v, positive infinity: %v — a range open below (`infinite 5`) cannot be written", neg, pos))
	}
	// order of application
	if fn := p.Fn("html/boxes", "UpdateCounters"); fn == nil {
		r.Anchor("html/boxes.UpdateCounters")
	} else {
		calls := map[string]ssa.Instruction{}
		core.Instrs(fn, func(in ssa.Instruction) {
			if call, ok := in.(*ssa.Call); ok && call.Call.IsInvoke() {
				switch nm := call.Call.Method.Name(); nm {
				case "GetCounterReset", "GetCounterIncrement", "GetCounterSet":
					calls[nm] = in
				}
			}
		})
		if len(calls) != 3 {
			r.Anchor("UpdateCounters: reads of counter-reset, counter-increment, counter-set")
		} else {
			// the value each loop consumes is read just before it: the order of the reads is the order of application
			// unless a loop over a value is separated from its read, which the rule does not follow
			r.Cond(instrDominates(calls["GetCounterReset"], calls["GetCounterIncrement"]) && loopsBetween(fn, calls["GetCounterReset"], calls["GetCounterIncrement"]), "html/boxes.UpdateCounters | reset before increment", p.Pos(calls["GetCounterIncrement"].Pos()), "counter-reset is read and applied first", "counter-increment is applied before counter-reset")
			r.Cond(instrDominates(calls["GetCounterIncrement"], calls["GetCounterSet"]), "html/boxes.UpdateCounters | increment before set", p.Pos(calls["GetCounterSet"].Pos()), "counter-set is read after the increments", "counter-set is applied before counter-increment: an element with both gets the increment on top of the value set (CSS Lists 3 §4: reset, increment, set)")
		}
	}
	// li value
	if fn := p.Fn("html/tree", "findStyleAttributes"); fn == nil {
		r.Anchor("html/tree.findStyleAttributes")
	} else {
		var site *ssa.BasicBlock
		core.InstrsDeep(fn, func(f *ssa.Function, in ssa.Instruction) {
			call, ok := in.(*ssa.Call)
			if !ok || len(call.Call.Args) == 0 {
				return
			}
			name := ""
			if cal := call.Call.StaticCallee(); cal != nil {
				name = cal.Name()
			}
			if name != "Get" {
				return
			}
			if s, ok := core.ConstStr(call.Call.Args[len(call.Call.Args)-1]); ok && s == "value" && f == fn {
				site = call.Block()
			}
		})
		liVal, ok := atomValue(p, "Li")
		if site == nil || !ok {
			r.Anchor("findStyleAttributes: element.Get(\"value\") / atom.Li")
		} else {
			// the switch over DataAtom: which constants lead to the site
			var reaching []int64
			for _, a := range core.CondAtoms(fn) {
				b, isB := a.(*ssa.BinOp)
				if !isB || b.Op != token.EQL {
					continue
				}
				k, isK := core.ConstInt(b.Y)
				if !isK || !core.IsFieldNamed(core.Unwrap(b.X), "DataAtom") {
					continue
				}
				if b.Block().Succs[0] == site || (len(b.Block().Succs) > 0 && b.Block().Succs[0].Dominates(site)) {
					reaching = append(reaching, k)
				}
			}
			okLi := len(reaching) > 0
			for _, k := range reaching {
				if k != liVal {
					okLi = false
				}
			}
			r.Cond(okLi, "html/tree.findStyleAttributes | value attribute", p.Pos(site.Instrs[0].Pos()), "read under the li element only", fmt.Sprintf("the value attribute is read for the element atoms %v, not for li (%d): <li value=5> does not set the list-item counter", reaching, liVal))
		}
	}
}

// loopsBetween is a placeholder for "the loop consuming the first read ends before the second read": true when the
// second read is not inside a loop that starts before it (the reads sit at the top level of the function).
func loopsBetween(fn *ssa.Function, a, b ssa.Instruction) bool {
	for _, l := range core.Loops(fn) {
		if l.Blocks[a.Block()] && l.Blocks[b.Block()] {
			return false
		}
	}
	return true
}

// atomValue reads a constant of golang.org/x/net/html/atom.
func atomValue(p *core.Prog, name string) (int64, bool) {
	if pk := p.AllPkgs["golang.org/x/net/html/atom"]; pk != nil {
		if cst, ok := pk.Types.Scope().Lookup(name).(*types.Const); ok {
			if v, ok := constant.Int64Val(cst.Val()); ok {
				return v, true
			}
			if v, ok := constant.Uint64Val(cst.Val()); ok {
				return int64(v), true
			}
		}
	}
	return 0, false
}

// c19Ranges: the range descriptor is a set of ranges, tested one by one.
func c19Ranges(c *core.Check) {
	p := c.Prog
	r := c.Rule("R8", "a counter style applies to a value when the value lies in one of its ranges, whatever their order: the loop of renderValue over the ranges is left early only by the break that records a match (an exit on `value < lower bound` assumes sorted ranges, which `range: 7 9, 1 3` is not)", 1)
	fn := p.Method("css/counters", "CounterStyle", "renderValue")
	if fn == nil {
		r.Anchor("css/counters.CounterStyle.renderValue")
		return
	}
	n := 0
	for _, l := range core.Loops(fn) {
		// the loop over the ranges: its body indexes elements of type [2]int
		isRanges := false
		for b := range l.Blocks {
			for _, in := range b.Instrs {
				if ia, ok := in.(*ssa.IndexAddr); ok {
					if pt, ok := ia.X.Type().Underlying().(*types.Pointer); ok {
						if at, ok := pt.Elem().Underlying().(*types.Array); ok && at.Len() == 2 {
							isRanges = true
						}
					}
				}
				if ix, ok := in.(*ssa.Index); ok {
					if at, ok := ix.X.Type().Underlying().(*types.Array); ok && at.Len() == 2 {
						isRanges = true
					}
				}
			}
		}
		if !isRanges {
			continue
		}
		n++
		var bad []string
		for b := range l.Blocks {
			if b == l.Header {
				continue
			}
			for _, s := range b.Succs {
				if l.Blocks[s] {
					continue
				}
				// an early exit: the merge after the loop must receive `true` for the match flag on this edge
				matched := false
				from := b
				for len(s.Instrs) == 1 && len(s.Succs) == 1 { // the `found = true; break` block is a bare jump to the merge
					from, s = s, s.Succs[0]
				}
				for _, in := range s.Instrs {
					phi, ok := in.(*ssa.Phi)
					if !ok {
						break
					}
					for i, pred := range s.Preds {
						if pred == from {
							if k, isK := phi.Edges[i].(*ssa.Const); isK && k.Value != nil && k.Value.String() == "true" {
								matched = true
							}
						}
					}
				}
				if !matched {
					pos := "-"
					for _, in := range b.Instrs {
						if in.Pos().IsValid() {
							pos = p.Pos(in.Pos())
						}
					}
					bad = append(bad, pos)
				}
			}
		}
		sort.Strings(bad)
		r.Cond(len(bad) == 0, "css/counters.renderValue | loop over the ranges", p.Pos(l.Header.Instrs[0].Pos()), "left early only on a match", "the loop over the ranges is also left without a match at "+strings.Join(bad, ", ")+": the ranges after that point are never tested")
	}
	if n == 0 {
		r.Anchor("renderValue: loop over the [2]int ranges")
	}
}

// c19Copy: a snapshot of the counter values must not share memory with the running values.
func c19Copy(c *core.Check) {
	p := c.Prog
	r := c.Rule("R9", "snapshots of counter values are independent: CounterValues.Copy stores a freshly allocated copy of every stack — counter-increment and counter-set change the top of a stack in place, so a shared backing array would let later increments show through target-counter() and cached values", 1)
	fn := p.Method("html/tree", "CounterValues", "Copy")
	if fn == nil {
		r.Anchor("html/tree.CounterValues.Copy")
		return
	}
	n := 0
	core.Instrs(fn, func(in ssa.Instruction) {
		mu, ok := in.(*ssa.MapUpdate)
		if !ok {
			return
		}
		n++
		why := freshCopy(mu.Value, 0)
		r.Cond(why == "", "html/tree.CounterValues.Copy | stored stack", p.Pos(mu.Pos()), "a fresh slice (append to an empty slice, or make and copy)", "the copy stores "+why+": it shares its backing array with the original")
	})
	if n == 0 {
		r.Anchor("CounterValues.Copy: store into the result map")
	}
}

// freshCopy: "" when the slice value is newly allocated in the function (append onto an empty / nil / made slice).
func freshCopy(v ssa.Value, depth int) string {
	if depth > 5 {
		return "a value of unknown origin"
	}
	switch x := v.(type) {
	case *ssa.MakeSlice:
		return ""
	case *ssa.Call:
		if b, ok := x.Call.Value.(*ssa.Builtin); ok && b.Name() == "append" {
			// append(base, …): fresh when base is nil, an empty literal or itself fresh
			switch base := x.Call.Args[0].(type) {
			case *ssa.Const:
				return ""
			case *ssa.Slice:
				if al, ok := base.X.(*ssa.Alloc); ok {
					if at, ok := al.Type().(*types.Pointer).Elem().Underlying().(*types.Array); ok && at.Len() == 0 {
						return ""
					}
				}
				return freshCopy(base, depth+1)
			default:
				return freshCopy(base, depth+1)
			}
		}
		return "the result of a call"
	case *ssa.Slice:
		if _, isAlloc := x.X.(*ssa.Alloc); isAlloc {
			return ""
		}
		return "a re-slice of " + exprName(x.X)
	case *ssa.Phi:
		for _, e := range x.Edges {
			if why := freshCopy(e, depth+1); why != "" {
				return why
			}
		}
		return ""
	}
	return "the value " + exprName(v) + " itself"
}

// c19RangeAuto: `range: auto` is an explicit value.  The validator stores it with the Auto flag set, which is what
// keeps an extending style's own `range: auto` from being replaced by the range of the style it extends (merge only
// fills descriptors that are absent).
func c19RangeAuto(c *core.Check) {
	p := c.Prog
	r := c.Rule("R12", "`range: auto` is recorded as specified: in the validator of the range descriptor the branch taken for the keyword auto stores a value whose Auto flag is true (an absent descriptor and an explicit auto must differ: merge fills only absent descriptors from the extended style)", 1)
	fn := p.Fn("css/validation", "rangeD")
	if fn == nil {
		r.Anchor("css/validation.rangeD")
		return
	}
	var atoms []ssa.Value
	for _, a := range core.CondAtoms(fn) {
		if bo, ok := a.(*ssa.BinOp); ok && bo.Op == token.EQL {
			if s, isS := core.ConstStr(bo.Y); isS && s == "auto" {
				atoms = append(atoms, a)
			}
		}
	}
	if len(atoms) == 0 {
		r.Anchor("rangeD: keyword == \"auto\"")
		return
	}
	// the block(s) reached only when the keyword is auto and that return
	setsAuto := false
	var at token.Pos
	core.Instrs(fn, func(in ssa.Instruction) {
		st, ok := in.(*ssa.Store)
		if !ok {
			return
		}
		fa, ok := st.Addr.(*ssa.FieldAddr)
		if !ok || core.FieldName(fa) != "Auto" {
			return
		}
		if k, isK := st.Val.(*ssa.Const); isK && k.Value != nil && k.Value.String() == "true" {
			if g, _ := core.GuardedBy(fn, st.Block(), atoms, func(m map[ssa.Value]bool) bool {
				for _, v := range m {
					if v {
						return true
					}
				}
				return false
			}); g {
				setsAuto = true
				at = st.Pos()
			}
		}
	})
	pos := p.Pos(fn.Pos())
	if at != token.NoPos {
		pos = p.Pos(at)
	}
	r.Cond(setsAuto, "css/validation.rangeD | auto sets the Auto flag", pos, "Auto = true stored on the auto branch", "the auto branch stores no Auto flag: an explicit `range: auto` looks absent and an extending style takes the range of the style it extends (`big-roman` extending lower-roman with range: auto renders 4000 as 4000 instead of mmmm)")
}

// c19PadCharacters: the pad length counts characters.  In renderValue the quantity compared with the pad length is
// built from the representation and from the sign's prefix and suffix: each of them is measured in characters
// (utf8.RuneCountInString), never with len, which counts bytes ("٠٥" is two characters and four bytes).
func c19PadCharacters(c *core.Check) {
	p := c.Prog
	r := c.Rule("R13", "the pad length counts characters: in renderValue no byte length of a string (builtin len) enters the number of pad symbols added; the representation, the negative prefix and the suffix are measured with utf8.RuneCountInString", 1)
	fn := p.Method("css/counters", "CounterStyle", "renderValue")
	if fn == nil {
		r.Anchor("css/counters.CounterStyle.renderValue")
		return
	}
	// the count handed to strings.Repeat
	var count ssa.Value
	core.Instrs(fn, func(in ssa.Instruction) {
		if call, ok := in.(*ssa.Call); ok && call.Call.StaticCallee() != nil && call.Call.StaticCallee().String() == "strings.Repeat" {
			count = call.Call.Args[1]
		}
	})
	if count == nil {
		r.Anchor("renderValue: strings.Repeat(pad symbol, n)")
		return
	}
	n := 0
	seen := map[ssa.Value]bool{}
	var walk func(v ssa.Value)
	walk = func(v ssa.Value) {
		if seen[v] {
			return
		}
		seen[v] = true
		switch x := v.(type) {
		case *ssa.Phi:
			for _, e := range x.Edges {
				walk(e)
			}
		case *ssa.BinOp:
			walk(x.X)
			walk(x.Y)
		case *ssa.Call:
			if b, ok := x.Call.Value.(*ssa.Builtin); ok && b.Name() == "len" {
				if bt, isB := x.Call.Args[0].Type().Underlying().(*types.Basic); isB && bt.Info()&types.IsString != 0 {
					n++
					r.Fail("css/counters.renderValue | "+p.StmtTextAt(fn, x.Pos())+" | byte length", p.Pos(x.Pos()), "the byte length of a string enters the number of pad symbols: a representation in a non-ASCII script is padded too little (`pad: 3 '٠'` renders 5 as ٠٥ instead of ٠٠٥)")
				}
				return
			}
			if cal := x.Call.StaticCallee(); cal != nil && cal.String() == "unicode/utf8.RuneCountInString" {
				n++
				r.OK("css/counters.renderValue | "+p.StmtTextAt(fn, x.Pos())+" | characters", p.Pos(x.Pos()), "measured in characters")
			}
		}
	}
	walk(count)
	if n == 0 {
		r.Anchor("renderValue: the lengths subtracted from the pad length")
	}
}
