package props

import (
	"fmt"
	"go/token"
	"go/types"
	"strings"

	"golang.org/x/tools/go/ssa"

	"wrverif/core"
)

// deadArithmeticRule: every arithmetic result is used.  go/ssa keeps dead values, so a sum, difference, product or
// quotient without any referrer is a computation the source spells out and then drops: an update of a by-value
// parameter that the caller was meant to see (positionX += dx), or a quantity computed for a call that never
// receives it (the angle of a marker).  In the packages given the rule is exact on the pinned tree: the only
// unused results were those two defects.
func deadArithmeticRule(c *core.Check, r *core.Rule, notes map[string]string, pkgs ...string) {
	p := c.Prog
	in := map[string]bool{}
	for _, k := range pkgs {
		in[k] = true
	}
	n := 0
	for _, fn := range p.ModFuncs {
		if fn.Pkg == nil || fn.Blocks == nil || !in[core.Rel(fn.Pkg.Pkg.Path())] {
			continue
		}
		perFn := map[string]int{}
		nFn, deadFn := 0, 0
		core.Instrs(fn, func(ins ssa.Instruction) {
			bo, ok := ins.(*ssa.BinOp)
			if !ok {
				return
			}
			switch bo.Op {
			case token.ADD, token.SUB, token.MUL, token.QUO:
			default:
				return
			}
			n++
			nFn++
			if bo.Referrers() == nil || len(*bo.Referrers()) != 0 {
				return
			}
			deadFn++
			what := describeOperand(bo.X) + " " + bo.Op.String() + " " + describeOperand(bo.Y)
			perFn[what]++
			key := fmt.Sprintf("%s | %s #%d", core.FuncName(fn), what, perFn[what])
			if why, ok := notes[key]; ok {
				r.Skip(key, p.Pos(bo.Pos()), why)
				return
			}
			r.Fail(key, p.Pos(bo.Pos()), "the result of this operation is never used: the update is lost when the function returns (a by-value parameter), or the quantity it computes never reaches the call it was computed for")
		})
		if nFn > 0 && deadFn == 0 {
			r.OK(core.FuncName(fn), p.Pos(fn.Pos()), fmt.Sprintf("%d arithmetic results, all used", nFn))
		}
	}
	r.OK("scan", "-", fmt.Sprintf("%d arithmetic results in %s", n, strings.Join(pkgs, ", ")))
}

func describeOperand(v ssa.Value) string {
	switch x := v.(type) {
	case *ssa.Parameter:
		return x.Name()
	case *ssa.Const:
		return x.Value.String()
	case *ssa.Phi:
		if x.Comment != "" {
			return x.Comment
		}
	case *ssa.UnOp:
		if fa, ok := x.X.(*ssa.FieldAddr); ok {
			return "." + core.FieldName(fa)
		}
	case *ssa.Field:
		if st, ok := x.X.Type().Underlying().(*types.Struct); ok {
			return "." + st.Field(x.Field).Name()
		}
	}
	return "_"
}
