package props

import (
	"fmt"
	"go/ast"
	"go/token"
	"go/types"
	"sort"
	"strings"

	"golang.org/x/tools/go/ssa"

	"wrverif/core"
)

func init() { register("C07", c07) }

// c07Roots: the parse entry points of the property (observe_at), by name, plus the readers of document text by file.
var c07Roots = []string{
	"css/parser.Tokenize", "css/parser.ParseStylesheetBytes", "css/parser.ParseStylesheet", "css/parser.ParseBlocksContents", "css/parser.ParseBlocksContentsString",
	"css/parser.ParseDeclarationList", "css/parser.ParseDeclarationListString", "css/parser.ParseOneDeclaration", "css/parser.ParseRuleList", "css/parser.ParseOneRule",
	"css/parser.ParseOneComponentValue", "css/parser.ParseNth", "css/parser.ParseColor", "css/parser.ParseColorString", "css/parser.Serialize",
	"css/selector.ParseGroup", "css/selector.Parse",
	"css/validation.PreprocessDeclarations", "css/validation.PreprocessDeclarationsPrelude", "css/validation.PreprocessFontFaceDescriptors",
	"css/validation.PreprocessCounterStyleDescriptors", "css/validation.ParseCounterStyleName", "css/validation.Validate", "css/validation.ValidateKnown", "css/validation.ExpandValidatePending",
	"html/tree.NewCSSDefault", "html/tree.parsePageSelectors", "html/tree.parseMediaQuery", "html/tree.preprocessStylesheet", "html/tree.findStyleAttributes", "html/tree.resolveVar",
	"svg.Parse", "utils.DefaultUrlFetcher", "utils.parseDataURL", "utils.UrlJoin", "utils.SafeUrljoin",
}

var c07RootFiles = []string{"utils/html.go", "svg/parser.go", "svg/elements_path.go", "svg/css.go", "utils/urls.go"}

// generated accessor files: their unchecked assertions are discharged by the slot-typing rule C04.R2
var c07GeneratedFiles = []string{"html/tree/accessors.go", "css/properties/props_gen.go"}

func c07Scope(p *core.Prog) (scope []*ssa.Function, roots []*ssa.Function) {
	for _, n := range c07Roots {
		if f := p.Lookup(n); f != nil {
			roots = append(roots, f)
		}
	}
	for _, fn := range p.ModFuncs {
		if fn.Parent() != nil {
			continue
		}
		pos := p.Pos(fn.Pos())
		for _, f := range c07RootFiles {
			if strings.HasPrefix(pos, f+":") {
				roots = append(roots, fn)
			}
		}
	}
	reach := p.StaticReach(roots)
	inPkg := map[string]bool{"css/parser": true, "css/selector": true, "css/validation": true, "css/counters": true, "svg": true, "utils": true, "html/tree": true, "css/properties": true}
	for _, fn := range p.ModFuncs {
		if !reach[fn] || !inPkg[core.Rel(fn.Pkg.Pkg.Path())] {
			continue
		}
		gen := false
		for _, g := range c07GeneratedFiles {
			if strings.HasPrefix(p.Pos(fn.Pos()), g+":") {
				gen = true
			}
		}
		if !gen {
			scope = append(scope, fn)
		}
	}
	return
}

// reasoned bounds table: function -> (number of open sites confirmed by reading, the invariant that makes them safe).
// A function whose number of open sites differs from the table is reported with all its open sites.
var c07BoundsReasons = map[string]struct {
	n      int
	reason string
}{
	"css/properties.KnownProp.String":        {1, "propsNames has NbProperties entries and is indexed by a KnownProp: every KnownProp in the module is one of the declared property constants (C04.R1 decides that the constants 1..NbProperties-1 are exactly the keys of the tables); the sentinel NbProperties itself is never used as a value"},
	"css/validation.ValidateKnown":           {1, "validators has NbProperties entries and name is a declared property constant (see KnownProp.String)"},
	"html/tree.(*ComputedStyle).Get":         {1, "computerFunctions has NbProperties entries and key.KnownProp is a declared property constant or 0 (see KnownProp.String)"},
	"css/validation._expandGridArea":         {1, "expandGridColumnRowArea(tokens, 4) returns between 1 and 4 lists (it rejects more than maxNumber lines and pads up to maxNumber): a length relation with the callee's argument"},
	"css/validation._expandGridColumnRow":    {1, "expandGridColumnRowArea(tokens, 2) returns between 1 and 2 lists: a length relation with the callee's argument"},
	"svg.Value.Resolve":                      {1, "the default branch indexes toPx (8 entries, Px..Pc) with the units left after the cases for 0, Px, Perc, Em, Rem and Ex: Cm..Pc, all below 8; the internal units auto/autoStartReverse are only produced by parseOrientation for marker orient, which is never resolved"},
	"css/parser.AtKeyword.serializeTo":       {1, "an at-keyword token always has a non-empty name: the tokenizer only builds it after isIdentStart"},
	"css/parser.Dimension.serializeTo":       {1, "a dimension token always has a non-empty unit: the tokenizer only builds it when an identifier follows the number"},
	"css/parser.FunctionBlock.serializeTo":   {2, "a function name is a non-empty identifier; the loop reads fn.Arguments[len-1] after breaking on len(fn.Arguments) == 0 (the two loads of the field are not connected by the value numbering)"},
	"css/parser.Hash.serializeTo":            {1, "a hash token with the identifier flag has a non-empty name"},
	"css/parser.Ident.serializeTo":           {1, "an ident token is never empty: the tokenizer only builds it after isIdentStart and module code only builds idents from non-empty constants"},
	"css/parser.ParseNth":                    {2, "ident is the value of an ident token, never empty (see Ident.serializeTo)"},
	"css/parser.parseB":                      {1, "Number.Value is the matched numeric text, at least one character (numberRe has no empty match)"},
	"css/parser.parseSignlessB":              {1, "Number.Value is the matched numeric text, at least one character"},
	"css/validation.PreprocessDeclarations":  {1, "PreprocessDeclarationsPrelude called with a nil prelude cannot fail (the only error returns are under prelude != nil) and its success return appends one element"},
	"css/validation._borderRadius":           {9, "reads through the pointer `values` are each inside the branch that tested len(*values) == 1, 2 or 3 on the same pointer; pointer-to-slice loads are not value-numbered"},
	"css/validation._expandFlexFlow":         {4, "sortedTokens ranges over {tokens, reverse(tokens)} under len(tokens) == 2; reverse returns a slice of the same length"},
	"css/validation.checkCounterFunction":    {2, "the second argument is read only when name == counters, which the enclosing test admits with 2 or 3 arguments only: one is left after the first reslice (decided per name and count by rule C07.R12)"},
	"css/validation.expandBackground$1":      {9, "InitialValues.GetBackground*() are one-element literals (checked by rule C07.R1b); the second pop follows _box(nextToken) != \"\", which needs nextToken (the last element of tokens) to hold one token"},
	"css/validation.expandGridColumnRowArea": {4, "validations is appended once per element of gridLines, whose length is tested to be >= 1 before; validations[1] is read under lines > 1 or after the append that duplicates entry 0"},
	"css/validation.getTarget":               {2, "the separator argument is read only for target-counters, admitted with 3 or 4 arguments: two are left after the first reslice (decided per name and count by rule C07.R12)"},
	"css/validation.gridTemplateAreas":       {1, "tokens is non-empty (validator precondition, C07.R5) and every iteration either returns nil or appends a row, so gridAreas has at least one row here"},
	"html/tree.resolveVar":                   {1, "reached only after validation.HasVar(token) returned true, which for a var() block requires a first argument (rule C07.R3 checks that dependency)"},
	"svg.(*pathParser).addArcFromA":          {1, "called from addSeg under hasSetsOrMore(7, …) with 7-element chunks of c.points"},
	"svg.(*pathParser).addSeg":               {17, "every read of c.points[…] is in a case of the command switch that first returned unless hasSetsOrMore(n, …) holds with n at least the largest offset read (arity table checked by rule C18.R1); the field is re-read so the facts do not connect"},
	"svg.(*pathParser).parsePath":            {2, "segments are data[lastIndex:i] with lastIndex < i (lastIndex is the index of an earlier iteration) and data[lastIndex:] with lastIndex a valid index: never empty"},
	"svg.(*pathParser).pointsToAbs":          {2, "called with sz >= 1 (constants 1, 2, 4, 6 at the call sites), so (j+sz)-1 and (j+sz)-2 with sz >= 2 are >= 0; upper bounds are the variable-index class, not decided"},
	"svg.consumeNumber":                      {2, "pos was incremented past the first byte before the loop, so pos-1 >= 0"},
	"utils.(*HTMLIterator).popNode":          {2, "only called from Next after HasNext reported a non-empty stack (iterator protocol)"},
	"utils.DefaultUrlFetcher":                {1, "the URL starts with data: (tested case-insensitively just before); removing white space cannot shorten that 5-byte prefix, which contains none"},
}

// reasoned panics in scope: function -> why the panic cannot be reached from document text
var c07PanicReasons = map[string]string{
	"css/parser.Kind.String":                         "default of a switch over the Kind constants; every constant has a case (checked: rule C07.R5)",
	"css/parser.(*tokenizer).consumeEscape":          "ParseInt of the digits captured by hexEscapeRe, 1 to 6 hexadecimal digits: cannot fail",
	"css/parser.mustParseHexa":                       "only called on the capture groups of the hash colour regexps, 1 or 2 hexadecimal digits: ParseInt cannot fail",
	"css/parser.ParseError.serializeTo":              "default of the switch over error kinds; every kind a tokenizer site builds has a case (rule C20.R3)",
	"css/selector.relativePseudoClassSelector.Match": "default of the dispatch on the pseudo-class name; the parser only builds the names that have a case (rule C05.R1)",
	"css/selector.attrSelector.Match":                "default of the dispatch on the operator; the parser only builds operators that have a case (rule C05.R1)",
	"css/selector.combinedSelector.Match":            "default of the dispatch on the combinator; the parser only stores combinators that have a case (rule C05.R1)",
	"css/selector.makeASCIISet":                      "called once, at package initialisation, on an ASCII constant",
	"svg.newGradient":                                "only called for nodes whose tag was tested to be linearGradient or radialGradient by the caller's switch",
	"svg.pathItem.endPoint":                          "default of a switch over the path operation enum; every operation the path parser emits has a case (rule C18.R1)",
	"svg.pathItem.endAngle":                          "default of a switch over the path operation enum (see endPoint)",
	"utils.toInt":                                    "only called on capture groups of w3CDateRe, which are bounded runs of ASCII digits with an optional sign: Atoi cannot fail",
	"css/properties.ContentProperty.AsStrings":       "content item built by the validator with the matching Go type for its Type tag",
}

// reasoned unchecked assertions in scope
var c07AssertReasons = map[string]struct {
	n      int
	reason string
}{
	"css/validation.genericExpander$1$1":      {1, "results only holds pr.RawTokens on the !skipValidation path (the branch that stores default values sets skipValidation)"},
	"css/validation._expandBorderImage":       {3, "each tokens[0].(pa.Literal) is the right operand of && after tokens[0].Kind() == pa.KLitteral"},
	"html/tree.newComputedStyle":              {1, "custom properties (k.Var != \"\") are always stored as pr.RawTokens by validateNonShorthand"},
	"html/tree.(*ComputedStyle).cascadeValue": {1, "declared values other than the Inherit/Initial markers and pending RawTokens, both resolved above, are CssProperty values"},
	"html/tree.(*ComputedStyle).Get":          {2, "cascadeValue returns a CssProperty (it asserts it itself before returning)"},
	"html/tree.textDecoration":                {2, "called for text-decoration-line only with values of that property, whose slot type is Decorations (rule C04.R2)"},
	"html/tree.resolveVar":                    {2, "reached only after validation.HasVar(token) returned true: the token is a FunctionBlock whose first argument is an Ident"},
}

func c07(c *core.Check) {
	p := c.Prog
	c.Explain = "Structural necessary conditions of crash-freedom for every function statically reachable from the parse entry points (CSS tokenizer and parsers, selector parser, validators, expanders and descriptor parsers through their dispatch tables, page/media parsers, SVG attribute/path/transform parsers, URL and HTML attribute readers): (R1) every fixed-position read of a variable-length value (constant index, constant slice bound, len-c, v-c) is length-guarded — by construction, by path-condition reachability under the scenarios len == n, or by a parameter precondition established at every call site, with a per-function table of the reads whose safety is an invariant this domain cannot express; (R2) no explicit panic outside a reasoned table; (R3) no unchecked type assertion outside a reasoned table, and the HasVar dependency resolveVar relies on; (R4) no integer division or modulo by a possibly zero divisor; (R5) the dispatch tables are total and validators/expanders are only entered with a non-empty token list. Variable indices in general, nil dereferences, stack depth and termination are not decided. Also decided: (R6) the guard contract of hasSetsOrMore, on which the indexed reads of the SVG path interpreter rest. Also decided: (R9) a position compared with the length of a buffer before one read is compared before every read at that position in the same function; (R10) the recursive descent of the tokenizer is bounded by a depth counter."
	c.Assume = []string{"functions reached only through interface calls are resolved by class hierarchy analysis", "standard-library postconditions used: strings.Split* return at least one element; regexp Find*Submatch return nil or 1+NumSubexp elements"}

	scope, roots := c07Scope(p)
	c.Extra["parse_entry_points"] = len(roots)
	c.Extra["functions_in_scope"] = len(scope)
	inScope := map[*ssa.Function]bool{}
	for _, f := range scope {
		inScope[f] = true
	}

	// ---- R1 bounds
	r1 := c.Rule("R1", "every fixed-position read of a variable-length value in scope (index c, slice bound c, len-c, v-c) cannot be out of range: length by construction, unreachable for every shorter length, or a parameter precondition established at each call site; reads whose safety is a relational invariant are tabled per function with their count and reason", 496)
	eng := core.NewBoundsEngine(p)
	results, unc, calls := eng.Analyse(scope, func(fn *ssa.Function) bool { return false })
	all := append(results, calls...)
	// v - c indices
	abs := absLike(p)
	type open struct {
		key, pos, why string
	}
	openBy := map[string][]open{}
	perPkg := map[string][2]int{}
	for _, res := range all {
		rel := core.Rel(res.Site.Fn.Pkg.Pkg.Path())
		v := perPkg[rel]
		key := fmt.Sprintf("%s | %s | %s", core.FuncName(res.Site.Fn), p.StmtTextAt(res.Site.Fn, res.Site.Instr.Pos()), res.Site.Kind)
		if res.OK {
			v[0]++
			r1.OK(key, p.Pos(res.Site.Instr.Pos()), res.Why)
		} else {
			v[1]++
			fn := core.FuncName(res.Site.Fn)
			openBy[fn] = append(openBy[fn], open{key, p.Pos(res.Site.Instr.Pos()), res.Why})
		}
		perPkg[rel] = v
	}
	for _, fn := range scope {
		for _, vs := range core.VarMinusSites(fn) {
			key := fmt.Sprintf("%s | %s | index %s", core.FuncName(fn), p.StmtTextAt(fn, vs.Instr.Pos()), p.BinaryExprAt(fn, vs.Expr.Pos()))
			ok, why := core.NonNegativeAt(fn, vs.Instr, vs.Expr, abs)
			if ok {
				r1.OK(key, p.Pos(vs.Instr.Pos()), "index cannot be negative: "+why)
			} else {
				openBy[core.FuncName(fn)] = append(openBy[core.FuncName(fn)], open{key, p.Pos(vs.Instr.Pos()), "the index / bound v-c can be negative: " + why})
			}
		}
	}
	// variable index into a fixed-size array
	enumMax := func(t *types.Named) (int64, bool) {
		if t.Obj().Pkg() == nil {
			return 0, false
		}
		cs := p.ConstsOfType(core.Rel(t.Obj().Pkg().Path()), t.Obj().Name())
		if len(cs) < 2 {
			return 0, false
		}
		max := int64(-1)
		for v := range cs {
			if v > max {
				max = v
			}
		}
		return max, true
	}
	for _, fn := range scope {
		for _, as := range core.ArrayIndexSites(fn) {
			key := fmt.Sprintf("%s | %s | array[%d] index", core.FuncName(fn), p.StmtTextAt(fn, as.Instr.Pos()), as.Len)
			ok, why := core.ProveArrayIndex(as, abs, enumMax)
			if ok {
				r1.OK(key, p.Pos(as.Instr.Pos()), why)
			} else {
				openBy[core.FuncName(fn)] = append(openBy[core.FuncName(fn)], open{key, p.Pos(as.Instr.Pos()), "variable index into a fixed-size array: " + why})
			}
		}
	}
	var fns []string
	for fn := range openBy {
		fns = append(fns, fn)
	}
	sort.Strings(fns)
	for _, fn := range fns {
		t, tabled := c07BoundsReasons[fn]
		if tabled && len(openBy[fn]) == t.n {
			for _, o := range openBy[fn] {
				r1.OK(o.key, o.pos, "confirmed by reading: "+t.reason)
			}
			continue
		}
		for _, o := range openBy[fn] {
			msg := o.why
			if tabled {
				msg = fmt.Sprintf("%s (this function has %d unproven reads, the table confirmed by reading covers %d: a read was added or changed)", o.why, len(openBy[fn]), t.n)
			}
			r1.Fail(o.key, o.pos, msg)
		}
	}
	for fn, t := range c07BoundsReasons {
		if len(openBy[fn]) == 0 && p.Lookup(fn) == nil {
			r1.Anchor("tabled function " + fn + " (" + t.reason[:30] + "…)")
		}
	}
	// preconditions left on entry points: every call site in the module (also outside the parsers) must establish them
	for _, root := range roots {
		var pis []int
		for pi := range eng.Req[root] {
			pis = append(pis, pi)
		}
		sort.Ints(pis)
		for _, pi := range pis {
			need := eng.Req[root][pi]
			sites, _ := p.CallSitesOf(root)
			nOut := 0
			for _, cs := range sites {
				if inScope[cs.Parent()] {
					continue // already an obligation of Analyse
				}
				nOut++
				ok, why := eng.ProveLen(cs.Parent(), cs, cs.Common().Args[pi], need)
				key := fmt.Sprintf("%s | call %s needs len(arg %d) >= %d", core.FuncName(cs.Parent()), root.Name(), pi, need)
				r1.Cond(ok, key, p.Pos(cs.Pos()), why, "the entry point "+root.Name()+" indexes its argument without a length test ("+eng.ReqWhy[root][pi]+") and this caller may pass a shorter value: "+why)
			}
			if nOut == 0 && len(sites) == 0 {
				r1.Fail(fmt.Sprintf("%s needs len(arg %d) >= %d", core.FuncName(root), pi, need), p.Pos(root.Pos()), "entry point with an unguarded fixed-position read of its input and no caller in the module to establish the length ("+eng.ReqWhy[root][pi]+")")
			}
		}
	}
	var ks []string
	for k, v := range perPkg {
		ks = append(ks, fmt.Sprintf("%s: %d proven by the engine, %d open (tabled or reported)", k, v[0], v[1]))
	}
	sort.Strings(ks)
	c.Extra["bounds_per_package"] = ks
	c.Extra["uncovered_variable_index_sites"] = unc

	// R1b: the one-element InitialValues literals expandBackground indexes at 0
	r1b := c.Rule("R1b", "the InitialValues literals of the background-* list properties hold at least one element (expandBackground reads element 0)", 5)
	if iv, err := p.Table("css/properties", "InitialValues"); err == nil {
		for _, e := range iv {
			name := ""
			if e.KeyExpr != nil {
				name = types.ExprString(e.KeyExpr)
			}
			switch name {
			case "PBackgroundImage", "PBackgroundRepeat", "PBackgroundAttachment", "PBackgroundPosition", "PBackgroundSize", "PBackgroundClip", "PBackgroundOrigin":
				n := compositeLen(e)
				r1b.Cond(n >= 1, "InitialValues["+name+"] is non-empty", p.Pos(e.Val.Pos()), fmt.Sprintf("%d element(s)", n), "empty literal: expandBackground indexes it at 0")
			}
		}
	} else {
		r1b.Anchor("css/properties.InitialValues")
	}

	// ---- R2 panics
	r2 := c.Rule("R2", "no explicit panic is reachable from the parse entry points except those of the reasoned table (dead by a regexp invariant, or the default of a dispatch proven exhaustive by another rule)", 10)
	panicFns := map[string]int{}
	for _, fn := range scope {
		for _, pn := range core.PanicSites(fn) {
			name := core.FuncName(fn)
			panicFns[name]++
			if why, ok := c07PanicReasons[name]; ok && panicFns[name] == 1 {
				r2.OK(name+" | panic", p.Pos(pn.Pos()), "reasoned: "+why)
			} else {
				r2.Fail(fmt.Sprintf("%s | panic #%d", name, panicFns[name]), p.Pos(pn.Pos()), "an explicit panic is reachable from a parser of document text and is not in the reasoned table: bad input must be signalled through the error value, not a panic")
			}
		}
	}

	// ---- R3 unchecked assertions
	r3 := c.Rule("R3", "no single-result type assertion in scope outside the reasoned table (generated accessors are discharged by C04.R2); validation.HasVar returns true for a var() block only when it has a first argument that is an identifier (resolveVar relies on it)", 10)
	assertBy := map[string][]*ssa.TypeAssert{}
	for _, fn := range scope {
		for _, ta := range core.UncheckedAsserts(fn) {
			assertBy[core.FuncName(fn)] = append(assertBy[core.FuncName(fn)], ta)
		}
	}
	var afns []string
	for fn := range assertBy {
		afns = append(afns, fn)
	}
	sort.Strings(afns)
	for _, fn := range afns {
		t, ok := c07AssertReasons[fn]
		for i, ta := range assertBy[fn] {
			key := fmt.Sprintf("%s | assertion to %s #%d", fn, types.TypeString(ta.AssertedType, func(pk *types.Package) string { return pk.Name() }), i+1)
			if ok && len(assertBy[fn]) == t.n {
				r3.OK(key, p.Pos(ta.Pos()), "reasoned: "+t.reason)
			} else {
				r3.Fail(key, p.Pos(ta.Pos()), "unchecked type assertion on a value derived from document text, not in the reasoned table (or the function's assertions changed): a value of another type panics")
			}
		}
	}
	if hv := p.Fn("css/validation", "HasVar"); hv != nil {
		// the comma-ok assertion of args[0] to Ident: args is non-empty there, and when it fails only false can be returned
		var ta *ssa.TypeAssert
		core.Instrs(hv, func(in ssa.Instruction) {
			if x, ok := in.(*ssa.TypeAssert); ok && x.CommaOk && strings.HasSuffix(x.AssertedType.String(), "parser.Ident") {
				ta = x
			}
		})
		okDep, why := false, "no comma-ok assertion of the first argument to Ident"
		if ta != nil {
			var args ssa.Value
			if u, ok := ta.X.(*ssa.UnOp); ok {
				if ia, ok := u.X.(*ssa.IndexAddr); ok {
					if k, isK := core.ConstInt(ia.Index); isK && k == 0 {
						args = ia.X
					}
				}
			}
			var okAtom ssa.Value
			if ta.Referrers() != nil {
				for _, r := range *ta.Referrers() {
					if ex, ok := r.(*ssa.Extract); ok && ex.Index == 1 {
						okAtom = ex
					}
				}
			}
			if args == nil || okAtom == nil {
				why = "the assertion is not on args[0] or its ok result is unused"
			} else if lenOK, _ := eng.ProveLen(hv, ta, args, 1); !lenOK {
				why = "args[0] is asserted without a dominating len(args) != 0"
			} else {
				// with ok false, every return reachable from the assertion yields false
				reach := core.ForwardReach(ta.Block(), map[ssa.Value]bool{okAtom: false}, nil)
				bad := false
				for b := range reach {
					ret, isRet := b.Instrs[len(b.Instrs)-1].(*ssa.Return)
					if !isRet {
						continue
					}
					isFalse := func(v ssa.Value) bool {
						k, ok := v.(*ssa.Const)
						return ok && k.Value != nil && k.Value.String() == "false"
					}
					switch x := ret.Results[0].(type) {
					case *ssa.Const:
						if !isFalse(x) {
							bad = true
						}
					case *ssa.Phi:
						for i, pred := range x.Block().Preds {
							if !reach[pred] {
								continue
							}
							// the edge pred -> phi block must be consistent with ok == false
							if cnd, pol, isIf := core.EdgeCond(pred, x.Block()); isIf && cnd == okAtom && pol {
								continue
							}
							if !isFalse(x.Edges[i]) {
								bad = true
							}
						}
					default:
						bad = true
					}
				}
				if bad {
					why = "a non-false result is reachable when the first argument is not an identifier"
				} else {
					okDep, why = true, "args[0].(Ident) is asserted under len(args) != 0 and its failure can only return false"
				}
			}
		}
		r3.Cond(okDep, "validation.HasVar | true for var() only with an identifier as first argument", p.Pos(hv.Pos()), why, why+": resolveVar indexes args[0] and asserts it to Ident unchecked")
	} else {
		r3.Anchor("css/validation.HasVar")
	}

	// ---- R4 divisions
	r4 := c.Rule("R4", "every integer / and % in scope has a divisor proven non-zero; a % result used as an index has a non-negative dividend", 1)
	divisionRule(c, r4, func(fn *ssa.Function) bool { return inScope[fn] })

	// ---- R5 dispatch tables total, validators entered with tokens
	r5 := c.Rule("R5", "validators[...] is indexed only under the allValidators membership test and is long enough for every property; expanders has an entry for every shorthand NewShortand can return; validators and expanders are only called with a non-empty token list", 4)
	c07Dispatch(c, r5, eng)

	r6 := c.Rule("R6", "the guard the path interpreter's indexed reads rest on: hasSetsOrMore(sz, …) returns true only for a list of at least sz numbers made of whole groups of sz (decided by path-condition reachability of its `return true` under three refusing scenarios)", 1)
	groupGuardRule(c, r6)
	c07GridAreas(c)
	c07TestedPositions(c, scope)
	r10 := c.Rule("R10", "the recursive descent of the CSS tokenizer is bounded: every recursive call of consumeValueList goes through a guard that tests a depth counter against a constant, increments it before the call and decrements it after (stack exhaustion cannot be recovered from)", 3)
	depthGuardRule(c, r10)
	r11 := c.Rule("R11", "the two byte scanners (CSS tokenizer, selector parser) never read their buffer out of range: every index and slice of the buffer, every new value of the cursor (<= length) and every precondition \"cursor + k <= length\" that a callee needs is implied by the tests that dominate it, by the invariant 0 <= cursor <= length (itself proved at every store) and by the contracts of strings.Index, HasPrefix, DecodeRune and RuneLen; linear arithmetic over cursor versions, decided by elimination; sites resting on a regexp contract or on the saved position of the previous token are named", 250)
	scannerBoundsRule(c, r11)
	c07ArityScenarios(c)
	c07StridedLoops(c)
	c07DateGroupsBounded(c)
	r7 := c.Rule("R7", "svg.Parse cannot recurse forever on href references between definitions: inheritElement destroys the reference before following it", 1)
	if ie := p.Lookup("svg.(*svgContext).inheritElement"); ie == nil {
		r7.Anchor("svg.(*svgContext).inheritElement")
	} else {
		ok, why := core.DeleteBeforeRecursion(p, ie, "href")
		r7.Cond(ok, "svg.(*svgContext).inheritElement | inheritElement(parent)", p.Pos(ie.Pos()), why, why+": two gradients referencing each other through href recurse until the stack is exhausted while the document is parsed")
	}
}

// compositeLen: number of elements of a composite literal table value (looking through a conversion call).
func compositeLen(e core.TableEntry) int {
	var val ast.Expr = e.Val
	for {
		switch x := val.(type) {
		case *ast.CompositeLit:
			return len(x.Elts)
		case *ast.CallExpr:
			if len(x.Args) == 1 {
				val = x.Args[0]
				continue
			}
		case *ast.ParenExpr:
			val = x.X
			continue
		}
		return -1
	}
}

// c07Dispatch: totality of the dispatch tables and the non-empty-token precondition at dynamic call sites.
func c07Dispatch(c *core.Check, r *core.Rule, eng *core.BoundsEngine) {
	p := c.Prog
	nb := int64(-1)
	for v, k := range p.ConstsOfType("css/properties", "KnownProp") {
		if k.Name() == "NbProperties" {
			nb = v
		}
	}
	// validators array long enough
	if g := p.Global("css/validation", "validators"); g != nil {
		if at, ok := g.Type().(*types.Pointer).Elem().Underlying().(*types.Array); ok {
			r.Cond(at.Len() >= nb, "validators is long enough for every KnownProp", "css/validation/validation.go", fmt.Sprintf("len %d >= NbProperties %d", at.Len(), nb),
				fmt.Sprintf("the array has %d entries but property ids go up to %d: validators[name] is out of range for the last properties (those validated through validatorsError only)", at.Len(), nb-1))
		} else {
			r.Unknown("validators array type", "-", "validators is not an array")
		}
	} else {
		r.Anchor("css/validation.validators")
	}
	maxSh := int64(0)
	for v := range p.ConstsOfType("css/properties", "Shortand") {
		if v > maxSh {
			maxSh = v
		}
	}
	if g := p.Global("css/validation", "expanders"); g != nil {
		if at, ok := g.Type().(*types.Pointer).Elem().Underlying().(*types.Array); ok {
			r.Cond(at.Len() > maxSh, "expanders is long enough for every Shortand", "css/validation/expanders.go", fmt.Sprintf("len %d > %d", at.Len(), maxSh), fmt.Sprintf("the array has %d entries but shorthand ids go up to %d", at.Len(), maxSh))
		}
	} else {
		r.Anchor("css/validation.expanders")
	}
	// dynamic call sites of validator / expander values: tokens non-empty
	ppd := p.Fn("css/validation", "PreprocessDeclarationsPrelude")
	vk := p.Fn("css/validation", "ValidateKnown")
	vns := p.Fn("css/validation", "validateNonShorthand")
	if ppd == nil || vk == nil || vns == nil {
		r.Anchor("css/validation PreprocessDeclarationsPrelude / ValidateKnown / validateNonShorthand")
		return
	}
	isTokens := func(v ssa.Value) bool {
		sl, ok := v.Type().Underlying().(*types.Slice)
		return ok && strings.HasSuffix(sl.Elem().String(), "parser.Token")
	}
	// (1) expanders[sh](…, tokens) in the declaration loop
	n := 0
	core.Instrs(ppd, func(in ssa.Instruction) {
		call, ok := in.(*ssa.Call)
		if !ok || call.Common().StaticCallee() != nil || call.Common().IsInvoke() {
			return
		}
		if _, isBuiltin := call.Common().Value.(*ssa.Builtin); isBuiltin {
			return
		}
		if _, isSig := call.Common().Value.Type().Underlying().(*types.Signature); !isSig || len(call.Call.Args) != 3 {
			return
		}
		for _, a := range call.Call.Args {
			if isTokens(a) {
				n++
				ok2, why := eng.ProveLen(ppd, in, a, 1)
				r.Cond(ok2, "PreprocessDeclarationsPrelude | expanders[sh] is called with a non-empty token list", p.Pos(in.Pos()), why, "an expander can be entered with no token: "+why)
			}
		}
	})
	// (2) validateNonShorthand call in the same loop
	core.Instrs(ppd, func(in ssa.Instruction) {
		call, ok := in.(*ssa.Call)
		if !ok || call.Common().StaticCallee() != vns {
			return
		}
		n++
		ok2, why := eng.ProveLen(ppd, in, call.Call.Args[2], 1)
		r.Cond(ok2, "PreprocessDeclarationsPrelude | validateNonShorthand is called with a non-empty token list", p.Pos(in.Pos()), why, "a validator can be entered with no token: "+why)
	})
	r.Cond(n >= 2, "both dispatch sites of the declaration loop found", p.Pos(ppd.Pos()), fmt.Sprint(n), fmt.Sprintf("%d found", n))
	// (3) validators are only indexed after the allValidators test in validateNonShorthand (for non-required lookups)
	allV := p.Global("css/validation", "allValidators")
	var lookupAtom ssa.Value
	for _, a := range core.CondAtoms(vns) {
		if ex, ok := a.(*ssa.Extract); ok && ex.Index == 1 {
			if l, ok := ex.Tuple.(*ssa.Lookup); ok {
				if u, ok := l.X.(*ssa.UnOp); ok && u.X == ssa.Value(allV) {
					lookupAtom = a
				}
			}
		}
	}
	r.Cond(lookupAtom != nil, "validateNonShorthand tests allValidators before dispatching", p.Pos(vns.Pos()), "membership test present", "properties without a validator would reach ValidateKnown and get a nil value")
}

// c07GridAreas: the rectangle scan of grid-template-areas slices a later row with bounds taken from an earlier one.
func c07GridAreas(c *core.Check) {
	p := c.Prog
	r := c.Rule("R8", "grid-template-areas: the scan that slices a later row with the bounds of an area found in an earlier row (`nrow[x:nx]`) is reached only when every row was compared for equality of length with the first one and a difference returned early — an inequality in one direction lets a shorter row through and the slice leaves it", 1)
	fn := p.Fn("css/validation", "gridTemplateAreas")
	if fn == nil {
		r.Anchor("css/validation.gridTemplateAreas")
		return
	}
	isLen := func(v ssa.Value) bool {
		call, ok := v.(*ssa.Call)
		if !ok {
			return false
		}
		b, isB := call.Call.Value.(*ssa.Builtin)
		return isB && b.Name() == "len"
	}
	// the slices of a row with two variable bounds
	var scans []*ssa.Slice
	core.Instrs(fn, func(in ssa.Instruction) {
		if sl, ok := in.(*ssa.Slice); ok && sl.Low != nil && sl.High != nil {
			if _, isK := sl.Low.(*ssa.Const); isK {
				return
			}
			if st, ok := sl.X.Type().Underlying().(*types.Slice); ok {
				if bt, ok := st.Elem().Underlying().(*types.Basic); ok && bt.Kind() == types.String {
					scans = append(scans, sl)
				}
			}
		}
	})
	if len(scans) == 0 {
		r.Anchor("gridTemplateAreas: slice of a row with variable bounds")
		return
	}
	// the equality tests between two lengths
	var eqs []*ssa.BinOp
	for _, a := range core.CondAtoms(fn) {
		b, ok := a.(*ssa.BinOp)
		if ok && (b.Op == token.EQL || b.Op == token.NEQ) && isLen(b.X) && (isLen(b.Y) || isLenDerived(b.Y)) {
			eqs = append(eqs, b)
		}
	}
	for _, sl := range scans {
		key := "css/validation.gridTemplateAreas | " + "row[x:nx]"
		guarded := false
		for _, e := range eqs {
			// when the lengths differ the function returns at once, and this happens in a loop over the rows that
			// is completed before the scan starts
			var ifi *ssa.If
			if refs := e.Referrers(); refs != nil {
				for _, ref := range *refs {
					if x, ok := ref.(*ssa.If); ok {
						ifi = x
					}
				}
			}
			if ifi == nil {
				continue
			}
			differs := ifi.Block().Succs[0]
			if e.Op == token.EQL {
				differs = ifi.Block().Succs[1]
			}
			returns := false
			if len(differs.Instrs) > 0 {
				_, returns = differs.Instrs[len(differs.Instrs)-1].(*ssa.Return)
			}
			l := core.InnermostLoop(fn, ifi.Block())
			if returns && l != nil && !l.Blocks[sl.Block()] && l.Header.Dominates(sl.Block()) {
				guarded = true
			}
		}
		r.Cond(guarded, key, p.Pos(sl.Pos()), "unreachable when a row's length differs from the first row's", "no test of equality between the length of a row and the length of the first row keeps control away from this slice: `\"a\" \"b b\" \"b\"` slices a one-element row with [0:2]")
	}
}

func isLenDerived(v ssa.Value) bool {
	if phi, ok := v.(*ssa.Phi); ok {
		for _, e := range phi.Edges {
			if call, ok := e.(*ssa.Call); ok {
				if b, isB := call.Call.Value.(*ssa.Builtin); isB && b.Name() == "len" {
					return true
				}
			}
		}
	}
	return false
}
