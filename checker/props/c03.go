package props

import (
	"fmt"
	"go/ast"
	"go/token"
	"go/types"
	"math/big"
	"strings"

	"golang.org/x/tools/go/ssa"

	"wrverif/core"
)

func init() { register("C03", c03) }

// ord is one of -1 (lt), 0 (eq), +1 (gt)
func ordOK(op token.Token, o int) bool {
	switch op {
	case token.EQL:
		return o == 0
	case token.NEQ:
		return o != 0
	case token.LSS:
		return o < 0
	case token.LEQ:
		return o <= 0
	case token.GTR:
		return o > 0
	case token.GEQ:
		return o >= 0
	}
	return false
}

// precedenceTable folds tree.declarationPrecedence on its finite domain.
func precedenceTable(p *core.Prog) (map[string]int64, error) {
	fn := p.Fn("html/tree", "declarationPrecedence")
	if fn == nil {
		return nil, fmt.Errorf("anchor html/tree.declarationPrecedence")
	}
	out := map[string]int64{}
	for _, origin := range []string{"user agent", "user", "author"} {
		for _, imp := range []bool{false, true} {
			f := &core.Folder{}
			res, err := f.Fold(fn, []core.AV{core.StrV(origin), core.BoolV(imp)})
			if err != nil {
				return nil, err
			}
			po, ok := res[0].(core.Poly)
			if !ok {
				return nil, fmt.Errorf("non-constant precedence for (%s,%v): %s", origin, imp, core.AVString(res[0]))
			}
			c, ok := po.IsConst()
			if !ok || !c.IsInt() {
				return nil, fmt.Errorf("non-constant precedence for (%s,%v)", origin, imp)
			}
			out[fmt.Sprintf("%s|%v", origin, imp)] = c.Num().Int64()
		}
	}
	return out, nil
}

func c03(c *core.Check) {
	c03URLForms(c)
	c03StyleAttrFresh(c)
	c03ImportantTrivia(c)
	c03NestedListOwnFlags(c)
	p := c.Prog
	c.Explain = "Structural necessary conditions of the cascade order, decided on the type-checked source: the origin/importance table folded over its finite domain, weight.Less and Specificity.Less folded over every ordering of the compared components, every write into a cascaded style guarded by that comparison, the style-attribute weight above every selector weight, sheet order and origins, and media-filtered rules reached only through a true media test. Does not decide that selectors match (C05) nor source order inside one sheet."
	rArgs := c.Rule("R8", "no call passes two same-typed arguments under each other's parameter names (swapped arguments): every pair of arguments named after the callee's parameters is aligned with them", 7)
	argNameRule(c, rArgs, "html/tree", nil, 6)
	c03Nesting(c)
	c.Assume = []string{"specificity components stay below 2^30", "go/ssa lowering of the analysed functions is faithful"}

	// ---- R1 precedence table
	r1 := c.Rule("R1", "declarationPrecedence, folded on {user agent,user,author}x{normal,important}, is strictly increasing in the CSS 2.1 §6.4.1 order: UA < user < author < author!important < user!important", 3)
	tbl, err := precedenceTable(p)
	if err != nil {
		r1.Unknown("html/tree.declarationPrecedence", "-", err.Error())
	} else {
		pos := p.Pos(p.Fn("html/tree", "declarationPrecedence").Pos())
		chain := []string{"user agent|false", "user|false", "author|false", "author|true", "user|true"}
		for i := 0; i+1 < len(chain); i++ {
			a, b := chain[i], chain[i+1]
			r1.Cond(tbl[a] < tbl[b], fmt.Sprintf("precedence(%s) < precedence(%s)", a, b), pos,
				fmt.Sprintf("%d < %d", tbl[a], tbl[b]), fmt.Sprintf("got %d and %d", tbl[a], tbl[b]))
		}
		r1.Cond(tbl["user agent|true"] < tbl["user|false"], "precedence(user agent|true) < precedence(user|false)", pos,
			fmt.Sprintf("%d < %d", tbl["user agent|true"], tbl["user|false"]), "UA !important outranks user rules, which the property's order does not allow")
	}

	// ---- R2 weight order
	r2 := c.Rule("R2", "weight.Less(a,b) <=> prec(a)<prec(b) or (prec equal and spec(a)<=spec(b)), on all 9 orderings; Specificity.Less is strict lexicographic on all 27 orderings; Specificity.Add is component-wise", 37)
	specLess := p.Method("css/selector", "Specificity", "Less")
	wLess := p.Method("html/tree", "weight", "Less")
	if specLess == nil {
		r2.Anchor("css/selector.Specificity.Less")
	}
	if wLess == nil {
		r2.Anchor("html/tree.weight.Less")
	}
	if specLess != nil {
		pos := p.Pos(specLess.Pos())
		for o0 := -1; o0 <= 1; o0++ {
			for o1 := -1; o1 <= 1; o1++ {
				for o2 := -1; o2 <= 1; o2++ {
					ords := []int{o0, o1, o2}
					want := false
					for _, o := range ords {
						if o < 0 {
							want = true
							break
						}
						if o > 0 {
							break
						}
					}
					f := &core.Folder{Cmp: func(op token.Token, x, y core.AV) (bool, bool) {
						px, ok1 := x.(core.Poly)
						py, ok2 := y.(core.Poly)
						if !ok1 || !ok2 {
							return false, false
						}
						for i := 0; i < 3; i++ {
							if px.String() == fmt.Sprintf("s[%d]", i) && py.String() == fmt.Sprintf("o[%d]", i) {
								return ordOK(op, ords[i]), true
							}
							if px.String() == fmt.Sprintf("o[%d]", i) && py.String() == fmt.Sprintf("s[%d]", i) {
								return ordOK(op, -ords[i]), true
							}
						}
						return false, false
					}}
					st := specLess.Params[0].Type()
					res, err := f.Fold(specLess, []core.AV{core.SymOf(st, "s"), core.SymOf(st, "o")})
					key := fmt.Sprintf("Specificity.Less ordering %v", ords)
					if err != nil {
						r2.Unknown(key, pos, err.Error())
						continue
					}
					got, ok := res[0].(core.BoolV)
					if !ok {
						r2.Unknown(key, pos, "result not a constant under this ordering: "+core.AVString(res[0]))
						continue
					}
					r2.Cond(bool(got) == want, key, pos, fmt.Sprintf("folds to %v = strict lexicographic", bool(got)), fmt.Sprintf("folds to %v, strict lexicographic order gives %v", bool(got), want))
				}
			}
		}
		// Add is component-wise
		if add := p.Method("css/selector", "Specificity", "Add"); add != nil {
			f := &core.Folder{}
			st := add.Params[0].Type()
			res, err := f.Fold(add, []core.AV{core.SymOf(st, "s"), core.SymOf(st, "o")})
			pos := p.Pos(add.Pos())
			if err != nil {
				r2.Unknown("Specificity.Add", pos, err.Error())
			} else if a, ok := res[0].(core.Agg); ok && len(a.E) == 3 {
				okAll := true
				for i := 0; i < 3; i++ {
					want := core.SymP(fmt.Sprintf("s[%d]", i)).Add(core.SymP(fmt.Sprintf("o[%d]", i)))
					if pe, ok := a.E[i].(core.Poly); !ok || !pe.Equal(want) {
						okAll = false
					}
				}
				r2.Cond(okAll, "Specificity.Add component-wise", pos, "result = "+core.AVString(res[0]), "result = "+core.AVString(res[0]))
			} else {
				r2.Unknown("Specificity.Add", pos, "unexpected result "+core.AVString(res[0]))
			}
		} else {
			r2.Anchor("css/selector.Specificity.Add")
		}
	}
	if wLess != nil && specLess != nil {
		pos := p.Pos(wLess.Pos())
		for op := -1; op <= 1; op++ {
			for os := -1; os <= 1; os++ {
				op, os := op, os
				want := op < 0 || (op == 0 && os <= 0)
				isSpec := func(v core.AV, who string) bool {
					a, ok := v.(core.Agg)
					if !ok || len(a.E) != 3 {
						return false
					}
					pe, ok := a.E[0].(core.Poly)
					return ok && pe.String() == who+".specificity[0]"
				}
				f := &core.Folder{
					Cmp: func(o token.Token, x, y core.AV) (bool, bool) {
						if px, ok := x.(core.Poly); ok {
							if py, ok := y.(core.Poly); ok {
								if px.String() == "w.precedence" && py.String() == "o.precedence" {
									return ordOK(o, op), true
								}
								if px.String() == "o.precedence" && py.String() == "w.precedence" {
									return ordOK(o, -op), true
								}
							}
						}
						if isSpec(x, "w") && isSpec(y, "o") {
							return ordOK(o, os), true
						}
						if isSpec(x, "o") && isSpec(y, "w") {
							return ordOK(o, -os), true
						}
						return false, false
					},
					Call: func(_ *core.Folder, call *ssa.Call, args []core.AV) (core.AV, bool) {
						if call.Common().StaticCallee() == specLess && len(args) == 2 {
							if isSpec(args[0], "w") && isSpec(args[1], "o") {
								return core.BoolV(os < 0), true
							}
							if isSpec(args[0], "o") && isSpec(args[1], "w") {
								return core.BoolV(os > 0), true
							}
						}
						return nil, false
					},
				}
				wt := wLess.Params[0].Type()
				res, err := f.Fold(wLess, []core.AV{core.SymOf(wt, "w"), core.SymOf(wt, "o")})
				key := fmt.Sprintf("weight.Less ordering prec=%d spec=%d", op, os)
				if err != nil {
					r2.Unknown(key, pos, err.Error())
					continue
				}
				got, ok := res[0].(core.BoolV)
				if !ok {
					r2.Unknown(key, pos, "result not constant: "+core.AVString(res[0]))
					continue
				}
				r2.Cond(bool(got) == want, key, pos, fmt.Sprintf("folds to %v = (prec<) or (prec= and spec<=)", bool(got)),
					fmt.Sprintf("folds to %v, the cascade order requires %v (later declaration must win ties, earlier must not win otherwise)", bool(got), want))
			}
		}
	}

	// ---- R3 guarded insertion
	r3 := c.Rule("R3", "every write into a cascaded style (map[PropKey]weigthedValue) is reached only when old.isNone() or old.Less(new) holds, old being the entry read from the same map and new the weight stored", 1)
	isNone := p.Method("html/tree", "weight", "isNone")
	wvObj := p.Obj("html/tree", "weigthedValue")
	if isNone == nil || wvObj == nil || wLess == nil {
		r3.Anchor("html/tree.weight.isNone / weigthedValue / weight.Less")
	} else {
		for _, fn := range p.FuncsOfPkg("html/tree") {
			core.Instrs(fn, func(in ssa.Instruction) {
				mu, ok := in.(*ssa.MapUpdate)
				if !ok {
					return
				}
				mt, ok := mu.Map.Type().Underlying().(*types.Map)
				if !ok || !types.Identical(mt.Elem(), wvObj.Type()) {
					return
				}
				key := core.FuncName(fn) + " | cascaded[" + exprName(mu.Key) + "] = …"
				pos := p.Pos(mu.Pos())
				fromSameMap := func(v ssa.Value) bool {
					return core.DerivesFrom(v, func(x ssa.Value) bool {
						l, ok := x.(*ssa.Lookup)
						return ok && sameRoot(l.X, mu.Map)
					})
				}
				storedWeightRoots := weightRootsOfStored(mu.Value, wvObj.Type())
				var atoms []ssa.Value
				kind := map[ssa.Value]string{}
				for _, a := range core.CondAtoms(fn) {
					if call, ok := core.CallTo(a, isNone); ok && fromSameMap(call.Call.Args[0]) {
						atoms = append(atoms, a)
						kind[a] = "none"
					} else if call, ok := core.CallTo(a, wLess); ok && fromSameMap(call.Call.Args[0]) {
						// the new weight must be the one stored
						nr := rootAlloc(call.Call.Args[1])
						match := false
						for _, r := range storedWeightRoots {
							if r == nr && nr != nil {
								match = true
							}
						}
						if match {
							atoms = append(atoms, a)
							kind[a] = "less"
						}
					}
				}
				if len(atoms) == 0 {
					r3.Fail(key, pos, "no test old.isNone() / old.Less(new) on the entry read from the same map with the stored weight guards this write")
					return
				}
				ok2, cex := core.GuardedBy(fn, mu.Block(), atoms, func(m map[ssa.Value]bool) bool {
					for a, v := range m {
						if v && (kind[a] == "none" || kind[a] == "less") {
							return true
						}
					}
					return false
				})
				if ok2 {
					r3.OK(key, pos, fmt.Sprintf("write is reachable only with isNone()||Less(new) true (%d guard atoms)", len(atoms)))
				} else {
					r3.Fail(key, pos, fmt.Sprintf("a path reaches the write with every guard false (%d atoms, counter-example %v)", len(atoms), len(cex)))
				}
			})
		}
	}

	// ---- R4 style attribute outranks selectors; presentational hints are author/zero
	r4 := c.Rule("R4", "the weight given to a style-attribute declaration is above weight{precedence(author,imp), s} for every selector specificity s and below the next origin level; presentational hints carry specificity {0,0,0}", 1)
	c03StyleAttr(c, r4, tbl)

	// ---- R5 sheet order and origins
	r5 := c.Rule("R5", "in GetAllComputedStyles the sheets are appended UA, (forms UA), presentational hints (author, {0,0,0}), author sheets (author), user sheets (user), in that order", 7)
	c03Sheets(c, r5)

	// ---- R6 filtered blocks never apply
	r6 := c.Rule("R6", "the bodies of @media, @import and <link>/<style media> are processed only on paths where evaluateMediaQuery returned true; a rule is added to the matcher only when its selector parsed without error; the device media type is passed on unchanged to nested and imported sheets", 17)
	c03Media(c, r6)

	// ---- R7 every selector of a list is tested
	r7 := c.Rule("R7", "matcher.match tests every selector of every rule against the element: each iteration of the loop over a rule's selector list reaches sel.Match, and the loop has no early exit (each matching selector contributes its own specificity)", 1)
	c03Matcher(c, r7)
	r10 := c.Rule("R10", "an invalid rule is dropped alone: in html/tree, css/validation and css/parser no loop tests an error that it carries over from a previous iteration (an error variable assigned in one iteration and still set in the next makes every following item fail with the first bad one)", 26)
	staleErrorRule(c, r10, "html/tree", "css/validation", "css/parser")
	r11 := c.Rule("R11", "an imported sheet can be imported again: in preprocessStylesheetImports the url marked while its sheet is loaded is unmarked by a direct delete before the next rule of the importing sheet is processed", 1)
	importScopeRule(c, r11)
}

func c03Matcher(c *core.Check, r *core.Rule) {
	p := c.Prog
	mm := p.Method("html/tree", "matcher", "match")
	if mm == nil {
		r.Anchor("html/tree.matcher.match")
		return
	}
	var matchCall ssa.Instruction
	core.Instrs(mm, func(in ssa.Instruction) {
		if call, ok := in.(*ssa.Call); ok && call.Common().IsInvoke() && call.Common().Method.Name() == "Match" {
			matchCall = in
		}
	})
	if matchCall == nil {
		r.Anchor("call sel.Match(element) in html/tree.matcher.match")
		return
	}
	l := core.InnermostLoop(mm, matchCall.Block())
	if l == nil {
		r.Fail("matcher.match loops over the selector list", p.Pos(matchCall.Pos()), "sel.Match is not called inside a loop")
		return
	}
	always, exits := core.EveryIterationPasses(l, func(in ssa.Instruction) bool { return in == matchCall })
	r.Cond(always, "every selector of the list is tested", p.Pos(matchCall.Pos()), "every iteration of the selector loop reaches sel.Match(element)", "an iteration of the selector loop can complete without calling sel.Match: a selector of the list is skipped, the rule then applies with another selector's specificity or not at all")
	r.Cond(len(exits) == 0, "the selector loop has no early exit", p.Pos(matchCall.Pos()), "the loop is left only when the list is exhausted", "the loop over the selector list can be left early: later (possibly more specific) selectors of the list are not tested")
	// every selector that matches contributes a result: from the true branch of the test on sel.Match, every path
	// back to the loop header passes through an append
	var matchIf *ssa.If
	if mv, ok := matchCall.(ssa.Value); ok && mv.Referrers() != nil {
		for _, ref := range *mv.Referrers() {
			if ifi, ok := ref.(*ssa.If); ok {
				matchIf = ifi
			}
		}
	}
	if matchIf == nil {
		r.Anchor("matcher.match: if sel.Match(element)")
		return
	}
	isAppend := func(in ssa.Instruction) bool {
		call, ok := in.(*ssa.Call)
		if !ok {
			return false
		}
		b, ok := call.Call.Value.(*ssa.Builtin)
		return ok && b.Name() == "append"
	}
	skipped := false
	seen := map[*ssa.BasicBlock]bool{}
	var walk func(b *ssa.BasicBlock)
	walk = func(b *ssa.BasicBlock) {
		if seen[b] {
			return
		}
		seen[b] = true
		for _, in := range b.Instrs {
			if isAppend(in) {
				return
			}
		}
		for _, s := range b.Succs {
			if s == l.Header || !l.Blocks[s] {
				skipped = true
				continue
			}
			walk(s)
		}
	}
	walk(matchIf.Block().Succs[0])
	r.Cond(!skipped, "every matching selector contributes its own result", p.Pos(matchIf.Pos()), "from the branch where sel.Match is true every path to the next selector appends a result", "a selector that matches can be passed over without a result (a shortcut for a rule that already applied): the rule then weighs as its first matching selector, not as its most specific one (`p, #x {…}` against `.c {…}` on <p id=x class=c>)")
}

func unusedC03() {}

func exprName(v ssa.Value) string {
	switch x := v.(type) {
	case *ssa.Field:
		st := x.X.Type().Underlying().(*types.Struct)
		return exprName(x.X) + "." + st.Field(x.Field).Name()
	case *ssa.UnOp:
		if x.Op == token.MUL {
			return exprName(x.X)
		}
	case *ssa.FieldAddr:
		st := x.X.Type().Underlying().(*types.Pointer).Elem().Underlying().(*types.Struct)
		return exprName(x.X) + "." + st.Field(x.Field).Name()
	case *ssa.Parameter:
		return x.Name()
	case *ssa.Alloc:
		if x.Comment != "" {
			return x.Comment
		}
	case *ssa.Const:
		return x.String()
	case *ssa.Extract:
		return exprName(x.Tuple)
	case *ssa.IndexAddr:
		return exprName(x.X) + "[i]"
	}
	n := v.Name()
	if strings.HasPrefix(n, "t") {
		return "_"
	}
	return n
}

// sameRoot: two map/slice values denote the same variable (same SSA value, or loads of the same address).
func sameRoot(a, b ssa.Value) bool {
	a, b = core.Unwrap(a), core.Unwrap(b)
	if a == b {
		return true
	}
	la, ok1 := a.(*ssa.UnOp)
	lb, ok2 := b.(*ssa.UnOp)
	if ok1 && ok2 && la.Op == token.MUL && lb.Op == token.MUL {
		return la.X == lb.X
	}
	// phi of the same two values (style, ok := m[k]; if !ok {style = new; m[k]=style}) : compare phi identity only
	return false
}

// rootAlloc strips loads to find the local variable a value was read from.
func rootAlloc(v ssa.Value) ssa.Value {
	v = core.Unwrap(v)
	if u, ok := v.(*ssa.UnOp); ok && u.Op == token.MUL {
		return u.X
	}
	return v
}

// weightRootsOfStored finds, for a stored weigthedValue built as a composite literal,
// the variables its `weight` field was assigned from.
func weightRootsOfStored(v ssa.Value, wvType types.Type) []ssa.Value {
	var out []ssa.Value
	st, ok := wvType.Underlying().(*types.Struct)
	if !ok {
		return nil
	}
	widx := -1
	for i := 0; i < st.NumFields(); i++ {
		if st.Field(i).Name() == "weight" {
			widx = i
		}
	}
	root := rootAlloc(v)
	al, ok := root.(*ssa.Alloc)
	if !ok || al.Referrers() == nil || widx < 0 {
		return nil
	}
	for _, r := range *al.Referrers() {
		if fa, ok := r.(*ssa.FieldAddr); ok && fa.Field == widx && fa.Referrers() != nil {
			for _, rr := range *fa.Referrers() {
				if s, ok := rr.(*ssa.Store); ok && s.Addr == fa {
					out = append(out, rootAlloc(s.Val))
				}
			}
		}
	}
	return out
}

// evalPrec evaluates the precedence expression stored at an insertion site as a function of
// (origin, importance): calls to declarationPrecedence read the folded table, + and * with constants are followed.
func evalPrec(v ssa.Value, declPrec *ssa.Function, tbl map[string]int64, origin string, imp bool) (int64, bool) {
	v = core.Unwrap(v)
	switch x := v.(type) {
	case *ssa.Const:
		return core.ConstInt(x)
	case *ssa.Convert:
		return evalPrec(x.X, declPrec, tbl, origin, imp)
	case *ssa.Call:
		if x.Common().StaticCallee() == declPrec {
			o := origin
			if s, ok := core.ConstStr(x.Call.Args[0]); ok {
				o = s
			}
			n, ok := tbl[fmt.Sprintf("%s|%v", o, imp)]
			return n, ok
		}
	case *ssa.BinOp:
		a, ok1 := evalPrec(x.X, declPrec, tbl, origin, imp)
		b, ok2 := evalPrec(x.Y, declPrec, tbl, origin, imp)
		if ok1 && ok2 {
			switch x.Op {
			case token.ADD:
				return a + b, true
			case token.SUB:
				return a - b, true
			case token.MUL:
				return a * b, true
			}
		}
	case *ssa.UnOp:
		if x.Op == token.MUL {
			// load of a local: single store
			sts := core.StoresTo(x.X)
			if len(sts) == 1 {
				return evalPrec(sts[0], declPrec, tbl, origin, imp)
			}
		}
	}
	return 0, false
}

func c03StyleAttr(c *core.Check, r *core.Rule, tbl map[string]int64) {
	p := c.Prog
	fsa := p.Fn("html/tree", "findStyleAttributes")
	nsf := p.Fn("html/tree", "newStyleFor")
	declPrec := p.Fn("html/tree", "declarationPrecedence")
	if fsa == nil || nsf == nil || declPrec == nil || tbl == nil {
		r.Anchor("html/tree.findStyleAttributes / newStyleFor / declarationPrecedence")
		return
	}
	// Specificity literals built in findStyleAttributes: composite literals of type selector.Specificity.
	// go/ssa materialises a [3]int literal as an Alloc + IndexAddr stores, or as a constant aggregate.
	specObj := p.Obj("css/selector", "Specificity")
	lits := arrayLiterals(p, fsa, specObj.Type())
	if len(lits) < 2 {
		r.Unknown("findStyleAttributes specificity literals", p.Pos(fsa.Pos()), fmt.Sprintf("found %d Specificity literals, expected the style-attribute one and the presentational-hint one", len(lits)))
		return
	}
	// the first literal in source order is the style attribute's (it is the one appended under `style != ""`)
	styleLit, phLit := lits[0], lits[1]
	r.Cond(phLit.vals[0] == 0 && phLit.vals[1] == 0 && phLit.vals[2] == 0, "presentational hints specificity", p.Pos(phLit.pos),
		"literal {0,0,0}", fmt.Sprintf("literal %v: presentational hints must rank as author rules of zero specificity", phLit.vals))

	// precedence at the style-attribute site vs at the sheet-rule site in newStyleFor
	var attrPrec, sheetPrec ssa.Value
	wObj := p.Obj("html/tree", "weight")
	core.Instrs(nsf, func(in ssa.Instruction) {
		st, ok := in.(*ssa.Store)
		if !ok {
			return
		}
		fa, ok := st.Addr.(*ssa.FieldAddr)
		if !ok {
			return
		}
		pt, ok := fa.X.Type().Underlying().(*types.Pointer)
		if !ok || !types.Identical(pt.Elem(), wObj.Type()) || fa.Field != 0 {
			return
		}
		// which site? look at the specificity stored in the same weight literal
		al := fa.X
		isAttr := false
		if al.Referrers() != nil {
			for _, rr := range *al.Referrers() {
				if fa2, ok := rr.(*ssa.FieldAddr); ok && fa2.Field == 1 && fa2.Referrers() != nil {
					for _, r3 := range *fa2.Referrers() {
						if s2, ok := r3.(*ssa.Store); ok && s2.Addr == fa2 {
							if core.DerivesFrom(s2.Val, func(x ssa.Value) bool {
								f, ok := x.(*ssa.Field)
								if ok {
									if stt, ok := f.X.Type().Underlying().(*types.Struct); ok && stt.Field(f.Field).Name() == "specificity" && strings.HasSuffix(f.X.Type().String(), "styleAttrSpec") {
										return true
									}
								}
								fa3, ok := x.(*ssa.FieldAddr)
								if ok {
									if pt, ok := fa3.X.Type().Underlying().(*types.Pointer); ok {
										if stt, ok := pt.Elem().Underlying().(*types.Struct); ok && stt.Field(fa3.Field).Name() == "specificity" && strings.HasSuffix(pt.Elem().String(), "styleAttrSpec") {
											return true
										}
									}
								}
								return false
							}) {
								isAttr = true
							}
						}
					}
				}
			}
		}
		if isAttr {
			attrPrec = st.Val
		} else if sheetPrec == nil {
			sheetPrec = st.Val
		}
	})
	if attrPrec == nil || sheetPrec == nil {
		r.Unknown("newStyleFor weight literals", p.Pos(nsf.Pos()), "could not find the weight{precedence, specificity} literals of the style-attribute loop and of the sheet-rule loop")
		return
	}
	pos := p.Pos(styleLit.pos)
	for _, imp := range []bool{false, true} {
		pa, ok1 := evalPrec(attrPrec, declPrec, tbl, "author", imp)
		ps, ok2 := evalPrec(sheetPrec, declPrec, tbl, "author", imp)
		key := fmt.Sprintf("style attribute (important=%v) outranks every author selector", imp)
		if !ok1 || !ok2 {
			r.Unknown(key, pos, "precedence expression at an insertion site is not a function of declarationPrecedence and constants")
			continue
		}
		// next level
		var next int64
		var okn bool
		if !imp {
			next, okn = evalPrec(sheetPrec, declPrec, tbl, "author", true)
		} else {
			next, okn = evalPrec(sheetPrec, declPrec, tbl, "user", true)
		}
		if !okn {
			r.Unknown(key, pos, "cannot evaluate the next precedence level")
			continue
		}
		switch {
		case pa > ps && pa < next:
			r.OK(key, pos, fmt.Sprintf("precedence %d lies strictly between author (%d) and the next level (%d)", pa, ps, next))
		case pa == ps && big.NewInt(styleLit.vals[0]).Cmp(big.NewInt(1<<30)) >= 0:
			r.OK(key, pos, fmt.Sprintf("same precedence, specificity sentinel %d >= 2^30 on the leading component", styleLit.vals[0]))
		case pa == ps:
			r.Fail(key, pos, fmt.Sprintf("style attribute weight is {prec %d, spec %v}: a selector of specificity >= %v at the same precedence ties or wins (ties go to the rule inserted later, i.e. the sheet rule)", pa, styleLit.vals, styleLit.vals))
		default:
			r.Fail(key, pos, fmt.Sprintf("style attribute precedence %d is not within (author %d, next level %d)", pa, ps, next))
		}
	}
}

type arrLit struct {
	pos  token.Pos
	vals []int64
}

// arrayLiterals lists the composite literals of a fixed-size integer array type in fn, in source order,
// read from the AST with constant folding by the type checker.
func arrayLiterals(p *core.Prog, fn *ssa.Function, t types.Type) []arrLit {
	var out []arrLit
	info := p.InfoOf(fn)
	for _, cl := range core.CompositeLitsIn(info, p.Body(fn), t) {
		vals, ok := core.IntElems(info, cl)
		if !ok {
			continue
		}
		for len(vals) < 3 {
			vals = append(vals, 0)
		}
		out = append(out, arrLit{pos: cl.Pos(), vals: vals})
	}
	return out
}

func c03Sheets(c *core.Check, r *core.Rule) {
	p := c.Prog
	fn := p.Fn("html/tree", "GetAllComputedStyles")
	sheetObj := p.Obj("html/tree", "sheet")
	if fn == nil || sheetObj == nil {
		r.Anchor("html/tree.GetAllComputedStyles / sheet")
		return
	}
	info := p.InfoOf(fn)
	type ent struct {
		origin, src string
		spec        string
		pos         token.Pos
	}
	var got []ent
	for _, cl := range core.CompositeLitsIn(info, p.Body(fn), sheetObj.Type()) {
		e := ent{pos: cl.Pos()}
		if oe := core.FieldExpr(cl, "origin"); oe != nil {
			e.origin, _ = core.StrConst(info, oe)
		}
		if se := core.FieldExpr(cl, "sheet"); se != nil {
			e.src = types.ExprString(se)
		}
		if sp := core.FieldExpr(cl, "specificity"); sp != nil {
			if scl, ok := sp.(*ast.CompositeLit); ok {
				v, _ := core.IntElems(info, scl)
				e.spec = fmt.Sprint(v)
			} else {
				e.spec = types.ExprString(sp)
			}
		}
		got = append(got, e)
	}
	// role of each literal by what it wraps: fields of the HTML object name the UA / forms / PH sheets,
	// range variables name author and user sheets.
	var seq []string
	for _, e := range got {
		role := "?"
		switch {
		case strings.HasSuffix(e.src, ".UAStyleSheet"):
			role = "UA"
		case strings.HasSuffix(e.src, ".FormStyleSheet"):
			role = "forms"
		case strings.HasSuffix(e.src, ".PHStyleSheet"):
			role = "PH"
		}
		seq = append(seq, role)
	}
	// author / user literals are the two remaining ones, in order
	idx := 0
	for i, s := range seq {
		if s == "?" {
			if idx == 0 {
				seq[i] = "author-sheets"
			} else if idx == 1 {
				seq[i] = "user-sheets"
			}
			idx++
		}
	}
	wantOrigin := map[string]string{"UA": "user agent", "forms": "user agent", "PH": "author", "author-sheets": "author", "user-sheets": "user"}
	order := []string{"UA", "forms", "PH", "author-sheets", "user-sheets"}
	posOf := map[string]int{}
	for i, s := range seq {
		posOf[s] = i + 1
	}
	for _, role := range order {
		i := posOf[role]
		if i == 0 {
			r.Fail("sheet literal "+role, p.Pos(fn.Pos()), "no sheet{...} literal for this stylesheet kind in GetAllComputedStyles")
			continue
		}
		e := got[i-1]
		r.Cond(e.origin == wantOrigin[role], "origin of "+role+" sheet", p.Pos(e.pos), fmt.Sprintf("origin %q", e.origin), fmt.Sprintf("origin %q, CSS requires %q", e.origin, wantOrigin[role]))
	}
	// authors' own sheet literal must be the one fed by findStylesheets, users' by the userStylesheets parameter:
	// decided on SSA: the value appended in the loop over findStylesheets' result has origin "author".
	if posOf["PH"] > 0 && posOf["author-sheets"] > 0 {
		ph := got[posOf["PH"]-1]
		r.Cond(posOf["PH"] < posOf["author-sheets"], "PH sheet precedes author sheets", p.Pos(ph.pos),
			"the presentational-hint sheet is appended before the loop over author sheets (ties at zero specificity go to the author rule)",
			"the presentational-hint sheet is appended after author sheets: its zero-specificity rules would win ties against author rules")
		r.Cond(ph.spec == "[0 0 0]", "PH sheet specificity override", p.Pos(ph.pos), "specificity []int{0,0,0}", "specificity "+ph.spec+" (presentational hints rank as zero specificity)")
	}
	// SSA cross-check of the author/user pairing
	core.Instrs(fn, func(in ssa.Instruction) {})
	fsh := p.Fn("html/tree", "findStylesheets")
	if fsh == nil {
		r.Anchor("html/tree.findStylesheets")
		return
	}
	// each store to the `origin` field of a sheet literal whose sibling `sheet` field derives from findStylesheets / from param userStylesheets
	sheetT := sheetObj.Type()
	core.Instrs(fn, func(in ssa.Instruction) {
		st, ok := in.(*ssa.Store)
		if !ok {
			return
		}
		ia, ok := st.Addr.(*ssa.IndexAddr) // &slicelit[0]
		_ = ia
		fa, ok := st.Addr.(*ssa.FieldAddr)
		if !ok {
			return
		}
		pt, ok := fa.X.Type().Underlying().(*types.Pointer)
		if !ok || !types.Identical(pt.Elem(), sheetT) || fa.Field != 0 {
			return
		}
		// sibling origin store
		var origin string
		if fa.X.Referrers() != nil {
			for _, rr := range *fa.X.Referrers() {
				if f2, ok := rr.(*ssa.FieldAddr); ok && f2.Field == 1 && f2.Referrers() != nil {
					for _, r3 := range *f2.Referrers() {
						if s2, ok := r3.(*ssa.Store); ok {
							origin, _ = core.ConstStr(s2.Val)
						}
					}
				}
			}
		}
		fromFind := core.DerivesFrom(st.Val, func(v ssa.Value) bool { _, ok := core.CallTo(v, fsh); return ok })
		fromUser := core.DerivesFrom(st.Val, func(v ssa.Value) bool {
			pa, ok := v.(*ssa.Parameter)
			return ok && len(fn.Params) > 1 && pa == fn.Params[1]
		})
		if fromFind {
			r.Cond(origin == "author", "sheets found in the document are author sheets", p.Pos(st.Pos()), "origin \"author\"", fmt.Sprintf("origin %q", origin))
		}
		if fromUser {
			r.Cond(origin == "user", "sheets passed by the caller are user sheets", p.Pos(st.Pos()), "origin \"user\"", fmt.Sprintf("origin %q", origin))
		}
	})
}

func c03Media(c *core.Check, r *core.Rule) {
	p := c.Prog
	eval := p.Fn("html/tree", "evaluateMediaQuery")
	if eval == nil || len(eval.Params) != 2 {
		r.Anchor("html/tree.evaluateMediaQuery(queryList, deviceMediaType)")
		return
	}
	// the media family: the functions of html/tree with a parameter that flows (possibly defaulted: a phi with a constant) into the second
	// argument of evaluateMediaQuery, directly or through another member (least fixed point; no names involved).
	media := map[*ssa.Function]int{eval: 1}
	var fns []*ssa.Function
	for _, fn := range p.FuncsOfPkg("html/tree") {
		if fn.Blocks != nil {
			fns = append(fns, fn)
		}
	}
	for changed := true; changed; {
		changed = false
		for _, fn := range fns {
			if _, ok := media[fn]; ok {
				continue
			}
			core.Instrs(fn, func(in ssa.Instruction) {
				call, ok := in.(*ssa.Call)
				if !ok {
					return
				}
				ti, ok := media[call.Common().StaticCallee()]
				if !ok || ti >= len(call.Call.Args) {
					return
				}
				for i, par := range fn.Params {
					par := par
					if core.DerivesFrom(call.Call.Args[ti], func(v ssa.Value) bool { return v == ssa.Value(par) }) {
						if _, done := media[fn]; !done {
							media[fn] = i
							changed = true
						}
					}
				}
			})
		}
	}
	if len(media) < 6 {
		r.Anchor(fmt.Sprintf("media family of html/tree: %d functions found, at least 6 confirmed by reading (evaluateMediaQuery, preprocessStylesheet, preprocessStylesheetImports, newCSS, newCSSImports, findStylesheets)", len(media)))
		return
	}
	// (a) a function that tests media queries reaches its nested sheets only after a true test
	// (b) every call between two members hands on the caller's own device media type
	for _, fn := range fns {
		si, member := media[fn]
		if !member {
			continue
		}
		var atoms []ssa.Value
		for _, a := range core.CondAtoms(fn) {
			if _, ok := core.CallTo(a, eval); ok {
				atoms = append(atoms, a)
			}
		}
		core.Instrs(fn, func(in ssa.Instruction) {
			call, ok := in.(*ssa.Call)
			if !ok {
				return
			}
			target := call.Common().StaticCallee()
			ti, ok := media[target]
			if !ok || ti >= len(call.Call.Args) {
				return
			}
			if target != eval && len(atoms) > 0 {
				ok2, _ := core.GuardedBy(fn, call.Block(), atoms, func(m map[ssa.Value]bool) bool {
					for _, v := range m {
						if v {
							return true
						}
					}
					return false
				})
				r.Cond(ok2, core.FuncName(fn)+" | nested sheet → "+target.Name(), p.Pos(call.Pos()), "reachable only after evaluateMediaQuery(...) returned true",
					"a path reaches this call without a true evaluateMediaQuery(...) test: rules of a non-matching medium would apply")
			}
			fromParam := core.DerivesFrom(call.Call.Args[ti], func(v ssa.Value) bool { return v == ssa.Value(fn.Params[si]) })
			r.Cond(fromParam, core.FuncName(fn)+" | "+target.Name()+" keeps the device media type", p.Pos(call.Pos()), "the callee receives this function's device media type", "the nested sheet (or the query) is evaluated for a different media type than the document's: its @media blocks are filtered wrongly")
		})
	}

	// media types are ASCII case-insensitive and evaluateMediaQuery compares with ==: every name that enters a query
	// list is lower-cased where the list is built (a call to an ASCII lowering function) or is the constant "all"
	lowered := 0
	isLower := func(v ssa.Value) bool {
		if k, ok := core.ConstStr(v); ok {
			return k == strings.ToLower(k)
		}
		call, ok := v.(*ssa.Call)
		if !ok || call.Call.StaticCallee() == nil {
			return false
		}
		n := call.Call.StaticCallee().Name()
		return n == "AsciiLower" || n == "ToLower"
	}
	for _, fn := range fns {
		if _, member := media[fn]; !member && fn.Name() != "parseMediaQuery" {
			continue
		}
		fn := fn
		core.Instrs(fn, func(in ssa.Instruction) {
			st, ok := in.(*ssa.Store)
			if !ok {
				return
			}
			ia, ok := st.Addr.(*ssa.IndexAddr)
			if !ok {
				return
			}
			sl, ok := ia.X.Type().Underlying().(*types.Slice)
			if !ok {
				return
			}
			if b, isB := sl.Elem().Underlying().(*types.Basic); !isB || b.Kind() != types.String {
				return
			}
			// only lists that reach evaluateMediaQuery or are returned by parseMediaQuery
			reaches := fn.Name() == "parseMediaQuery"
			if !reaches {
				root := ia.X
				if s2, ok := root.(*ssa.Slice); ok {
					root = s2.X
				}
				core.Instrs(fn, func(in2 ssa.Instruction) {
					if call, ok := in2.(*ssa.Call); ok && call.Call.StaticCallee() == eval && len(call.Call.Args) > 0 {
						if call.Call.Args[0] == root || call.Call.Args[0] == ia.X {
							reaches = true
						}
					}
				})
			}
			if !reaches {
				return
			}
			lowered++
			r.Cond(isLower(st.Val), core.FuncName(fn)+" | media type stored in a query list", p.Pos(st.Pos()), "lower-cased where it is stored", "a media type enters the list as it was written: `<style media=\"PRINT\">` never equals the device medium \"print\" and the sheet is ignored, while `@media PRINT` applies")
		})
	}
	if lowered == 0 {
		r.Anchor("query lists built for evaluateMediaQuery")
	}

	// evaluateMediaQuery returns true only for "all" or the device medium
	{
		var trueRets []*ssa.Return
		hasFalse := false
		core.Instrs(eval, func(in ssa.Instruction) {
			if ret, ok := in.(*ssa.Return); ok && len(ret.Results) == 1 {
				if k, ok := ret.Results[0].(*ssa.Const); ok {
					if k.Value != nil && k.Value.String() == "true" {
						trueRets = append(trueRets, ret)
					} else {
						hasFalse = true
					}
				} else {
					trueRets = append(trueRets, ret) // non-constant: must be guarded too
				}
			}
		})
		var atoms []ssa.Value
		for _, a := range core.CondAtoms(eval) {
			if b, ok := a.(*ssa.BinOp); ok && b.Op == token.EQL {
				if s, ok := core.ConstStr(b.Y); ok && s == "all" {
					atoms = append(atoms, a)
				} else if s, ok := core.ConstStr(b.X); ok && s == "all" {
					atoms = append(atoms, a)
				} else if len(eval.Params) == 2 && (b.X == eval.Params[1] || b.Y == eval.Params[1]) {
					atoms = append(atoms, a)
				}
			}
		}
		for _, ret := range trueRets {
			ok2, _ := core.GuardedBy(eval, ret.Block(), atoms, func(m map[ssa.Value]bool) bool {
				for _, v := range m {
					if v {
						return true
					}
				}
				return false
			})
			r.Cond(ok2 && len(atoms) == 2, "evaluateMediaQuery returns true only for \"all\" or the device medium", p.Pos(ret.Pos()),
				"return true is guarded by query==\"all\" || query==deviceMediaType", "a true result is reachable without the query naming \"all\" or the device medium")
		}
		r.Cond(hasFalse, "evaluateMediaQuery can return false", p.Pos(eval.Pos()), "a constant false return exists", "no false return: every medium matches")
	}

	// matcher append only after a nil selector error
	ppd := p.Fn("css/validation", "PreprocessDeclarationsPrelude")
	if ppd == nil {
		r.Anchor("css/validation.PreprocessDeclarationsPrelude")
		return
	}
	matchObj := p.Obj("html/tree", "match")
	appends := 0
	for _, pre := range fns {
		if _, member := media[pre]; !member {
			continue
		}
		core.Instrs(pre, func(in ssa.Instruction) {
			// the store of the appended matcher slice: *matcher = append(*matcher, match{...})
			call, ok := in.(*ssa.Call)
			if !ok {
				return
			}
			b, ok := call.Common().Value.(*ssa.Builtin)
			if !ok || b.Name() != "append" || matchObj == nil {
				return
			}
			sl, ok := call.Type().Underlying().(*types.Slice)
			if !ok || !types.Identical(sl.Elem(), matchObj.Type()) {
				return
			}
			appends++
			// atoms: err != nil where err derives from the PreprocessDeclarationsPrelude call
			var atoms []ssa.Value
			pol := map[ssa.Value]bool{} // true when atom true means "error present"
			for _, a := range core.CondAtoms(pre) {
				bo, ok := a.(*ssa.BinOp)
				if !ok || (bo.Op != token.NEQ && bo.Op != token.EQL) {
					continue
				}
				isNil := func(v ssa.Value) bool { k, ok := v.(*ssa.Const); return ok && k.Value == nil }
				var other ssa.Value
				if isNil(bo.Y) {
					other = bo.X
				} else if isNil(bo.X) {
					other = bo.Y
				} else {
					continue
				}
				if core.DerivesFrom(other, func(v ssa.Value) bool { _, ok := core.CallTo(v, ppd); return ok }) {
					// only the direct extract (not the phi with later errors) identifies the selector error
					if ex, ok := other.(*ssa.Extract); ok {
						if _, ok := core.CallTo(ex.Tuple, ppd); ok {
							atoms = append(atoms, a)
							pol[a] = bo.Op == token.NEQ
						}
					}
				}
			}
			ok2, _ := core.GuardedBy(pre, call.Block(), atoms, func(m map[ssa.Value]bool) bool {
				for a, v := range m {
					if v != pol[a] { // error absent
						return true
					}
				}
				return false
			})
			r.Cond(ok2 && len(atoms) > 0, "matcher append only for rules whose selector parsed", p.Pos(call.Pos()),
				"append(*matcher, …) is reachable only with a nil error from PreprocessDeclarationsPrelude", "a rule with an invalid selector can reach the matcher")
		})
	}
	if appends == 0 {
		r.Anchor("the append to the matcher in the style sheet preprocessing (html/tree)")
	}
}

// c03Nesting: nested rules (CSS Nesting) as preprocessed by validation.PreprocessDeclarationsPrelude.
func c03Nesting(c *core.Check) {
	p := c.Prog
	r := c.Rule("R9", "nested rules: every selector of a nested rule's list is made relative to the parent on its own (the parent is inserted inside a loop over the comma-separated parts of the nested prelude), and the rule's own declarations are ordered before those of its nested rules (the returned list starts with them)", 1)
	fn := p.Fn("css/validation", "PreprocessDeclarationsPrelude")
	if fn == nil {
		r.Anchor("css/validation.PreprocessDeclarationsPrelude")
		return
	}
	// (a) the recursive call receives a prelude assembled in a loop over SplitOnComma(declaration.Prelude)
	var split *ssa.Call
	core.Instrs(fn, func(in ssa.Instruction) {
		if call, ok := in.(*ssa.Call); ok && call.Call.StaticCallee() != nil && call.Call.StaticCallee().Name() == "SplitOnComma" {
			split = call
		}
	})
	perPart := false
	if split != nil {
		// the parent token `is` is appended in a loop ranging over the result of the split
		for _, l := range core.Loops(fn) {
			ranges := false
			for _, in := range l.Header.Instrs {
				if cmp, ok := in.(*ssa.BinOp); ok && cmp.Op == token.LSS {
					if lc, ok := cmp.Y.(*ssa.Call); ok {
						if bi, ok := lc.Call.Value.(*ssa.Builtin); ok && bi.Name() == "len" && lc.Call.Args[0] == ssa.Value(split) {
							ranges = true
						}
					}
				}
			}
			if !ranges {
				continue
			}
			for b := range l.Blocks {
				for _, in := range b.Instrs {
					if call, ok := in.(*ssa.Call); ok {
						if bi, ok := call.Call.Value.(*ssa.Builtin); ok && bi.Name() == "append" {
							for _, op := range core.AppendOperands(call) {
								if core.DerivesFrom(op, func(v ssa.Value) bool {
									c2, ok := v.(*ssa.Call)
									return ok && c2.Call.StaticCallee() != nil && c2.Call.StaticCallee().Name() == "NewFunctionBlock"
								}) {
									perPart = true
								}
							}
						}
					}
				}
			}
		}
	}
	// (a') the parent's prelude only enters a nested prelude wrapped in :is(): a raw copy of a parent selector list
	// `a, b` in front of `p` would read `a, b p`
	rawParent := ""
	if split != nil && len(fn.Params) == 3 {
		parent := fn.Params[2]
		var raw func(v ssa.Value, seen map[ssa.Value]bool) bool
		raw = func(v ssa.Value, seen map[ssa.Value]bool) bool {
			if v == nil || seen[v] {
				return false
			}
			seen[v] = true
			switch x := v.(type) {
			case *ssa.Parameter:
				return x == parent
			case *ssa.Phi:
				for _, e := range x.Edges {
					if raw(e, seen) {
						return true
					}
				}
			case *ssa.Slice:
				return raw(x.X, seen)
			case *ssa.Call:
				if bi, ok := x.Call.Value.(*ssa.Builtin); ok && bi.Name() == "append" {
					if raw(x.Call.Args[0], seen) {
						return true
					}
					if len(x.Call.Args) > 1 && raw(x.Call.Args[1], seen) {
						return true
					}
				}
			}
			return false
		}
		for _, l := range core.Loops(fn) {
			ranges := false
			for _, in := range l.Header.Instrs {
				if cmp, ok := in.(*ssa.BinOp); ok && cmp.Op == token.LSS {
					if lc, ok := cmp.Y.(*ssa.Call); ok {
						if bi, ok := lc.Call.Value.(*ssa.Builtin); ok && bi.Name() == "len" && lc.Call.Args[0] == ssa.Value(split) {
							ranges = true
						}
					}
				}
			}
			if !ranges {
				continue
			}
			for b := range l.Blocks {
				for _, in := range b.Instrs {
					if call, ok := in.(*ssa.Call); ok {
						if bi, ok := call.Call.Value.(*ssa.Builtin); ok && bi.Name() == "append" && len(call.Call.Args) > 1 {
							if raw(call.Call.Args[1], map[ssa.Value]bool{}) || raw(call.Call.Args[0], map[ssa.Value]bool{}) {
								rawParent = p.Pos(call.Pos())
							}
						}
					}
				}
			}
		}
	}
	r.Cond(rawParent == "", "PreprocessDeclarationsPrelude | parent enters nested preludes only inside :is()", p.Pos(fn.Pos()), "no raw copy of the parent prelude in the nested prelude", "the parent's prelude is copied raw into the nested prelude at "+rawParent+": with a parent list `a, b` the nested selector reads `a, b p` instead of `:is(a, b) p`")
	r.Cond(perPart, "PreprocessDeclarationsPrelude | parent inserted per selector of the nested list", p.Pos(fn.Pos()), "the :is(parent) token is appended inside the loop over SplitOnComma(nested prelude)", "the parent is not inserted for each comma-separated selector of a nested rule: `div { p, span {…} }` applies to every span")
	// (b) the returned list starts with the rule's own declarations
	ownFirst := false
	core.Instrs(fn, func(in ssa.Instruction) {
		ret, ok := in.(*ssa.Return)
		if !ok || len(ret.Results) != 2 {
			return
		}
		call, ok := ret.Results[0].(*ssa.Call)
		if !ok {
			return
		}
		bi, ok := call.Call.Value.(*ssa.Builtin)
		if !ok || bi.Name() != "append" {
			return
		}
		// first operand: the literal holding {selectors, ownDecls}; spread operand: the nested rules' list
		if sl, ok := call.Call.Args[0].(*ssa.Slice); ok {
			if _, isAlloc := sl.X.(*ssa.Alloc); isAlloc {
				ownFirst = true
			}
		}
	})
	r.Cond(ownFirst, "PreprocessDeclarationsPrelude | own declarations before nested rules", p.Pos(fn.Pos()), "the result is append([]{own declarations}, nested…)", "the rule's own declarations are placed after those of its nested rules: at equal specificity the parent wins over a later nested rule")
}
