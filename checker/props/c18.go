package props

import (
	"fmt"
	"go/ast"
	"go/constant"
	"go/token"
	"go/types"
	"math/big"
	"sort"
	"strings"

	"golang.org/x/tools/go/ssa"

	"wrverif/core"
)

func init() { register("C18", c18) }

// SVG path data: number of arguments per command and the operations a command emits (SVG 1.1 §8.3)
var c18Arity = map[byte]int64{'M': 2, 'L': 2, 'H': 1, 'V': 1, 'C': 6, 'S': 4, 'Q': 4, 'T': 2, 'A': 7}
var c18Ops = map[byte][]string{
	'Z': {"close"}, 'M': {"lineTo", "moveTo"}, 'L': {"lineTo"}, 'H': {"lineTo"}, 'V': {"lineTo"},
	'C': {"cubicTo"}, 'S': {"cubicTo", "reflectControlCube"}, 'Q': {"quadTo"}, 'T': {"quadTo", "reflectControlQuad"}, 'A': {"addArcFromA"},
}

func c18(c *core.Check) {
	c.Explain = "Thin: structural necessary conditions of SVG path interpretation and reference handling, decided on the syntax tree and SSA form: (R1) in pathParser.addSeg every command letter has a case, each case checks the SVG argument count of its command (M2 L2 H1 V1 C6 S4 Q4 T2 A7, Z none), every lower-case letter switches to relative coordinates before sharing its upper-case sibling's code, each command emits the path operations SVG assigns to it, Z moves the current point back to the sub-path start, and the smooth commands reflect the control point only after a command of their own family; (R2) <use> (by id and by URL) and href inheritance between definitions are cycle-guarded. The geometry itself (arc conversion, reflections, quadratic elevation, viewBox arithmetic, basic shapes) is not decided; fixed-position reads of the SVG attribute parsers are decided under C07. Also decided by symbolic folding: (R4) reflection, quadratic elevation and the ellipse parameterisation in closed form; (R5) the arc centre and radii correction of SVG F.6.5/F.6.6; (R6) rect and ellipse outlines against a recording canvas.  (R7) helpers handed one argument group read that group only; (R8) viewBox / preserveAspectRatio folded for none/meet/slice and the nine alignments."
	p := c.Prog
	r1 := c.Rule("R1", "pathParser.addSeg: argument count, relative/absolute pairing and emitted operations per path command are those of SVG 1.1 §8.3; Z returns the current point to the sub-path start; smooth commands reflect the previous control point only after a command of their own family", 49)
	fn := p.Lookup("svg.(*pathParser).addSeg")
	body := p.Body(fn)
	info := p.Info("svg")
	if fn == nil || body == nil || info == nil {
		r1.Anchor("svg.(*pathParser).addSeg")
		return
	}
	var sw *core.SwitchInfo
	for _, s := range core.Switches(body) {
		if id, ok := s.Tag.(*ast.Ident); ok && id.Name == "op" && len(s.Cases) > 10 {
			sw = s
		}
	}
	if sw == nil {
		// identify by size: the switch with the most clauses
		for _, s := range core.Switches(body) {
			if sw == nil || len(s.Cases) > len(sw.Cases) {
				sw = s
			}
		}
	}
	if sw == nil || len(sw.Cases) < 10 {
		r1.Anchor("addSeg | switch over the command letter")
		return
	}
	// letter -> clause index
	clauseOf := map[byte]int{}
	for i, cs := range sw.Cases {
		for _, e := range cs {
			if v := core.ConstOf(info, e); v != nil && v.Kind() == constant.Int {
				n, _ := constant.Int64Val(v)
				clauseOf[byte(n)] = i
			}
		}
	}
	endsWithFallthrough := func(stmts []ast.Stmt) bool {
		if len(stmts) == 0 {
			return false
		}
		b, ok := stmts[len(stmts)-1].(*ast.BranchStmt)
		return ok && b.Tok.String() == "fallthrough"
	}
	callsIn := func(stmts []ast.Stmt) map[string][]*ast.CallExpr {
		out := map[string][]*ast.CallExpr{}
		for _, s := range stmts {
			ast.Inspect(s, func(n ast.Node) bool {
				if call, ok := n.(*ast.CallExpr); ok {
					if sel, ok := call.Fun.(*ast.SelectorExpr); ok {
						out[sel.Sel.Name] = append(out[sel.Sel.Name], call)
					}
				}
				return true
			})
		}
		return out
	}
	pos := func(i int) string { return p.Pos(sw.Cases[i][0].Pos()) }
	for _, up := range []byte("ZMLHVCSQTA") {
		lo := up + 32
		iu, hasU := clauseOf[up]
		il, hasL := clauseOf[lo]
		if !hasU || !hasL {
			r1.Fail(fmt.Sprintf("addSeg | command %c/%c has a case", up, lo), p.Pos(sw.Pos), "no case for this command letter: the segment is ignored")
			continue
		}
		r1.OK(fmt.Sprintf("addSeg | command %c/%c has a case", up, lo), pos(iu), "both letters handled")
		calls := callsIn(sw.Bodies[iu])
		// argument count
		if up == 'Z' {
			// L != 0 is an error
			okZ := false
			for _, s := range sw.Bodies[iu] {
				if ifs, ok := s.(*ast.IfStmt); ok {
					if be, ok := ifs.Cond.(*ast.BinaryExpr); ok && be.Op.String() == "!=" {
						if v := core.ConstOf(info, be.Y); v != nil && v.String() == "0" {
							okZ = true
						}
					}
				}
			}
			r1.Cond(okZ, "addSeg | Z takes no argument", pos(iu), "arguments after Z are rejected", "Z does not reject arguments")
		} else {
			hs := calls["hasSetsOrMore"]
			got := int64(-1)
			if len(hs) == 1 && len(hs[0].Args) == 2 {
				if v := core.ConstOf(info, hs[0].Args[0]); v != nil {
					got, _ = constant.Int64Val(v)
				}
			}
			r1.Cond(got == c18Arity[up], fmt.Sprintf("addSeg | %c takes groups of %d numbers", up, c18Arity[up]), pos(iu), fmt.Sprintf("hasSetsOrMore(%d, …)", got), fmt.Sprintf("hasSetsOrMore checks groups of %d numbers, SVG gives %c %d", got, up, c18Arity[up]))
		}
		// relative pairing
		if up == 'Z' {
			r1.Cond(il == iu || (endsWithFallthrough(sw.Bodies[il]) && il+1 == iu), "addSeg | z is Z", pos(il), "same code", "z does not share Z's code")
		} else if il != iu {
			lb := sw.Bodies[il]
			rel := false
			for _, s := range lb {
				switch x := s.(type) {
				case *ast.AssignStmt:
					if id, ok := x.Lhs[0].(*ast.Ident); ok && id.Name == "rel" {
						if v, ok := x.Rhs[0].(*ast.Ident); ok && v.Name == "true" {
							rel = true
						}
					}
				case *ast.ExprStmt:
					if call, ok := x.X.(*ast.CallExpr); ok {
						if sel, ok := call.Fun.(*ast.SelectorExpr); ok && sel.Sel.Name == "valsToAbs" && len(call.Args) == 1 {
							// h: relative to currentX, v: relative to currentY
							want := map[byte]string{'H': "currentX", 'V': "currentY"}[up]
							if a, ok := call.Args[0].(*ast.SelectorExpr); ok && a.Sel.Name == want {
								rel = true
							}
						}
					}
				}
			}
			adjacent := il+1 == iu
			r1.Cond(rel && endsWithFallthrough(lb) && adjacent, fmt.Sprintf("addSeg | %c is %c with relative coordinates", lo, up), pos(il), "switches to relative coordinates and falls through to the upper-case case", fmt.Sprintf("relative mode set: %v; falls through: %v; directly before the upper-case case: %v", rel, endsWithFallthrough(lb), adjacent))
		} else if up == 'A' {
			// a and A share one clause: the end point is made absolute under op == 'a'
			relA := false
			for _, s := range sw.Bodies[iu] {
				ast.Inspect(s, func(n ast.Node) bool {
					if ifs, ok := n.(*ast.IfStmt); ok {
						if be, ok := ifs.Cond.(*ast.BinaryExpr); ok && be.Op.String() == "==" {
							if v := core.ConstOf(info, be.Y); v != nil {
								if k, _ := constant.Int64Val(v); k == 'a' {
									txt := p.NodeText(ifs.Body)
									relA = strings.Contains(txt, "currentX") && strings.Contains(txt, "currentY")
								}
							}
						}
					}
					return true
				})
			}
			r1.Cond(relA, "addSeg | a is A with a relative end point", pos(iu), "the end point is offset by the current point under op == 'a'", "no offset of the end point by the current point under op == 'a'")
		}
		// emitted operations
		var got []string
		for name := range calls {
			switch name {
			case "close", "moveTo", "lineTo", "cubicTo", "quadTo", "addArcFromA", "reflectControlCube", "reflectControlQuad":
				got = append(got, name)
			}
		}
		sort.Strings(got)
		want := append([]string{}, c18Ops[up]...)
		sort.Strings(want)
		r1.Cond(strings.Join(got, " ") == strings.Join(want, " "), fmt.Sprintf("addSeg | %c emits %s", up, strings.Join(want, "+")), pos(iu), strings.Join(got, " "), fmt.Sprintf("emits %v, SVG gives %v", got, want))
	}
	// H keeps currentY, V keeps currentX
	for up, keep := range map[byte]string{'H': "currentY", 'V': "currentX"} {
		if iu, ok := clauseOf[up]; ok {
			calls := callsIn(sw.Bodies[iu])
			okKeep := false
			for _, call := range calls["lineTo"] {
				for ai, a := range call.Args {
					if sel, ok := a.(*ast.SelectorExpr); ok && sel.Sel.Name == keep {
						okKeep = (up == 'H' && ai == 1) || (up == 'V' && ai == 0)
					}
				}
			}
			r1.Cond(okKeep, fmt.Sprintf("addSeg | %c keeps %s", up, keep), pos(iu), "the other coordinate is the current one", "the line does not keep the current coordinate on the other axis")
		}
	}
	// Z: current point back to the sub-path start
	if iz, ok := clauseOf['Z']; ok {
		txt := ""
		for _, s := range sw.Bodies[iz] {
			txt += p.NodeText(s) + "\n"
		}
		_ = txt
		// decided on SSA: stores into currentX/Y of loads of pathStartX/Y
		okZ := c18StoresField(fn, "currentX", "pathStartX") && c18StoresField(fn, "currentY", "pathStartY")
		r1.Cond(okZ, "addSeg | Z returns to the sub-path start", pos(iz), "currentX/Y are assigned pathStartX/Y", "the current point is not moved back to the start of the sub-path after closepath")
	}
	// reflection families
	for name, fam := range map[string]string{"reflectControlQuad": "QTqt", "reflectControlCube": "CScs"} {
		rf := p.Lookup("svg.(*pathParser)." + name)
		rb := p.Body(rf)
		if rf == nil || rb == nil {
			r1.Anchor("svg.(*pathParser)." + name)
			continue
		}
		var letters []byte
		for _, s := range core.Switches(rb) {
			for i, cs := range s.Cases {
				if !strings.Contains(p.NodeText(&ast.BlockStmt{List: s.Bodies[i]}), "reflection") {
					continue
				}
				for _, e := range cs {
					if v := core.ConstOf(info, e); v != nil {
						n, _ := constant.Int64Val(v)
						letters = append(letters, byte(n))
					}
				}
			}
		}
		sort.Slice(letters, func(i, j int) bool { return letters[i] < letters[j] })
		r1.Cond(string(letters) == fam, "svg.(*pathParser)."+name+" | family", p.Pos(rf.Pos()), "reflects after "+string(letters), fmt.Sprintf("reflects the control point after %q, SVG gives %q (otherwise the control point is the current point)", string(letters), fam))
	}

	// smooth commands with several argument groups: each group reflects the control point of the previous one
	for _, up := range []byte("ST") {
		if iu, ok := clauseOf[up]; ok {
			inLoop := false
			for _, st := range sw.Bodies[iu] {
				if fs, ok := st.(*ast.ForStmt); ok {
					txt := p.NodeText(fs.Body)
					if strings.Contains(txt, "c.lastKey = op") || strings.Contains(txt, "lastKey =") {
						inLoop = true
					}
				}
			}
			r1.Cond(inLoop, fmt.Sprintf("addSeg | %c records itself as the previous command inside its loop", up), pos(iu), "lastKey is set in the loop over argument groups", "lastKey is only set after the loop: the second and later argument groups of one command do not reflect the previous control point")
		}
	}
	// viewBox mapping: the origin of the viewBox is translated with the scale actually applied
	if rt := p.Lookup("svg.preserveAspectRatio.resolveTransforms"); rt == nil {
		r1.Anchor("svg.preserveAspectRatio.resolveTransforms")
	} else {
		nMul := 0
		core.Instrs(rt, func(in ssa.Instruction) {
			mul, ok := in.(*ssa.BinOp)
			if !ok || mul.Op.String() != "*" {
				return
			}
			isOrigin := func(v ssa.Value) string {
				u, ok := v.(*ssa.UnOp)
				if !ok {
					return ""
				}
				if u.Op.String() == "-" { // -viewbox.X
					u, ok = u.X.(*ssa.UnOp)
					if !ok {
						return ""
					}
				}
				fa, ok := u.X.(*ssa.FieldAddr)
				if !ok {
					return ""
				}
				if n := core.FieldName(fa); n == "X" || n == "Y" {
					return n
				}
				return ""
			}
			var scale ssa.Value
			axis := ""
			if a := isOrigin(mul.X); a != "" {
				axis, scale = a, mul.Y
			} else if a := isOrigin(mul.Y); a != "" {
				axis, scale = a, mul.X
			} else {
				return
			}
			nMul++
			final := core.DerivesFrom(scale, func(v ssa.Value) bool {
				call, ok := v.(*ssa.Call)
				if !ok || call.Call.StaticCallee() == nil {
					return false
				}
				nm := call.Call.StaticCallee().Name()
				return nm == "MinF" || nm == "MaxF"
			})
			r1.Cond(final, "resolveTransforms | viewBox "+axis+" origin uses the final scale", p.Pos(mul.Pos()), "multiplied by the scale after the meet/slice step", "the viewBox origin is multiplied by the scale computed before the meet/slice step: the content is shifted when the aspect ratios differ")
		})
		if nMul < 2 {
			r1.Unknown("resolveTransforms | viewBox origin", p.Pos(rt.Pos()), fmt.Sprintf("%d products with the viewBox origin found, 2 expected", nMul))
		}
	}

	// ---- R2 reference cycles (same decisions as C01.R3 for the SVG instances)
	c18SubpathStart(c, r1)
	c18CommandLetters(c, r1)
	c18OpenAndRadii(c, r1)
	r2 := c.Rule("R2", "references cannot be followed forever: <use> resolution (by id and by URL) and href inheritance between definitions are cycle-guarded at parse time, and while drawing, the content of a marker, clip path or mask is drawn only after the definition was recorded as being drawn (a reference to a definition in progress is skipped)", 5)
	if ru := p.Lookup("svg.(*svgContext).resolveUse"); ru == nil {
		r2.Anchor("svg.(*svgContext).resolveUse")
	} else {
		ok, why := core.GuardedRecursion(p, ru, func(s ssa.Value) bool {
			u, isLoad := s.(*ssa.UnOp)
			if !isLoad {
				return false
			}
			fa, isField := u.X.(*ssa.FieldAddr)
			return isField && core.FieldName(fa) == "inUseIDs"
		})
		r2.Cond(ok, "svg.(*svgContext).resolveUse | processNode(&useTarget)", p.Pos(ru.Pos()), why, why)
	}
	if ie := p.Lookup("svg.(*svgContext).inheritElement"); ie == nil {
		r2.Anchor("svg.(*svgContext).inheritElement")
	} else {
		ok, why := core.DeleteBeforeRecursion(p, ie, "href")
		r2.Cond(ok, "svg.(*svgContext).inheritElement | inheritElement(parent)", p.Pos(ie.Pos()), why, why)
	}
	c18DrawCycles(c, r2)
	c18Attributes(c)
	c18Geometry(c)
	c18ArcCenter(c)
	c18Shapes(c)
	c18Groups(c)
	c18ViewBox(c)
	c18ImplicitViewBox(c)
	c18PercentReferences(c)
	c18VertexDirections(c)
	c18ExponentSigns(c)
	c18AttributeVocabulary(c)
	c18LongestUnit(c)
	c18ListSeparators(c)
	c18PositiveRadii(c)
	c18ViewBoxSize(c)
	c18MissingSizeIsAuto(c)
	c18UseWithoutHref(c)
	c18PathIsCopied(c)
	r3 := c.Rule("R3", "no call passes two same-typed arguments under each other's parameter names (swapped arguments): every pair of arguments named after the callee's parameters is aligned with them", 96)
	argNameRule(c, r3, "svg", nil, 90)
}

// c18StoresField: fn stores a load of field src (of its receiver) into field dst.
func c18StoresField(fn *ssa.Function, dst, src string) bool {
	found := false
	core.Instrs(fn, func(in ssa.Instruction) {
		st, ok := in.(*ssa.Store)
		if !ok {
			return
		}
		fa, ok := st.Addr.(*ssa.FieldAddr)
		if !ok || core.FieldName(fa) != dst {
			return
		}
		if u, ok := st.Val.(*ssa.UnOp); ok {
			if fb, ok := u.X.(*ssa.FieldAddr); ok && core.FieldName(fb) == src {
				found = true
			}
		}
	})
	return found
}

// c18Geometry folds the two closed-form geometry helpers of the path interpreter into polynomials.
func c18Geometry(c *core.Check) {
	p := c.Prog
	r := c.Rule("R4", "path geometry in closed form: reflection(p, r) = 2p − r on both coordinates (the control point of a smooth segment), and quadraticToCubic elevates a quadratic Bézier exactly: CP1 = P0 + 2/3 (P1 − P0), CP2 = P2 + 2/3 (P1 − P2), end point P2; ellipsePointAt is c + R(θ)·(a cos η, b sin η) and ellipsePrime its derivative in η", 2)
	sym := core.SymP
	twoThird := core.PolyConst(big.NewRat(2, 3))
	if fn := p.Fn("svg", "reflection"); fn == nil {
		r.Anchor("svg.reflection")
	} else {
		f := &core.Folder{MaxDepth: 1}
		res, err := f.Fold(fn, []core.AV{sym("px"), sym("py"), sym("rx"), sym("ry")})
		ok := err == nil && len(res) == 2
		if ok {
			x, okx := res[0].(core.Poly)
			y, oky := res[1].(core.Poly)
			wantX := sym("px").Mul(core.Num(2)).Add(sym("rx").Neg())
			wantY := sym("py").Mul(core.Num(2)).Add(sym("ry").Neg())
			ok = okx && oky && x.Equal(wantX) && y.Equal(wantY)
		}
		got := ""
		if err == nil {
			for _, v := range res {
				got += core.AVString(v) + " "
			}
		}
		r.Cond(ok, "svg.reflection", p.Pos(fn.Pos()), "(2·px − rx, 2·py − ry)", fmt.Sprintf("folds to %s(error: %v), SVG gives (2·px − rx, 2·py − ry)", got, err))
	}
	// the parameterised ellipse and its derivative, with cos η / sin η uninterpreted
	for _, e := range []struct {
		name string
		args []string
		want func(s func(string) core.Poly) [2]core.Poly
	}{
		{"ellipsePointAt", []string{"a", "b", "sinθ", "cosθ", "η", "cx", "cy"}, func(s func(string) core.Poly) [2]core.Poly {
			ac, bs := s("a").Mul(s("cos(η)")), s("b").Mul(s("sin(η)"))
			return [2]core.Poly{s("cx").Add(ac.Mul(s("cosθ"))).Add(bs.Mul(s("sinθ")).Neg()), s("cy").Add(ac.Mul(s("sinθ"))).Add(bs.Mul(s("cosθ")))}
		}},
		{"ellipsePrime", []string{"a", "b", "sinθ", "cosθ", "η"}, func(s func(string) core.Poly) [2]core.Poly {
			as, bc := s("a").Mul(s("sin(η)")), s("b").Mul(s("cos(η)"))
			return [2]core.Poly{as.Mul(s("cosθ")).Neg().Add(bc.Mul(s("sinθ")).Neg()), as.Mul(s("sinθ")).Neg().Add(bc.Mul(s("cosθ")))}
		}},
	} {
		fn := p.Fn("svg", e.name)
		if fn == nil || len(fn.Params) != len(e.args) {
			r.Anchor("svg." + e.name)
			continue
		}
		var args []core.AV
		for _, a := range e.args {
			args = append(args, sym(a))
		}
		f := &core.Folder{MaxDepth: 1}
		res, err := f.Fold(fn, args)
		want := e.want(sym)
		ok := err == nil && len(res) == 2
		got := ""
		if ok {
			for i := 0; i < 2; i++ {
				g, isP := res[i].(core.Poly)
				ok = ok && isP && g.Equal(want[i])
				got += core.AVString(res[i]) + " "
			}
		}
		r.Cond(ok, "svg."+e.name, p.Pos(fn.Pos()), "("+want[0].String()+", "+want[1].String()+")", fmt.Sprintf("folds to %s(error: %v); the ellipse c + R(θ)·(a cos η, b sin η) gives (%s, %s)", got, err, want[0].String(), want[1].String()))
	}
	if fn := p.Fn("svg", "quadraticToCubic"); fn == nil {
		r.Anchor("svg.quadraticToCubic")
	} else {
		f := &core.Folder{MaxDepth: 1}
		res, err := f.Fold(fn, []core.AV{sym("x0"), sym("y0"), sym("x1"), sym("y1"), sym("x2"), sym("y2")})
		var diffs []string
		if err != nil || len(res) != 1 {
			diffs = append(diffs, fmt.Sprintf("could not be folded: %v", err))
		} else {
			cp := func(a, b string) core.Poly { // a + 2/3 (b - a)
				return sym(a).Add(sym(b).Add(sym(a).Neg()).Mul(twoThird))
			}
			want := [3][2]core.Poly{{cp("x0", "x1"), cp("y0", "y1")}, {cp("x2", "x1"), cp("y2", "y1")}, {sym("x2"), sym("y2")}}
			agg, ok := res[0].(core.Agg)
			if !ok || len(agg.E) != 3 {
				diffs = append(diffs, "result is not three points: "+core.AVString(res[0]))
			} else {
				for i := 0; i < 3; i++ {
					pt, ok := agg.E[i].(core.Agg)
					if !ok || len(pt.E) != 2 {
						diffs = append(diffs, fmt.Sprintf("point %d: %s", i, core.AVString(agg.E[i])))
						continue
					}
					for j := 0; j < 2; j++ {
						g, ok := pt.E[j].(core.Poly)
						if !ok || !g.Near(want[i][j], big.NewRat(1, 1000000)) {
							diffs = append(diffs, fmt.Sprintf("control point %d coordinate %d = %s, exact elevation gives %s", i+1, j, core.AVString(pt.E[j]), want[i][j].String()))
						}
					}
				}
			}
		}
		r.Cond(len(diffs) == 0, "svg.quadraticToCubic", p.Pos(fn.Pos()), "CP1 = P0 + 2/3 (P1 − P0), CP2 = P2 + 2/3 (P1 − P2), P2", strings.Join(diffs, "; "))
	}
}

// c18Groups: a helper that is handed one argument group of a repeated command reads that group only.
func c18Groups(c *core.Check) {
	p := c.Prog
	r := c.Rule("R7", "implicit repetition: a method of pathParser that receives the argument group of the current repetition as a parameter reads the coordinates through that parameter only — never through the parser's whole argument list, which would draw every repetition with the first group's values; and addSeg hands addArcFromA the list re-sliced at the loop index", 1)
	n := 0
	for _, fn := range p.FuncsOfPkg("svg") {
		if fn.Signature.Recv() == nil || len(fn.Params) < 2 || !strings.Contains(fn.Params[0].Type().String(), "pathParser") {
			continue
		}
		var group *ssa.Parameter
		for _, par := range fn.Params[1:] {
			if sl, ok := par.Type().Underlying().(*types.Slice); ok {
				if b, ok := sl.Elem().Underlying().(*types.Basic); ok && b.Info()&types.IsFloat != 0 {
					group = par
				}
			}
		}
		if group == nil {
			continue
		}
		n++
		var bad []string
		core.Instrs(fn, func(in ssa.Instruction) {
			if fa, ok := in.(*ssa.FieldAddr); ok && fa.X == ssa.Value(fn.Params[0]) && core.FieldName(fa) == "points" {
				// a read of the whole list
				if refs := fa.Referrers(); refs != nil {
					for _, ref := range *refs {
						if u, ok := ref.(*ssa.UnOp); ok && u.Op == token.MUL {
							bad = append(bad, p.Pos(u.Pos()))
						}
					}
				}
			}
		})
		r.Cond(len(bad) == 0, core.FuncName(fn)+" | reads its group parameter "+group.Name(), p.Pos(fn.Pos()), "no read of the parser's whole argument list", "reads the parser's whole argument list at "+strings.Join(bad, ", ")+" although it is handed the current group as "+group.Name())
	}
	if n == 0 {
		r.Anchor("methods of svg.pathParser with a coordinate group parameter")
	}
	// the caller re-slices at the loop index
	if addSeg := p.Method("svg", "pathParser", "addSeg"); addSeg == nil {
		r.Anchor("svg.(*pathParser).addSeg")
	} else {
		found := false
		core.Instrs(addSeg, func(in ssa.Instruction) {
			call, ok := in.(*ssa.Call)
			if !ok || call.Call.StaticCallee() == nil || call.Call.StaticCallee().Name() != "addArcFromA" {
				return
			}
			found = true
			sl, ok := call.Call.Args[1].(*ssa.Slice)
			okIdx := false
			if ok && sl.Low != nil {
				_, okIdx = sl.Low.(*ssa.Phi)
			}
			r.Cond(okIdx, "svg.(*pathParser).addSeg | addArcFromA(c.points[i:])", p.Pos(call.Pos()), "the list re-sliced at the loop index", "addArcFromA is not handed the argument list re-sliced at the index of the repetition loop")
		})
		if !found {
			r.Anchor("call of addArcFromA in addSeg")
		}
	}
}

// c18DrawCycles: drawing a referenced definition cannot recurse forever.
func c18DrawCycles(c *core.Check, r *core.Rule) {
	p := c.Prog
	dn := p.Method("svg", "SVGImage", "drawNode")
	if dn == nil {
		r.Anchor("svg.(*SVGImage).drawNode")
		return
	}
	sites, _ := p.CallSitesOf(dn)
	// a site is guarded when, in its function, a call of (*SVGImage).enter whose result is false keeps control away
	guardedIn := func(fn *ssa.Function, at *ssa.BasicBlock) bool {
		ok := false
		core.Instrs(fn, func(in ssa.Instruction) {
			call, isCall := in.(*ssa.Call)
			if !isCall || call.Call.StaticCallee() == nil || call.Call.StaticCallee().Name() != "enter" {
				return
			}
			reach := core.ForwardReach(fn.Blocks[0], map[ssa.Value]bool{call: false}, nil)
			if !reach[at] {
				ok = true
			}
		})
		return ok
	}
	n := 0
	for _, cs := range sites {
		caller := cs.Parent()
		if core.Rel(caller.Pkg.Pkg.Path()) != "svg" {
			continue
		}
		arg := cs.Common().Args[2]
		key := core.FuncName(caller) + " | drawNode(" + exprName(arg) + ")"
		// structural descent: a child of the node being drawn (range over node.children)
		isChild := core.DerivesFrom(arg, func(v ssa.Value) bool {
			ia, ok := v.(*ssa.IndexAddr)
			return ok && core.IsFieldNamed(ia.X, "children")
		})
		root := caller
		for root.Parent() != nil {
			root = root.Parent()
		}
		switch {
		case root.Name() == "Draw":
			continue // the entry point
		case root.Name() == "drawNode" && isChild:
			n++
			r.OK(key+" | children of the node", p.Pos(cs.Pos()), "structural descent into the finite tree")
			continue
		case root.Name() == "draw" && core.DerivesFrom(arg, func(v ssa.Value) bool { return core.IsFieldNamed(v, "target") }):
			n++
			r.OK(key+" | <use> target", p.Pos(cs.Pos()), "the target was expanded into the tree at parse time under the in-use set (resolveUse, above)")
			continue
		}
		n++
		ok := guardedIn(caller, cs.Block())
		how := "reached only after enter(…) returned true in " + caller.Name()
		if !ok && caller.Parent() != nil {
			// a closure (OnNewStack): the guard stands where the closure is created
			par := caller.Parent()
			core.Instrs(par, func(in ssa.Instruction) {
				if mc, isMC := in.(*ssa.MakeClosure); isMC && mc.Fn == ssa.Value(caller) && guardedIn(par, mc.Block()) {
					ok, how = true, "the closure is created only after enter(…) returned true in "+par.Name()
				}
			})
		}
		if !ok {
			// guarded at every call site of the enclosing function
			fsites, dyn := p.CallSitesOf(root)
			if !dyn && len(fsites) > 0 {
				all := true
				for _, fs := range fsites {
					if !guardedIn(fs.Parent(), fs.Block()) {
						all = false
					}
				}
				if all {
					ok, how = true, fmt.Sprintf("every call of %s (%d) is reached only after enter(…) returned true", root.Name(), len(fsites))
				}
			}
		}
		r.Cond(ok, key, p.Pos(cs.Pos()), how, "the content of a referenced definition (marker, clip path, mask) is drawn without recording that it is being drawn: a definition that references itself is drawn until the stack is exhausted")
	}
	if n < 3 {
		r.Anchor("call sites of drawNode on referenced definitions")
	}
}

// c18Attributes: a shape's field is parsed from the attribute of the same name.
func c18Attributes(c *core.Check) {
	p := c.Prog
	r := c.Rule("R9", "shape attributes: in the constructors of the SVG shapes, the field F of the shape is parsed from the attribute named F whenever that attribute is present (defaults from a sibling attribute — ry from rx, rx from r — only replace a missing one); decided by replaying the emptiness tests with every attribute present", 23)
	n := 0
	for _, fn := range p.FuncsOfPkg("svg") {
		if fn.Parent() != nil || !strings.HasPrefix(fn.Name(), "new") {
			continue
		}
		fn := fn
		ev := &core.CondEval{Leaf: func(v ssa.Value) (bool, bool) {
			b, ok := v.(*ssa.BinOp)
			if !ok || (b.Op != token.EQL && b.Op != token.NEQ) {
				return false, false
			}
			if s, isS := core.ConstStr(b.Y); isS && s == "" {
				return b.Op == token.NEQ, true // every attribute is present
			}
			return false, false
		}}
		core.Instrs(fn, func(in ssa.Instruction) {
			st, ok := in.(*ssa.Store)
			if !ok {
				return
			}
			fa, ok := st.Addr.(*ssa.FieldAddr)
			if !ok {
				return
			}
			if _, isAlloc := fa.X.(*ssa.Alloc); !isAlloc {
				return
			}
			ex, ok := st.Val.(*ssa.Extract)
			if !ok || ex.Index != 0 {
				return
			}
			call, ok := ex.Tuple.(*ssa.Call)
			if !ok || call.Call.StaticCallee() == nil || call.Call.StaticCallee().Name() != "parseValue" || len(call.Call.Args) != 1 {
				return
			}
			field := core.FieldName(fa)
			arg := call.Call.Args[0]
			for i := 0; i < 6; i++ {
				phi, isPhi := arg.(*ssa.Phi)
				if !isPhi {
					break
				}
				sel, ok := ev.Select(phi)
				if !ok {
					break
				}
				arg = sel
			}
			key := ""
			switch x := arg.(type) {
			case *ssa.Lookup:
				key, _ = core.ConstStr(x.Index)
			case *ssa.Extract:
				if lk, ok := x.Tuple.(*ssa.Lookup); ok {
					key, _ = core.ConstStr(lk.Index)
				}
			}
			if key == "" {
				return // not read from an attribute map directly (decided elsewhere or not at all)
			}
			n++
			norm := func(s string) string { return strings.ToLower(strings.ReplaceAll(s, "-", "")) }
			r.Cond(norm(key) == norm(field), core.FuncName(fn)+" | "+field, p.Pos(st.Pos()), "parsed from the attribute "+key, "the field "+field+" is parsed from the attribute `"+key+"` even when its own attribute is present")
		})
	}
	if n == 0 {
		r.Anchor("svg shape constructors: fields parsed with parseValue from node.attrs")
	}
}

// c18SubpathStart: closepath returns to the point given by the moveto's first pair.
func c18SubpathStart(c *core.Check, r *core.Rule) {
	p := c.Prog
	fn := p.Lookup("svg.(*pathParser).addSeg")
	if fn == nil {
		return
	}
	n := 0
	core.Instrs(fn, func(in ssa.Instruction) {
		st, ok := in.(*ssa.Store)
		if !ok {
			return
		}
		fa, ok := st.Addr.(*ssa.FieldAddr)
		if !ok {
			return
		}
		name := core.FieldName(fa)
		want := int64(-1)
		switch name {
		case "pathStartX":
			want = 0
		case "pathStartY":
			want = 1
		default:
			return
		}
		n++
		got := int64(-2)
		if ld, ok := st.Val.(*ssa.UnOp); ok {
			if ia, ok := ld.X.(*ssa.IndexAddr); ok && core.IsFieldNamed(ia.X, "points") {
				if k, isK := core.ConstInt(ia.Index); isK {
					got = k
				}
			}
		}
		r.Cond(got == want, "addSeg | M records "+name+" from its first pair", p.Pos(st.Pos()), fmt.Sprintf("c.points[%d]", want), "the start of the sub-path is not the moveto's own pair (extra pairs of a moveto are implicit linetos): closepath returns to the wrong point")
	})
	if n == 0 {
		r.Anchor("addSeg: stores to pathStartX / pathStartY")
	}
}

// c18CommandLetters: which bytes of path data start a command.
func c18CommandLetters(c *core.Check, r *core.Rule) {
	p := c.Prog
	fn := p.Lookup("svg.(*pathParser).parsePath")
	if fn == nil {
		r.Anchor("svg.(*pathParser).parsePath")
		return
	}
	body := p.Body(fn)
	if body == nil {
		r.Anchor("body of parsePath")
		return
	}
	// the condition of the first if inside the range loop, evaluated for every byte
	var cond ast.Expr
	var varName string
	ast.Inspect(body, func(n ast.Node) bool {
		rs, ok := n.(*ast.RangeStmt)
		if !ok || cond != nil {
			return true
		}
		if id, ok := rs.Value.(*ast.Ident); ok {
			varName = id.Name
		}
		for _, st := range rs.Body.List {
			if ifs, ok := st.(*ast.IfStmt); ok && cond == nil {
				cond = ifs.Cond
			}
		}
		return true
	})
	if cond == nil || varName == "" {
		r.Anchor("parsePath: the test that recognises a command letter")
		return
	}
	var wrong []string
	for b := int64(0); b < 256; b++ {
		got, ok := evalPred(p, "svg", cond, varName, b)
		if !ok {
			r.Unknown("parsePath | command letters", p.Pos(cond.Pos()), "the test could not be evaluated")
			return
		}
		letter := (b >= 'a' && b <= 'z') || (b >= 'A' && b <= 'Z')
		want := letter && b != 'e' && b != 'E'
		if got != want {
			wrong = append(wrong, fmt.Sprintf("%q→%v", rune(b), got))
		}
	}
	r.Cond(len(wrong) == 0, "parsePath | command letters", p.Pos(cond.Pos()), "every ASCII letter except the exponent markers e and E", "the test, evaluated for every byte, differs from `a letter other than e/E` on "+strings.Join(wrong, " ")+": a number such as 1E1 is cut at the E")
}

// c18OpenAndRadii: the sub-path state after drawing commands, and the out-of-range radii of arcs (SVG 1.1 F.6.2).
func c18OpenAndRadii(c *core.Check, r *core.Rule) {
	p := c.Prog
	fn := p.Lookup("svg.(*pathParser).addSeg")
	if fn != nil {
		// every drawing helper called by addSeg is followed, before the function returns normally, by inPath = true
		isOpen := func(in ssa.Instruction) bool {
			st, ok := in.(*ssa.Store)
			if !ok {
				return false
			}
			fa, ok := st.Addr.(*ssa.FieldAddr)
			if !ok || core.FieldName(fa) != "inPath" {
				return false
			}
			k, isK := st.Val.(*ssa.Const)
			return isK && k.Value != nil && k.Value.String() == "true"
		}
		isRet := func(in ssa.Instruction) bool {
			ret, ok := in.(*ssa.Return)
			if !ok || len(ret.Results) != 1 {
				return false
			}
			k, isK := ret.Results[0].(*ssa.Const)
			return isK && k.Value == nil // return nil
		}
		n, bad := 0, ""
		core.Instrs(fn, func(in ssa.Instruction) {
			call, ok := in.(*ssa.Call)
			if !ok || call.Call.StaticCallee() == nil {
				return
			}
			switch call.Call.StaticCallee().Name() {
			case "lineTo", "cubicTo", "quadTo", "addArcFromA":
				n++
				if !core.PassBetween(in, isOpen, isRet) {
					bad = p.Pos(call.Pos())
				}
			}
		})
		r.Cond(bad == "" && n > 0, "addSeg | drawing commands open the sub-path", p.Pos(fn.Pos()), fmt.Sprintf("%d drawing calls, each followed by inPath = true before the segment is accepted", n), "a drawing command (at "+bad+") can return without marking the sub-path as open: after `… Z L 20,20 … Z` the second closepath emits nothing")
	}
	aa := p.Lookup("svg.(*pathParser).addArcFromA")
	if aa == nil {
		r.Anchor("svg.(*pathParser).addArcFromA")
		return
	}
	// zero radius: a test of the radii against 0 leads to lineTo and away from addArc
	var zeroTests []ssa.Value
	for _, a := range core.CondAtoms(aa) {
		b, ok := a.(*ssa.BinOp)
		if !ok || (b.Op != token.EQL && b.Op != token.NEQ) {
			continue
		}
		if f, isF := core.ConstFloat(b.Y); isF && f == 0 {
			zeroTests = append(zeroTests, a)
		}
	}
	lineBlocks, arcBlocks := map[*ssa.BasicBlock]bool{}, map[*ssa.BasicBlock]bool{}
	absOnRadii := 0
	core.Instrs(aa, func(in ssa.Instruction) {
		call, ok := in.(*ssa.Call)
		if !ok || call.Call.StaticCallee() == nil {
			return
		}
		switch call.Call.StaticCallee().Name() {
		case "lineTo":
			lineBlocks[call.Block()] = true
		case "addArc":
			arcBlocks[call.Block()] = true
		case "Abs", "AbsF", "abs":
			absOnRadii++
		}
	})
	okZero := false
	if len(zeroTests) > 0 && len(lineBlocks) > 0 {
		// scenario: the first radius is zero
		assign := map[ssa.Value]bool{}
		for _, a := range zeroTests {
			assign[a] = a.(*ssa.BinOp).Op == token.EQL
		}
		reach := core.ForwardReach(aa.Blocks[0], assign, nil)
		reachesLine, reachesArc := false, false
		for b := range lineBlocks {
			reachesLine = reachesLine || reach[b]
		}
		for b := range arcBlocks {
			reachesArc = reachesArc || reach[b]
		}
		okZero = reachesLine && !reachesArc
	}
	r.Cond(okZero, "addArcFromA | zero radius is a straight line", p.Pos(aa.Pos()), "with a zero radius lineTo is reached and addArc is not", "no test of the radii against zero leads to a straight line to the end point: `A0,5 0 0 1 30 30` draws nothing and leaves the current point behind")
	r.Cond(absOnRadii >= 2, "addArcFromA | negative radii", p.Pos(aa.Pos()), "the absolute values of both radii are taken", "the radii are used with their sign: `A-20,20 …` draws another arc than `A20,20 …`")
}
