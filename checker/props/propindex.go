package props

import (
	"go/ast"
	"go/constant"
	"go/token"
	"go/types"
	"strconv"
	"strings"

	"golang.org/x/tools/go/ssa"

	"wrverif/core"
)

// propIndex links the style accessors GetX to the property they read, its validators and its initial value.
type propIndex struct {
	p          *core.Prog
	accessor   map[string]int64 // "GetBoxSizing" -> property key
	validators map[int64][]*ssa.Function
	computer   map[int64]*ssa.Function
	initial    map[int64]ast.Expr
	names      map[int64]string
	err        string
	ss         *core.StrSets
	memo       map[int64]core.StrSet
}

func newPropIndex(p *core.Prog, ss *core.StrSets) *propIndex {
	pi := &propIndex{p: p, accessor: map[string]int64{}, validators: map[int64][]*ssa.Function{}, computer: map[int64]*ssa.Function{},
		initial: map[int64]ast.Expr{}, names: map[int64]string{}, ss: ss, memo: map[int64]core.StrSet{}}
	pk := p.ByPath["css/properties"]
	if pk == nil {
		pi.err = "package css/properties not loaded"
		return pi
	}
	obj := pk.Types.Scope().Lookup("Properties")
	if obj == nil {
		pi.err = "type Properties not found"
		return pi
	}
	ms := p.SSA.MethodSets.MethodSet(obj.Type())
	for i := 0; i < ms.Len(); i++ {
		sel := ms.At(i)
		if !strings.HasPrefix(sel.Obj().Name(), "Get") {
			continue
		}
		fn := p.SSA.MethodValue(sel)
		if fn == nil {
			continue
		}
		core.Instrs(fn, func(in ssa.Instruction) {
			if l, ok := in.(*ssa.Lookup); ok {
				if n, ok := core.ConstInt(l.Index); ok {
					pi.accessor[sel.Obj().Name()] = n
				}
			}
		})
	}
	funcOf := func(e core.TableEntry) *ssa.Function {
		if f, ok := e.ValObj.(*types.Func); ok {
			return p.SSA.FuncValue(f)
		}
		return nil
	}
	for _, name := range []string{"validators", "validatorsError"} {
		tab, err := p.Table("css/validation", name)
		if err != nil {
			pi.err = "table " + name + ": " + err.Error()
			return pi
		}
		for _, e := range tab {
			if e.Key == nil {
				continue
			}
			n, _ := constant.Int64Val(e.Key)
			if f := funcOf(e); f != nil {
				pi.validators[n] = append(pi.validators[n], f)
			}
		}
	}
	if tab, err := p.Table("html/tree", "tmp"); err == nil {
		for _, e := range tab {
			if e.Key == nil {
				continue
			}
			n, _ := constant.Int64Val(e.Key)
			if f := funcOf(e); f != nil {
				pi.computer[n] = f
			}
		}
	} else {
		pi.err = "computer table: " + err.Error()
	}
	if tab, err := p.Table("css/properties", "InitialValues"); err == nil {
		for _, e := range tab {
			if e.Key == nil {
				continue
			}
			n, _ := constant.Int64Val(e.Key)
			pi.initial[n] = e.Val
		}
	} else {
		pi.err = "InitialValues: " + err.Error()
	}
	for n, c := range p.ConstsOfType("css/properties", "KnownProp") {
		pi.names[n] = c.Name()
	}
	return pi
}

// stringsOfExpr collects the string literals of an expression (the keywords of an initial value literal).
func stringsOfExpr(e ast.Expr) []string {
	var out []string
	ast.Inspect(e, func(n ast.Node) bool {
		if bl, ok := n.(*ast.BasicLit); ok && bl.Kind == token.STRING {
			if s, err := strconv.Unquote(bl.Value); err == nil {
				out = append(out, s)
			}
		}
		return true
	})
	return out
}

// set is the set of keyword strings property key can hold (as a string value or as elements of a list value):
// what its validators return, its initial value literal, and what its computer returns besides its argument.
func (pi *propIndex) set(key int64) core.StrSet {
	if m, ok := pi.memo[key]; ok {
		return m
	}
	out := core.StrSet{S: map[string]bool{}}
	vs := pi.validators[key]
	if len(vs) == 0 {
		out = core.StrSet{Top: true, Why: "no validator found for " + pi.names[key]}
	}
	fromReturns := func(fn *ssa.Function, skipParam int) {
		core.Instrs(fn, func(in ssa.Instruction) {
			r, ok := in.(*ssa.Return)
			if !ok || len(r.Results) == 0 {
				return
			}
			v := r.Results[0]
			// the computer returning its argument unchanged adds nothing
			if skipParam >= 0 {
				w := v
				for {
					switch x := w.(type) {
					case *ssa.MakeInterface:
						w = x.X
						continue
					case *ssa.ChangeType:
						w = x.X
						continue
					case *ssa.TypeAssert:
						w = x.X
						continue
					}
					break
				}
				if par, ok := w.(*ssa.Parameter); ok && skipParam < len(fn.Params) && par == fn.Params[skipParam] {
					return
				}
			}
			out = out.Union(pi.ss.ElemsOf(fn, v, r.Block(), 0))
		})
	}
	for _, fn := range vs {
		fromReturns(fn, -1)
	}
	if fn := pi.computer[key]; fn != nil && len(fn.Params) == 3 {
		fromReturns(fn, 2)
	}
	if e := pi.initial[key]; e != nil && !out.Top {
		for _, s := range stringsOfExpr(e) {
			out.S[s] = true
		}
	}
	pi.memo[key] = out
	return out
}

// accessorHook resolves calls of GetX style accessors (on any receiver: the method name identifies the property).
func (pi *propIndex) accessorHook(call *ssa.Call) (core.StrSet, bool, bool) {
	name := ""
	if call.Call.IsInvoke() {
		name = call.Call.Method.Name()
	} else if callee := call.Call.StaticCallee(); callee != nil && callee.Signature.Recv() != nil {
		name = callee.Name()
	}
	key, ok := pi.accessor[name]
	if !ok {
		return core.StrSet{}, false, false
	}
	set := pi.set(key)
	_, isStr := call.Type().Underlying().(*types.Basic)
	return set, !isStr, true
}
