package props

import (
	"fmt"
	"go/token"

	"golang.org/x/tools/go/ssa"

	"wrverif/core"
)

// c05SliceGuards (R14): a test that only protects a slice bound is not stricter than the slice needs.
// `s[lo:hi]` is in range when hi <= len(s); a guard `hi < len(s)` whose true side uses hi as a slice bound and never
// as an index excludes exactly the input that ends at hi — the selector `*|*` at the end of the text.  The rule looks
// at every strict comparison of a value with len(s) (loop conditions excepted) in the selector and CSS parsers whose true side slices s up to
// that value, and requires that the same value (or a larger one) also indexes s there, which is what makes the
// strictness necessary.
func c05SliceGuards(c *core.Check) {
	p := c.Prog
	r := c.Rule("R14", "slice guards are not over-strict: in css/selector, css/parser and svg, where `x < len(s)` dominates a slice s[..:x] (same expression), s is also indexed at x or beyond on that side; otherwise the text ending exactly at x is refused for no reason (`*|*` at the end of a selector)", 1)
	n := 0
	for _, fn := range p.ModFuncs {
		if fn.Pkg == nil || fn.Blocks == nil {
			continue
		}
		switch core.Rel(fn.Pkg.Pkg.Path()) {
		case "css/selector", "css/parser", "svg", "utils", "css/validation":
		default:
			continue
		}
		perFn := 0
		for _, a := range core.CondAtoms(fn) {
			bo, ok := a.(*ssa.BinOp)
			if !ok {
				continue
			}
			var x, lenOf ssa.Value
			switch bo.Op {
			case token.LSS:
				x, lenOf = bo.X, bo.Y
			case token.GTR:
				x, lenOf = bo.Y, bo.X
			default:
				continue
			}
			call, ok := lenOf.(*ssa.Call)
			if !ok {
				continue
			}
			if b, ok := call.Call.Value.(*ssa.Builtin); !ok || b.Name() != "len" {
				continue
			}
			s := call.Call.Args[0]
			// the block entered when the comparison holds
			var side *ssa.BasicBlock
			for _, b := range fn.Blocks {
				if len(b.Instrs) == 0 {
					continue
				}
				if ifi, ok := b.Instrs[len(b.Instrs)-1].(*ssa.If); ok && ifi.Cond == ssa.Value(bo) {
					side = b.Succs[0]
					// the condition of a loop is not a guard of a bound: it has to be strict for the loop to end
					for _, pr := range b.Preds {
						if b.Dominates(pr) {
							side = nil
						}
					}
				}
			}
			if side == nil {
				continue
			}
			xt, st := valueText(x), valueText(s)
			var slice *ssa.Slice
			indexed := false
			core.Instrs(fn, func(in ssa.Instruction) {
				if !(in.Block() == side || side.Dominates(in.Block())) {
					return
				}
				switch y := in.(type) {
				case *ssa.Slice:
					if y.High != nil && valueText(y.High) == xt && valueText(y.X) == st && slice == nil {
						slice = y
					}
				case *ssa.IndexAddr:
					if valueText(y.X) == st && atOrBeyond(y.Index, x, xt) {
						indexed = true
					}
				case *ssa.Index:
					if valueText(y.X) == st && atOrBeyond(y.Index, x, xt) {
						indexed = true
					}
				case *ssa.Lookup:
					if valueText(y.X) == st && atOrBeyond(y.Index, x, xt) {
						indexed = true
					}
				}
			})
			if slice == nil {
				continue
			}
			n++
			perFn++
			key := fmt.Sprintf("%s | strict guard of a slice bound #%d", core.FuncName(fn), perFn)
			r.Cond(indexed, key, p.Pos(bo.Pos()), "the guarded side also indexes the text at the bound", "the comparison is strict although the bound is only used to slice: the text that ends exactly there is refused (a slice needs bound <= len)")
		}
	}
	r.OK("scan", "-", fmt.Sprintf("%d strict guards of slice bounds", n))
}

// atOrBeyond: the index is the guarded value, or that value plus a non-negative constant.
func atOrBeyond(idx, x ssa.Value, xt string) bool {
	if valueText(idx) == xt {
		return true
	}
	if bo, ok := idx.(*ssa.BinOp); ok && bo.Op == token.ADD {
		if k, ok := core.ConstInt(bo.Y); ok && k >= 0 && valueText(bo.X) == xt {
			return true
		}
	}
	return false
}
