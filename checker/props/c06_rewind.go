package props

import (
	"fmt"

	"golang.org/x/tools/go/ssa"

	"wrverif/core"
)

// c06Rewind: CSS Syntax "consume a block's contents" rewinds a failed declaration and consumes it again as a
// qualified rule with ';' as stop token. The rewind is done by rebuilding the token stream, so every token taken
// from the iterator during the attempt has to be part of the rebuilt stream, in the order it was taken.
func c06Rewind(c *core.Check) {
	p := c.Prog
	r := c.Rule("R6", "a failed declaration is re-parsed as a rule on the same tokens: in consumeBlocksContent the stream handed to consumeQualifiedRule is the concatenation of every slice that collected a token taken from the iterator (the declaration tokens, then the ';' that stopped the attempt) followed by the iterator's remaining tail", 3)
	fn := p.Fn("css/parser", "consumeBlocksContent")
	if fn == nil {
		r.Anchor("css/parser.consumeBlocksContent")
		return
	}
	isMethod := func(v ssa.Value, name string) *ssa.Call {
		call, ok := v.(*ssa.Call)
		if !ok || call.Call.StaticCallee() == nil || call.Call.StaticCallee().Name() != name {
			return nil
		}
		return call
	}
	// collectors: append calls storing a token returned by Next()
	var collectors []*ssa.Call
	var reparse *ssa.Call
	core.Instrs(fn, func(in ssa.Instruction) {
		call, ok := in.(*ssa.Call)
		if !ok {
			return
		}
		if b, isB := call.Call.Value.(*ssa.Builtin); isB && b.Name() == "append" {
			for _, op := range core.AppendOperands(call) {
				v := op
				for {
					if mi, ok := v.(*ssa.MakeInterface); ok {
						v = mi.X
						continue
					}
					if ci, ok := v.(*ssa.ChangeInterface); ok {
						v = ci.X
						continue
					}
					break
				}
				if isMethod(v, "Next") != nil {
					collectors = append(collectors, call)
				}
			}
		}
		if cal := call.Call.StaticCallee(); cal != nil && cal.Name() == "consumeQualifiedRule" {
			reparse = call
		}
	})
	if reparse == nil || len(reparse.Call.Args) < 2 {
		r.Anchor("call of consumeQualifiedRule in consumeBlocksContent")
		return
	}
	iter := isMethod(reparse.Call.Args[1], "NewIter")
	if iter == nil {
		r.Cond(false, "css/parser.consumeBlocksContent | re-parse stream", p.Pos(reparse.Pos()), "", "the rule re-parse does not run on a rebuilt token stream (NewIter of the collected tokens)")
		return
	}
	// flatten the concatenation: append(append(A, B...), C...) -> [A, B, C]
	var flat []ssa.Value
	var flatten func(v ssa.Value)
	flatten = func(v ssa.Value) {
		if call, ok := v.(*ssa.Call); ok {
			if b, isB := call.Call.Value.(*ssa.Builtin); isB && b.Name() == "append" && len(call.Call.Args) == 2 {
				if _, isSlice := call.Call.Args[1].(*ssa.Slice); !isSlice { // spread of a slice value
					flatten(call.Call.Args[0])
					flatten(call.Call.Args[1])
					return
				}
			}
		}
		flat = append(flat, v)
	}
	flatten(iter.Call.Args[0])
	// which collector feeds each part
	feeds := func(part ssa.Value, col *ssa.Call) bool {
		seen := map[ssa.Value]bool{}
		var walk func(v ssa.Value) bool
		walk = func(v ssa.Value) bool {
			if seen[v] {
				return false
			}
			seen[v] = true
			if v == ssa.Value(col) {
				return true
			}
			switch x := v.(type) {
			case *ssa.Phi:
				for _, e := range x.Edges {
					if walk(e) {
						return true
					}
				}
			case *ssa.Call:
				if b, isB := x.Call.Value.(*ssa.Builtin); isB && b.Name() == "append" {
					return walk(x.Call.Args[0])
				}
			case *ssa.Slice:
				return walk(x.X)
			}
			return false
		}
		return walk(part)
	}
	pos := func(col *ssa.Call) int {
		for i, part := range flat {
			if feeds(part, col) {
				return i
			}
		}
		return -1
	}
	tailAt := -1
	for i, part := range flat {
		if isMethod(part, "tail") != nil {
			tailAt = i
		}
	}
	r.Cond(tailAt == len(flat)-1 && tailAt >= 0, "css/parser.consumeBlocksContent | remaining tail last", p.Pos(iter.Pos()), "…, tokens.tail()", "the rebuilt stream does not end with the iterator's remaining tokens: what follows the failed declaration is lost or out of order")
	if len(collectors) == 0 {
		r.Anchor("appends of tokens.Next() in consumeBlocksContent")
		return
	}
	// the ';' collector is the one guarded by IsLiteral(token, ";"): it must come after the others
	semi := -1
	for i, col := range collectors {
		for b := col.Block(); b != nil; b = b.Idom() {
			d := b.Idom()
			if d == nil || len(d.Instrs) == 0 {
				continue
			}
			ifi, ok := d.Instrs[len(d.Instrs)-1].(*ssa.If)
			if !ok || isMethod(ifi.Cond, "IsLiteral") == nil {
				continue
			}
			if d.Succs[0] != d.Succs[1] && d.Succs[0].Dominates(col.Block()) {
				semi = i
			}
		}
	}
	for i, col := range collectors {
		at := pos(col)
		what := "declaration tokens"
		if i == semi {
			what = "the ';' that stopped the attempt"
		}
		ok := at >= 0 && at < tailAt
		msg := fmt.Sprintf("%s taken from the iterator (appended at %s) are not part of the stream re-parsed as a rule: the rule no longer stops where the failed declaration ended", what, p.Pos(col.Pos()))
		if ok && semi >= 0 && i != semi {
			if sp := pos(collectors[semi]); sp >= 0 && sp < at {
				ok = false
				msg = "the ';' is put back before the tokens that preceded it"
			}
		}
		r.Cond(ok, "css/parser.consumeBlocksContent | "+what, p.Pos(col.Pos()), "part of the rebuilt stream, in order", msg)
	}
}
