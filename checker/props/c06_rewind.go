package props

import (
	"fmt"
	"go/ast"
	"go/constant"
	"go/token"
	"go/types"
	"strings"

	"golang.org/x/tools/go/ssa"

	"wrverif/core"
)

// c06Rewind: CSS Syntax "consume a block's contents" rewinds a failed declaration and consumes it again as a
// qualified rule with ';' as stop token. The rewind is done by rebuilding the token stream, so every token taken
// from the iterator during the attempt has to be part of the rebuilt stream, in the order it was taken.
func c06Rewind(c *core.Check) {
	r := c.Rule("R6", "a failed declaration is re-parsed as a rule on the same tokens: in consumeBlocksContent the stream handed to consumeQualifiedRule is the concatenation of every slice that collected a token taken from the iterator (the declaration tokens, then the ';' that stopped the attempt) followed by the iterator's remaining tail", 1)
	c06RewindRule(c, r)
}

// c06RewindRule is shared with C08.R12.
func c06RewindRule(c *core.Check, r *core.Rule) {
	p := c.Prog
	fn := p.Fn("css/parser", "consumeBlocksContent")
	if fn == nil {
		r.Anchor("css/parser.consumeBlocksContent")
		return
	}
	isMethod := func(v ssa.Value, name string) *ssa.Call {
		call, ok := v.(*ssa.Call)
		if !ok || call.Call.StaticCallee() == nil || call.Call.StaticCallee().Name() != name {
			return nil
		}
		return call
	}
	// collectors: append calls storing a token returned by Next()
	var collectors []*ssa.Call
	var reparse *ssa.Call
	core.Instrs(fn, func(in ssa.Instruction) {
		call, ok := in.(*ssa.Call)
		if !ok {
			return
		}
		if b, isB := call.Call.Value.(*ssa.Builtin); isB && b.Name() == "append" {
			for _, op := range core.AppendOperands(call) {
				v := op
				for {
					if mi, ok := v.(*ssa.MakeInterface); ok {
						v = mi.X
						continue
					}
					if ci, ok := v.(*ssa.ChangeInterface); ok {
						v = ci.X
						continue
					}
					break
				}
				if isMethod(v, "Next") != nil {
					collectors = append(collectors, call)
				}
			}
		}
		if cal := call.Call.StaticCallee(); cal != nil && cal.Name() == "consumeQualifiedRule" {
			reparse = call
		}
	})
	if reparse == nil || len(reparse.Call.Args) < 2 {
		r.Anchor("call of consumeQualifiedRule in consumeBlocksContent")
		return
	}
	iter := isMethod(reparse.Call.Args[1], "NewIter")
	if iter == nil {
		r.Cond(false, "css/parser.consumeBlocksContent | re-parse stream", p.Pos(reparse.Pos()), "", "the rule re-parse does not run on a rebuilt token stream (NewIter of the collected tokens)")
		return
	}
	// flatten the concatenation: append(append(A, B...), C...) -> [A, B, C]
	var flat []ssa.Value
	var flatten func(v ssa.Value)
	flatten = func(v ssa.Value) {
		if call, ok := v.(*ssa.Call); ok {
			if b, isB := call.Call.Value.(*ssa.Builtin); isB && b.Name() == "append" && len(call.Call.Args) == 2 {
				if _, isSlice := call.Call.Args[1].(*ssa.Slice); !isSlice { // spread of a slice value
					flatten(call.Call.Args[0])
					flatten(call.Call.Args[1])
					return
				}
			}
		}
		flat = append(flat, v)
	}
	flatten(iter.Call.Args[0])
	// which collector feeds each part
	feeds := func(part ssa.Value, col *ssa.Call) bool {
		seen := map[ssa.Value]bool{}
		var walk func(v ssa.Value) bool
		walk = func(v ssa.Value) bool {
			if seen[v] {
				return false
			}
			seen[v] = true
			if v == ssa.Value(col) {
				return true
			}
			switch x := v.(type) {
			case *ssa.Phi:
				for _, e := range x.Edges {
					if walk(e) {
						return true
					}
				}
			case *ssa.Call:
				if b, isB := x.Call.Value.(*ssa.Builtin); isB && b.Name() == "append" {
					return walk(x.Call.Args[0])
				}
			case *ssa.Slice:
				return walk(x.X)
			}
			return false
		}
		return walk(part)
	}
	pos := func(col *ssa.Call) int {
		for i, part := range flat {
			if feeds(part, col) {
				return i
			}
		}
		return -1
	}
	tailAt := -1
	for i, part := range flat {
		if isMethod(part, "tail") != nil {
			tailAt = i
		}
	}
	r.Cond(tailAt == len(flat)-1 && tailAt >= 0, "css/parser.consumeBlocksContent | remaining tail last", p.Pos(iter.Pos()), "…, tokens.tail()", "the rebuilt stream does not end with the iterator's remaining tokens: what follows the failed declaration is lost or out of order")
	if len(collectors) == 0 {
		r.Anchor("appends of tokens.Next() in consumeBlocksContent")
		return
	}
	// every token taken from the iterator is collected: from a call of Next() inside a loop, no path leaves the
	// iteration (to the loop header or out of the loop) without passing an append of that token
	nNext := 0
	core.Instrs(fn, func(in ssa.Instruction) {
		next := isMethod(instrValue(in), "Next")
		if next == nil {
			return
		}
		l := core.InnermostLoop(fn, next.Block())
		if l == nil {
			return
		}
		nNext++
		collects := func(b *ssa.BasicBlock, after ssa.Instruction) bool {
			seenAfter := after == nil
			for _, in2 := range b.Instrs {
				if !seenAfter {
					if in2 == after {
						seenAfter = true
					}
					continue
				}
				for _, col := range collectors {
					if in2 == ssa.Instruction(col) {
						for _, op := range core.AppendOperands(col) {
							if core.DerivesFrom(op, func(v ssa.Value) bool { return v == ssa.Value(next) }) {
								return true
							}
						}
					}
				}
			}
			return false
		}
		lost := ""
		seen := map[*ssa.BasicBlock]bool{}
		var walk func(b *ssa.BasicBlock, after ssa.Instruction)
		walk = func(b *ssa.BasicBlock, after ssa.Instruction) {
			if after == nil {
				if seen[b] {
					return
				}
				seen[b] = true
			}
			if collects(b, after) {
				return
			}
			for _, s := range b.Succs {
				if s == l.Header {
					lost = fmt.Sprintf("block %d -> %d", b.Index, s.Index)
					continue
				}
				if !l.Blocks[s] {
					// a block that leaves the loop (`…; break`) is not part of the natural loop: it may still collect
					if !collects(s, nil) {
						lost = fmt.Sprintf("block %d -> %d", b.Index, s.Index)
					}
					continue
				}
				walk(s, nil)
			}
		}
		walk(next.Block(), next)
		r.Cond(lost == "", fmt.Sprintf("css/parser.consumeBlocksContent | token taken by Next() #%d is collected", nNext), p.Pos(next.Pos()), "appended to a collected slice on every path out of the iteration", "a path leaves the iteration ("+lost+") without collecting the token taken from the iterator: the token that stopped the attempt is consumed and dropped, the rule parsed next no longer sees it")
	})
	// the ';' collector is the one guarded by IsLiteral(token, ";"): it must come after the others
	semi := -1
	for i, col := range collectors {
		for b := col.Block(); b != nil; b = b.Idom() {
			d := b.Idom()
			if d == nil || len(d.Instrs) == 0 {
				continue
			}
			ifi, ok := d.Instrs[len(d.Instrs)-1].(*ssa.If)
			if !ok || isMethod(ifi.Cond, "IsLiteral") == nil {
				continue
			}
			if d.Succs[0] != d.Succs[1] && d.Succs[0].Dominates(col.Block()) {
				semi = i
			}
		}
	}
	for i, col := range collectors {
		at := pos(col)
		what := "declaration tokens"
		if i == semi {
			what = "the ';' that stopped the attempt"
		}
		ok := at >= 0 && at < tailAt
		msg := fmt.Sprintf("%s taken from the iterator (appended at %s) are not part of the stream re-parsed as a rule: the rule no longer stops where the failed declaration ended", what, p.Pos(col.Pos()))
		if ok && semi >= 0 && i != semi {
			if sp := pos(collectors[semi]); sp >= 0 && sp < at {
				ok = false
				msg = "the ';' is put back before the tokens that preceded it"
			}
		}
		r.Cond(ok, "css/parser.consumeBlocksContent | "+what, p.Pos(col.Pos()), "part of the rebuilt stream, in order", msg)
	}
}

// c06BadURL: consume the remnants of a bad url (CSS Syntax §4.3.14): ")" ends the token unless it is escaped, and
// the escape is any valid escape (a backslash not followed by a newline), which is skipped as a pair.
func c06BadURL(c *core.Check) {
	p := c.Prog
	r := c.Rule("R7", "the remnants of a bad url: in the loop of consumeUrl that looks for the closing parenthesis, a backslash that starts a valid escape (next byte present and not a newline) is skipped together with the byte it escapes before the test for ')' — so that neither `\\)` nor the ')' after `\\\\` is misread", 2)
	fn := p.Method("css/parser", "tokenizer", "consumeUrl")
	if fn == nil {
		r.Anchor("css/parser.(*tokenizer).consumeUrl")
		return
	}
	byteCmp := func(v ssa.Value) (int64, token.Token, bool) {
		b, ok := v.(*ssa.BinOp)
		if !ok || (b.Op != token.EQL && b.Op != token.NEQ) {
			return 0, 0, false
		}
		k, ok := core.ConstInt(b.Y)
		if !ok {
			return 0, 0, false
		}
		if bt, isB := b.X.Type().Underlying().(*types.Basic); !isB || bt.Kind() != types.Uint8 {
			return 0, 0, false
		}
		return k, b.Op, true
	}
	found := false
	for _, l := range core.Loops(fn) {
		var paren, bslash *ssa.BinOp
		assign := map[ssa.Value]bool{}
		for b := range l.Blocks {
			if len(b.Instrs) == 0 {
				continue
			}
			ifi, ok := b.Instrs[len(b.Instrs)-1].(*ssa.If)
			if !ok {
				continue
			}
			for _, a := range core.ExpandBoolPhi(ifi.Cond) {
				if k, op, ok := byteCmp(a); ok {
					switch k {
					case ')':
						paren = a.(*ssa.BinOp)
					case '\\':
						bslash = a.(*ssa.BinOp)
						assign[a] = op == token.EQL
					case '\n':
						assign[a] = op != token.EQL
					}
					continue
				}
				if bo, ok := a.(*ssa.BinOp); ok {
					switch bo.Op {
					case token.LSS, token.LEQ:
						assign[a] = true // in range
					case token.GEQ, token.GTR:
						assign[a] = false
					}
				}
			}
		}
		if paren == nil {
			continue
		}
		// the loop that ends at ')' and is entered from the bad-url label: it must not be the main loop (which builds the value)
		exits := false
		pb := paren.Block()
		for _, s := range pb.Succs {
			if !l.Blocks[s] || !l.Blocks[firstNonTrivial(s)] {
				exits = true
			}
		}
		_ = exits
		if bslash == nil {
			// the main loop of the url also tests ')' and handles the backslash elsewhere (a switch): only loops without
			// any backslash handling are reported when they are reached from the bad-url label
			if loopAfterLabel(p, fn, l, "badURL") {
				found = true
				r.Fail("css/parser.consumeUrl | bad-url loop", p.Pos(paren.Pos()), "the loop looking for the end of a bad url does not treat the backslash: an escaped ')' ends the token")
			}
			continue
		}
		if !loopAfterLabel(p, fn, l, "badURL") {
			continue
		}
		found = true
		delete(assign, paren)
		reach := core.ForwardReach(l.Header, assign, func(b *ssa.BasicBlock) bool { return !l.Blocks[b] })
		r.Cond(!reach[paren.Block()] || paren.Block() == l.Header, "css/parser.consumeUrl | a valid escape is skipped before the test for ')'", p.Pos(bslash.Pos()), "the ')' test is not reached in an iteration that starts on a valid escape", "an iteration that starts on a backslash followed by a byte other than a newline still tests for ')' (or skips a single byte): the escaped byte can end the token")
		// the skip is two bytes
		two := false
		for b := range l.Blocks {
			if !reach[b] {
				continue
			}
			for _, in := range b.Instrs {
				if bo, ok := in.(*ssa.BinOp); ok && bo.Op == token.ADD {
					if k, isK := core.ConstInt(bo.Y); isK && k == 2 {
						two = true
					}
				}
			}
		}
		r.Cond(two, "css/parser.consumeUrl | the escape and the escaped byte are skipped together", p.Pos(bslash.Pos()), "position advanced by 2", "the iteration that starts on a valid escape does not advance by two bytes")
	}
	if !found {
		r.Fail("css/parser.consumeUrl | bad-url loop", p.Pos(fn.Pos()), "no loop after the bad-url label looks for the closing parenthesis byte by byte with escape handling: the end of a bad url is not found as CSS Syntax §4.3.14 describes")
	}
}

func firstNonTrivial(b *ssa.BasicBlock) *ssa.BasicBlock { return b }

// loopAfterLabel: the loop's header is at or after the labelled statement in the source.
func loopAfterLabel(p *core.Prog, fn *ssa.Function, l *core.Loop, label string) bool {
	body := p.Body(fn)
	if body == nil {
		return false
	}
	var lpos token.Pos
	ast.Inspect(body, func(n ast.Node) bool {
		if ls, ok := n.(*ast.LabeledStmt); ok && ls.Label.Name == label {
			lpos = ls.Pos()
		}
		return true
	})
	if !lpos.IsValid() {
		return false
	}
	for _, in := range l.Header.Instrs {
		if in.Pos().IsValid() {
			return in.Pos() >= lpos
		}
	}
	for b := range l.Blocks {
		for _, in := range b.Instrs {
			if in.Pos().IsValid() && in.Pos() < lpos {
				return false
			}
		}
	}
	return true
}

// c06CommentEOF: an unterminated comment runs to the end of the input (CSS Syntax §4.3.2), whatever the nesting.
func c06CommentEOF(c *core.Check) {
	p := c.Prog
	r := c.Rule("R8", "an unterminated comment consumes the rest of the input: in consumeValueList, on the path where `*/` is not found, the cursor is set to the end of the source before the function returns — otherwise the enclosing blocks go on tokenizing the text of the comment", 1)
	fn := p.Method("css/parser", "tokenizer", "consumeValueList")
	if fn == nil {
		r.Anchor("css/parser.(*tokenizer).consumeValueList")
		return
	}
	n := 0
	core.Instrs(fn, func(in ssa.Instruction) {
		cmp, ok := in.(*ssa.BinOp)
		if !ok || (cmp.Op != token.EQL && cmp.Op != token.NEQ && cmp.Op != token.LSS) {
			return
		}
		call, ok := cmp.X.(*ssa.Call)
		if !ok || call.Call.StaticCallee() == nil || call.Call.StaticCallee().Name() != "Index" || len(call.Call.Args) != 2 {
			return
		}
		if s, ok := constBytesOf(call.Call.Args[1]); !ok || s != "*/" {
			return
		}
		k, isK := core.ConstInt(cmp.Y)
		if !isK || !(k == -1 || (cmp.Op == token.LSS && k == 0)) {
			return
		}
		n++
		// the branch taken when the terminator is missing
		var ifi *ssa.If
		if refs := cmp.Referrers(); refs != nil {
			for _, ref := range *refs {
				if x, ok := ref.(*ssa.If); ok {
					ifi = x
				}
			}
		}
		if ifi == nil {
			r.Unknown("css/parser.consumeValueList | unterminated comment", p.Pos(cmp.Pos()), "the test of the search result does not branch")
			return
		}
		missing := ifi.Block().Succs[0]
		if cmp.Op == token.NEQ {
			missing = ifi.Block().Succs[1]
		}
		// on every path from there to a return, tk.pos = len(tk.src)
		isEnd := func(in ssa.Instruction) bool {
			st, ok := in.(*ssa.Store)
			if !ok {
				return false
			}
			fa, ok := st.Addr.(*ssa.FieldAddr)
			if !ok || core.FieldName(fa) != "pos" {
				return false
			}
			lc, ok := st.Val.(*ssa.Call)
			if !ok {
				return false
			}
			b, isB := lc.Call.Value.(*ssa.Builtin)
			return isB && b.Name() == "len" && core.IsFieldNamed(lc.Call.Args[0], "src")
		}
		isRet := func(in ssa.Instruction) bool { _, ok := in.(*ssa.Return); return ok }
		r.Cond(core.PassFrom(missing, isEnd, isRet), "css/parser.consumeValueList | unterminated comment", p.Pos(cmp.Pos()), "the cursor is moved to the end of the source before returning", "the function returns with the cursor inside the comment: `a { /* foo` yields the tokens `*` and `foo` after the block")
	})
	if n == 0 {
		r.Anchor("consumeValueList: search for the comment terminator")
	}
}

// constBytesOf: the string of a []byte("…") conversion or of a string constant.
func constBytesOf(v ssa.Value) (string, bool) {
	if cv, ok := v.(*ssa.Convert); ok {
		return core.ConstStr(cv.X)
	}
	return core.ConstStr(v)
}

// c06EscapeAtCursor: "starts with a valid escape" looks at the bytes at the cursor.
func c06EscapeAtCursor(c *core.Check) {
	p := c.Prog
	r := c.Rule("R9", "valid escapes are tested at the cursor: in the consumers of the tokenizer, every test whether the input starts with backslash-newline (an invalid escape) slices the source at the current position tk.pos — not at the start of the token or another saved position", 3)
	n := 0
	for _, fn := range p.FuncsOfPkg("css/parser") {
		if fn.Signature.Recv() == nil || !strings.Contains(fn.Signature.Recv().Type().String(), "tokenizer") {
			continue
		}
		fn := fn
		core.Instrs(fn, func(in ssa.Instruction) {
			call, ok := in.(*ssa.Call)
			if !ok || call.Call.StaticCallee() == nil || call.Call.StaticCallee().Name() != "HasPrefix" || len(call.Call.Args) != 2 {
				return
			}
			pat, ok := constBytesOf(call.Call.Args[1])
			if !ok || !strings.HasPrefix(pat, "\\") {
				return
			}
			sl, ok := call.Call.Args[0].(*ssa.Slice)
			if !ok || sl.Low == nil || !core.IsFieldNamed(sl.X, "src") {
				return
			}
			n++
			low := sl.Low
			if b, isB := low.(*ssa.BinOp); isB && b.Op == token.ADD {
				if _, isK := core.ConstInt(b.Y); isK {
					low = b.X
				}
			}
			r.Cond(core.IsFieldNamed(low, "pos"), core.FuncName(fn)+fmt.Sprintf(" | HasPrefix(src[…:], %q)", pat), p.Pos(call.Pos()), "sliced at tk.pos", "the test for an escape looks at "+exprName(low)+", not at the cursor: an invalid escape further in the token is consumed as valid (`foo\\<newline>bar` becomes one identifier)")
		})
	}
	if n == 0 {
		r.Anchor("tokenizer: tests of the backslash-newline prefix")
	}
}

// c06LineStart: source positions.  The column of a token is counted from the last newline before it; the chunk
// consumed since the previous token may hold several newlines (a blank line, a comment of several lines), so the
// position stored as the start of the current line must not be the *first* newline of the chunk.
func c06LineStart(c *core.Check) {
	p := c.Prog
	r := c.Rule("R11", "the current line starts after the last newline: in updateLine the value stored as the start of the current line (lineIndex) does not come from a first-occurrence search (IndexByte, Index, IndexRune, IndexAny) over the text consumed since the previous token — with two newlines in that text the columns of the following tokens would be counted from the wrong one", 1)
	fn := p.Lookup("css/parser.(*tokenizer).updateLine")
	if fn == nil {
		r.Anchor("css/parser.(*tokenizer).updateLine")
		return
	}
	n := 0
	core.Instrs(fn, func(in ssa.Instruction) {
		st, ok := in.(*ssa.Store)
		if !ok {
			return
		}
		fa, ok := st.Addr.(*ssa.FieldAddr)
		if !ok || core.FieldName(fa) != "lineIndex" {
			return
		}
		n++
		first := arithDerives(st.Val, func(v ssa.Value) bool {
			call, ok := v.(*ssa.Call)
			if !ok || call.Call.StaticCallee() == nil {
				return false
			}
			switch call.Call.StaticCallee().Name() {
			case "IndexByte", "Index", "IndexRune", "IndexAny":
				return true
			}
			return false
		})
		r.Cond(!first, "css/parser.(*tokenizer).updateLine | start of the current line", p.Pos(st.Pos()), "not the first newline of the consumed text", "the start of the current line is the first newline of the text consumed since the previous token: after a blank line or a comment of several lines every column on the next line is too large (`a {\\n\\n  b: c }` reports b at 3:4 instead of 3:3)")
	})
	if n == 0 {
		r.Anchor("updateLine: tk.lineIndex = …")
	}
}

// c06ImportantState: `important` counts only directly after `!`.  In the state machine of parseDeclaration the
// transition to the important state is taken only where the state was compared equal to the "bang" state.
func c06ImportantState(c *core.Check) {
	p := c.Prog
	r := c.Rule("R12", "!important is `!` then `important`: in parseDeclaration the state becomes \"important\" only on the path where the current state was compared equal to the state entered by `!` — an `important` identifier anywhere else (a second one after !important) is part of the value", 1)
	fn := p.Fn("css/parser", "parseDeclaration")
	if fn == nil {
		r.Anchor("css/parser.parseDeclaration")
		return
	}
	sBang := p.Obj("css/parser", "sBang")
	sImp := p.Obj("css/parser", "sImportant")
	var bangV, impV int64 = -1, -1
	// the state constants are local to the function in this code base: find them through the comparison with "!" path
	if sBang != nil && sImp != nil {
		if k, ok := sBang.(*types.Const); ok {
			bangV, _ = constantInt(k)
		}
		if k, ok := sImp.(*types.Const); ok {
			impV, _ = constantInt(k)
		}
	}
	if bangV < 0 || impV < 0 {
		// local constants: read them from the function's declaration
		if decl := p.Decl(fn); decl != nil {
			info := p.InfoOf(fn)
			ast.Inspect(decl, func(n ast.Node) bool {
				if id, ok := n.(*ast.Ident); ok && info != nil {
					if k, ok := info.Defs[id].(*types.Const); ok {
						switch id.Name {
						case "sBang":
							bangV, _ = constantInt(k)
						case "sImportant":
							impV, _ = constantInt(k)
						}
					}
				}
				return true
			})
		}
	}
	if bangV < 0 || impV < 0 {
		r.Anchor("parseDeclaration: the constants sBang and sImportant")
		return
	}
	// the state variable: a phi (or cell) assigned the constants; transitions to impV are the phi edges carrying it
	var atoms []ssa.Value
	for _, a := range core.CondAtoms(fn) {
		bo, ok := a.(*ssa.BinOp)
		if !ok || bo.Op != token.EQL {
			continue
		}
		if k, isK := core.ConstInt(bo.Y); isK && k == bangV {
			atoms = append(atoms, a)
		}
	}
	n := 0
	core.Instrs(fn, func(in ssa.Instruction) {
		phi, ok := in.(*ssa.Phi)
		if !ok {
			return
		}
		for i, e := range phi.Edges {
			k, isK := core.ConstInt(e)
			if !isK || k != impV || phi.Comment != "state" {
				continue
			}
			n++
			pred := phi.Block().Preds[i]
			ok2 := false
			if len(atoms) > 0 {
				ok2, _ = core.GuardedBy(fn, pred, atoms, func(m map[ssa.Value]bool) bool {
					for _, v := range m {
						if v {
							return true
						}
					}
					return false
				})
			}
			r.Cond(ok2, "css/parser.parseDeclaration | state = important", p.Pos(phi.Pos()), "only where state == sBang held", "the important state is entered without the state having been found equal to the one `!` sets: `font-family: serif !important important` becomes important with the second identifier swallowed")
		}
	})
	if n == 0 {
		r.Anchor("parseDeclaration: state = sImportant")
	}
}

func constantInt(k *types.Const) (int64, bool) {
	return constant.Int64Val(constant.ToInt(k.Val()))
}


// instrValue returns the instruction as a value (nil when it has none).
func instrValue(in ssa.Instruction) ssa.Value {
	v, _ := in.(ssa.Value)
	return v
}
