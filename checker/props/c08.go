package props

import (
	"fmt"
	"go/ast"
	"go/constant"
	"go/token"
	"go/types"
	"os"
	"sort"
	"strings"

	"golang.org/x/tools/go/ssa"

	"wrverif/core"
)

func init() { register("C08", c08) }

func swapASCIICase(s string) string {
	b := []byte(s)
	for i, c := range b {
		if c >= 'a' && c <= 'z' {
			b[i] = c - 32
		} else if c >= 'A' && c <= 'Z' {
			b[i] = c + 32
		}
	}
	return string(b)
}

// caseSinks runs engine C over the packages that interpret CSS text.
func caseSinks(p *core.Prog) (sinks, folds []core.CaseSink, nFns int) {
	ct := core.NewCaseTaint(p, []*ssa.Function{p.Fn("utils", "AsciiLower"), p.Fn("css/selector", "toLowerASCII"), p.Lookup("strings.ToLower")})
	scope := func(fn *ssa.Function) bool {
		if fn.Pkg == nil {
			return false
		}
		switch core.Rel(fn.Pkg.Pkg.Path()) {
		case "css/validation", "css/parser", "html/tree", "css/counters", "html/boxes", "svg", "html/layout", "html/document", "text":
			return true
		}
		return false
	}
	for _, fn := range p.ModFuncs {
		if !scope(fn) {
			continue
		}
		nFns++
		folds = append(folds, ct.UnicodeFolds(fn)...)
		ss := ct.Sinks(fn)
		// a function that tests both capitalisations of a constant explicitly (the serializer's e/E) is case-complete
		have := map[string]bool{}
		for _, s := range ss {
			have[s.What+"|"+s.Const] = true
		}
		for _, s := range ss {
			if sw := swapASCIICase(s.Const); sw != s.Const && have[s.What+"|"+sw] {
				continue
			}
			sinks = append(sinks, s)
		}
	}
	return
}

func c08(c *core.Check) {
	p := c.Prog
	c.Explain = "Structural necessary conditions of spelling-independence and of dropping bad declarations alone: (R1) text that CSS treats ASCII case-insensitively never reaches a comparison, prefix test or table lookup against a lettered constant without ASCII lowercasing (taint over SSA with return summaries; custom properties recognised by their -- test); (R2) the shorthand tables are complete and inverse, every shorthand has an expander, and an expander only emits longhands its wrapper declares; the four-sides longhands exist; (R3) in the declaration loop a validation error leads to the next declaration only, never to a return or to an append; (R4) expanders and validators receive the declaration's tokens with white space and comments removed; (R5) var() resolution follows custom properties under a visited set. That an expander assigns the right tokens to the right longhand, and var() substitution semantics, are not decided. Also decided: (R5, extended) the set of names being resolved is a stack: insertions are undone when the resolution returns; (R9) comments are skipped wherever white space is; (R10) the unitless-zero rule of the flex shorthand for all 32 assignments."
	rArgs := c.Rule("R8", "no call passes two same-typed arguments under each other's parameter names (swapped arguments): every pair of arguments named after the callee's parameters is aligned with them", 5)
	argNameRule(c, rArgs, "css/validation", nil, 6)
	c.Assume = []string{"String.Value, URL.Value, Hash.Value and Literal.Value are case-sensitive or letter-free by CSS and are not sources", "a raw value parked in a struct field and compared elsewhere is not followed (heap flows)"}

	r1 := c.Rule("R1", "text that CSS treats ASCII case-insensitively (identifier, at-keyword, unit, function name, declaration name) is never compared with, searched for, or looked up under a constant containing an ASCII letter before it has been ASCII-lowercased (custom property names, recognised by the -- prefix test, excepted)", 1)
	sinks, folds, n := caseSinks(p)
	for _, s := range sinks {
		key := fmt.Sprintf("%s | %s %q", core.FuncName(s.Fn), strings.Fields(s.What)[0], s.Const)
		r1.Fail(key, p.Pos(s.Instr.Pos()), fmt.Sprintf("raw %s %s %q: a different capitalisation of the same CSS text takes the other branch", s.Source, s.What, s.Const))
	}
	r1.OK(fmt.Sprintf("%d functions of the CSS-interpreting packages scanned", n), "-", fmt.Sprintf("%d raw comparisons", len(sinks)))
	r15 := c.Rule("R15", "case-insensitive CSS text is folded with the ASCII helper only: no identifier, at-keyword, unit, function name or declaration name is passed to strings.ToLower, ToUpper, ToTitle or EqualFold, whose Unicode folding also maps U+212A (Kelvin sign) to k and U+017F (long s) to s", 1)
	for _, s := range folds {
		r15.Fail(core.FuncName(s.Fn)+" | "+s.What+" of "+strings.Fields(s.Source)[0], p.Pos(s.Instr.Pos()), fmt.Sprintf("raw %s folded with %s: text that is not an ASCII spelling of a keyword (ba\u212Aground) is accepted as one", s.Source, s.What))
	}
	r15.OK(fmt.Sprintf("%d functions of the CSS-interpreting packages scanned", n), "-", fmt.Sprintf("%d Unicode folds of raw text", len(folds)))

	// ---- R2 shorthand tables
	r2 := c.Rule("R2", "NewShortand and Shortand.String are inverse bijections over the Shortand constants; every constant has a non-nil expander; a function wrapped by genericExpander(names…) only builds namedTokens whose constant name is one of names; the four longhands of each four-sides shorthand exist", 107)
	consts := p.ConstsOfType("css/properties", "Shortand")
	ns := p.Fn("css/properties", "NewShortand")
	ss := p.Method("css/properties", "Shortand", "String")
	if ns == nil || ss == nil {
		r2.Anchor("css/properties.NewShortand / Shortand.String")
	} else {
		fromName := map[string]int64{}
		toName := map[int64]string{}
		info := p.InfoOf(ns)
		for _, sw := range core.Switches(p.Body(ns)) {
			for i, cs := range sw.Cases {
				for _, l := range cs {
					s, ok := core.StrConst(info, l)
					if !ok {
						continue
					}
					for _, st := range sw.Bodies[i] {
						if rs, ok := st.(*ast.ReturnStmt); ok && len(rs.Results) == 1 {
							if v := core.ConstOf(info, rs.Results[0]); v != nil {
								n, _ := constant.Int64Val(v)
								fromName[s] = n
							}
						}
					}
				}
			}
		}
		for _, sw := range core.Switches(p.Body(ss)) {
			for i, cs := range sw.Cases {
				for _, l := range cs {
					v := core.ConstOf(info, l)
					if v == nil {
						continue
					}
					n, _ := constant.Int64Val(v)
					for _, st := range sw.Bodies[i] {
						if rs, ok := st.(*ast.ReturnStmt); ok && len(rs.Results) == 1 {
							if s, ok := core.StrConst(info, rs.Results[0]); ok {
								toName[n] = s
							}
						}
					}
				}
			}
		}
		etab, err := p.Table("css/validation", "expanders")
		hasExp := map[int64]core.TableEntry{}
		if err != nil {
			r2.Anchor("css/validation.expanders")
		}
		for _, e := range etab {
			if e.Key != nil {
				n, _ := constant.Int64Val(e.Key)
				hasExp[n] = e
			}
		}
		var vals []int64
		for v := range consts {
			if v > 0 {
				vals = append(vals, v)
			}
		}
		sort.Slice(vals, func(i, j int) bool { return vals[i] < vals[j] })
		for _, v := range vals {
			cn := consts[v].Name()
			name := toName[v]
			r2.Cond(name != "" && fromName[name] == v, "shorthand "+cn+" ↔ name", p.Pos(ns.Pos()), fmt.Sprintf("%q", name), fmt.Sprintf("String() gives %q and NewShortand(%q) gives %d: the tables are not inverse", name, name, fromName[name]))
			_, ok := hasExp[v]
			r2.Cond(ok, "shorthand "+cn+" has an expander", "css/validation/expanders.go", "entry present", "no entry in validation.expanders: expanders[sh] is nil and calling it panics")
		}
		r2.Cond(len(fromName) == len(vals), "NewShortand has no extra name", p.Pos(ns.Pos()), fmt.Sprint(len(fromName)), fmt.Sprintf("%d names for %d constants", len(fromName), len(vals)))
		// genericExpander(names...)(f)
		vinfo := p.Info("css/validation")
		ntT := p.Obj("css/validation", "namedTokens").Type()
		pk := p.ByPath["css/validation"]
		declOf := map[string]*ast.FuncDecl{}
		for _, f := range pk.Syntax {
			for _, d := range f.Decls {
				if fd, ok := d.(*ast.FuncDecl); ok && fd.Recv == nil {
					declOf[fd.Name.Name] = fd
				}
			}
		}
		var emitted func(fd *ast.FuncDecl, depth int, seen map[string]bool) (consts []string, computed int)
		emitted = func(fd *ast.FuncDecl, depth int, seen map[string]bool) ([]string, int) {
			var out []string
			comp := 0
			if fd == nil || fd.Body == nil || seen[fd.Name.Name] {
				return nil, 0
			}
			seen[fd.Name.Name] = true
			for _, cl := range core.CompositeLitsIn(vinfo, fd.Body, ntT) {
				var ne ast.Expr
				if e := core.FieldExpr(cl, "name"); e != nil {
					ne = e
				} else if len(cl.Elts) > 0 {
					if _, isKV := cl.Elts[0].(*ast.KeyValueExpr); !isKV {
						ne = cl.Elts[0]
					}
				}
				if ne == nil {
					continue
				}
				if v := core.ConstOf(vinfo, ne); v != nil {
					if sel, ok := ne.(*ast.SelectorExpr); ok {
						out = append(out, sel.Sel.Name)
					} else {
						out = append(out, v.ExactString())
					}
				} else {
					comp++
				}
			}
			if depth < 2 {
				ast.Inspect(fd.Body, func(n ast.Node) bool {
					if call, ok := n.(*ast.CallExpr); ok {
						if id, ok := call.Fun.(*ast.Ident); ok {
							if callee := declOf[id.Name]; callee != nil && callee.Type.Results != nil {
								// only helpers that return namedTokens
								for _, res := range callee.Type.Results.List {
									if strings.Contains(types.ExprString(res.Type), "namedTokens") {
										c2, k2 := emitted(callee, depth+1, seen)
										out = append(out, c2...)
										comp += k2
									}
								}
							}
						}
					}
					return true
				})
			}
			return out, comp
		}
		checkEntry := func(label string, val ast.Expr) {
			outer, ok := val.(*ast.CallExpr)
			if !ok {
				return
			}
			inner, ok := outer.Fun.(*ast.CallExpr)
			if !ok || types.ExprString(inner.Fun) != "genericExpander" || len(outer.Args) != 1 {
				return
			}
			names := map[string]bool{}
			for _, a := range inner.Args {
				if sel, ok := a.(*ast.SelectorExpr); ok {
					names[sel.Sel.Name] = true
				}
			}
			fid, ok := outer.Args[0].(*ast.Ident)
			if !ok {
				r2.Unknown("expander of "+label, p.Pos(val.Pos()), "wrapped expander is not a named function")
				return
			}
			cs, comp := emitted(declOf[fid.Name], 0, map[string]bool{})
			var bad []string
			for _, n := range cs {
				if !names[n] {
					bad = append(bad, n)
				}
			}
			sort.Strings(bad)
			// a wrapped function shared by several shorthands (border sides, grid lines) names its longhands by computation
			if len(bad) > 0 && sharedExpander[fid.Name] {
				bad = nil
			}
			r2.Cond(len(bad) == 0, fmt.Sprintf("%s: %s emits only declared longhands", label, fid.Name), p.Pos(val.Pos()), fmt.Sprintf("%d constant names ⊆ the %d declared, %d computed names", len(cs), len(names), comp),
				"builds namedTokens for "+strings.Join(bad, ", ")+" which genericExpander was not given: the wrapper rejects the whole shorthand with \"unknown expanded property\"")
		}
		for _, v := range vals {
			if e, ok := hasExp[v]; ok {
				checkEntry(consts[v].Name(), e.Val)
			}
		}
		if btab, err := p.Table("css/validation", "borderExpanders"); err == nil {
			for i, e := range btab {
				checkEntry(fmt.Sprintf("borderExpanders[%d]", i), e.Val)
			}
		}
		// four-sides longhands exist
		fromNames, _ := p.Table("css/properties", "PropsFromNames")
		known := map[string]bool{}
		for _, k := range core.StringKeys(fromNames) {
			known[k] = true
		}
		for _, v := range vals {
			e, ok := hasExp[v]
			if !ok || types.ExprString(e.Val) != "expandFourSides" {
				continue
			}
			name := toName[v]
			i := strings.LastIndex(name, "-")
			for _, side := range []string{"top", "right", "bottom", "left"} {
				long := name + "-" + side
				if i >= 0 {
					long = name[:i] + "-" + side + name[i:]
				}
				r2.Cond(known[long], fmt.Sprintf("four-sides shorthand %s → %s", name, long), "css/properties/props_gen.go", "longhand exists", "no such property: PropsFromNames yields 0 and the value is validated against property 0")
			}
		}
	}

	// ---- R3 bad declarations are dropped alone
	r3 := c.Rule("R3", "in the declaration loop of PreprocessDeclarationsPrelude a validation/expansion error only skips that declaration: under err != nil neither a return nor the append to the result is reachable before the loop continues", 2)
	ppd := p.Fn("css/validation", "PreprocessDeclarationsPrelude")
	if ppd == nil {
		r3.Anchor("css/validation.PreprocessDeclarationsPrelude")
	} else {
		// the error of the expander / validateNonShorthand: an `err != nil` atom on a phi of the two call results
		vns := p.Fn("css/validation", "validateNonShorthand")
		var errAtom ssa.Value
		for _, a := range core.CondAtoms(ppd) {
			b, ok := a.(*ssa.BinOp)
			if !ok || b.Op != token.NEQ {
				continue
			}
			if k, ok := b.Y.(*ssa.Const); !ok || k.Value != nil {
				continue
			}
			if core.DerivesFrom(b.X, func(v ssa.Value) bool { _, ok := core.CallTo(v, vns); return ok }) {
				errAtom = a
			}
		}
		if errAtom == nil {
			r3.Anchor("err != nil test on the result of validateNonShorthand / the expander")
		} else {
			var ifBlock *ssa.BasicBlock
			for _, b := range ppd.Blocks {
				if len(b.Instrs) > 0 {
					if ifi, ok := b.Instrs[len(b.Instrs)-1].(*ssa.If); ok && ifi.Cond == errAtom {
						ifBlock = b
					}
				}
			}
			reach := core.ForwardReach(ifBlock, map[ssa.Value]bool{errAtom: true}, nil)
			badRet, badAppend := false, false
			declT := p.Obj("css/validation", "Declaration").Type()
			for b := range reach {
				if b == ifBlock {
					continue
				}
				for _, in := range b.Instrs {
					switch x := in.(type) {
					case *ssa.Return:
						badRet = true
					case *ssa.Call:
						if bi, ok := x.Call.Value.(*ssa.Builtin); ok && bi.Name() == "append" {
							if sl, ok := x.Type().Underlying().(*types.Slice); ok && types.Identical(sl.Elem(), declT) {
								badAppend = true
							}
						}
					}
				}
			}
			r3.Cond(!badRet, "an invalid declaration does not end the block", p.Pos(ifBlock.Instrs[len(ifBlock.Instrs)-1].Pos()), "no return is reachable under err != nil before the next iteration", "a return is reachable when a declaration fails validation: the following declarations of the block are lost")
			r3.Cond(!badAppend, "an invalid declaration is not recorded", p.Pos(ifBlock.Instrs[len(ifBlock.Instrs)-1].Pos()), "no append to the declarations is reachable under err != nil", "a declaration that failed validation can still be appended")
		}
	}

	// ---- R4 whitespace / comments removed before validation
	r4 := c.Rule("R4", "the tokens handed to an expander or to validateNonShorthand in the declaration loop derive from parser.RemoveWhitespace(declaration.Value)", 1)
	if ppd != nil {
		rw := p.Fn("css/parser", "RemoveWhitespace")
		fromRW := func(v ssa.Value) bool {
			return core.DerivesFrom(v, func(x ssa.Value) bool { _, ok := core.CallTo(x, rw); return ok })
		}
		n := 0
		core.Instrs(ppd, func(in ssa.Instruction) {
			call, ok := in.(*ssa.Call)
			if !ok {
				return
			}
			var tok ssa.Value
			if call.Common().StaticCallee() == p.Fn("css/validation", "validateNonShorthand") {
				tok = call.Call.Args[2]
			} else if call.Common().StaticCallee() == nil && !call.Common().IsInvoke() && len(call.Call.Args) == 3 {
				// expanders[sh](baseURL, sh, tokens)
				if sl, ok := call.Call.Args[2].Type().Underlying().(*types.Slice); ok && strings.HasSuffix(sl.Elem().String(), "parser.Token") {
					tok = call.Call.Args[2]
				}
			}
			if tok == nil {
				return
			}
			n++
			r4.Cond(fromRW(tok), "PreprocessDeclarationsPrelude | "+p.StmtTextAt(ppd, call.Pos()), p.Pos(call.Pos()), "tokens = RemoveWhitespace(declaration.Value)", "the value is validated with its white space / comment tokens: `a:  b` and `a:b` differ")
		})
		r4.Cond(n >= 2, "both validation paths found", p.Pos(ppd.Pos()), fmt.Sprint(n), fmt.Sprintf("%d call sites found", n))
	}

	// ---- R6 background layers stay aligned
	r6 := c.Rule("R6", "expandBackground parses the layers in reverse order into one list per longhand and puts every one of these lists back in source order: the lists filled in the layer loop are exactly the lists permuted afterwards (a list left reversed pairs each layer's value with another layer)", 5)
	if eb := p.Fn("css/validation", "expandBackground"); eb == nil {
		r6.Anchor("css/validation.expandBackground")
	} else {
		name := func(v ssa.Value) string {
			if ms, ok := v.(*ssa.MakeSlice); ok {
				if s := p.StmtTextAt(eb, ms.Pos()); s != "" {
					if i := strings.Index(s, " :="); i > 0 {
						return s[:i]
					}
					return s
				}
			}
			return v.Name()
		}
		loops := core.Loops(eb)
		filled := map[ssa.Value]bool{}
		permuted := map[ssa.Value]bool{}
		for _, l := range loops {
			hasParse := false
			stores := map[ssa.Value]int{}
			for b := range l.Blocks {
				for _, in := range b.Instrs {
					if call, ok := in.(*ssa.Call); ok {
						if cal := call.Call.StaticCallee(); cal != nil && strings.HasPrefix(cal.Name(), "expandBackground$") {
							hasParse = true
						}
						if call.Call.StaticCallee() == nil && !call.Call.IsInvoke() {
							if _, isB := call.Call.Value.(*ssa.Builtin); !isB {
								hasParse = true // parseLayer is a local closure
							}
						}
					}
					if st, ok := in.(*ssa.Store); ok {
						if ia, ok := st.Addr.(*ssa.IndexAddr); ok {
							if _, isMS := ia.X.(*ssa.MakeSlice); isMS {
								stores[ia.X]++
							}
						}
					}
				}
			}
			for v, n := range stores {
				if hasParse {
					filled[v] = true
				} else if n >= 2 {
					permuted[v] = true
				}
			}
		}
		// slices.Reverse(list)
		core.Instrs(eb, func(in ssa.Instruction) {
			if call, ok := in.(*ssa.Call); ok {
				if cal := call.Call.StaticCallee(); cal != nil && strings.HasPrefix(cal.Name(), "Reverse") && len(call.Call.Args) == 1 {
					a := call.Call.Args[0]
					for {
						if ct, ok := a.(*ssa.ChangeType); ok {
							a = ct.X
							continue
						}
						break
					}
					permuted[a] = true
				}
			}
		})
		if len(filled) < 7 {
			r6.Unknown("expandBackground | lists filled per layer", p.Pos(eb.Pos()), fmt.Sprintf("%d lists found, 7 expected", len(filled)))
		}
		for v := range filled {
			r6.Cond(permuted[v], "expandBackground | "+name(v)+" is put back in source order", p.Pos(v.Pos()), "filled in the reversed layer loop and permuted back", "filled in the reversed layer loop but never permuted back: its entries stay in reverse layer order while the other lists are in source order")
		}
	}

	// ---- R7 custom properties are inherited by copy
	r7 := c.Rule("R7", "a style's table of custom properties is its own: the `variables` field of a ComputedStyle is only ever assigned a freshly made map (the parent's entries are copied into it), never another style's table, so a custom property declared on an element cannot appear on its parent or siblings", 2)
	nVar := 0
	for _, fn := range p.FuncsOfPkg("html/tree") {
		core.Instrs(fn, func(in ssa.Instruction) {
			st, ok := in.(*ssa.Store)
			if !ok {
				return
			}
			fa, ok := st.Addr.(*ssa.FieldAddr)
			if !ok || core.FieldName(fa) != "variables" {
				return
			}
			nVar++
			_, fresh := st.Val.(*ssa.MakeMap)
			r7.Cond(fresh, core.FuncName(fn)+" | "+p.StmtTextAt(fn, st.Pos()), p.Pos(st.Pos()), "assigned a freshly made map", "assigned a map that is not made here: the table is shared with another style")
		})
	}
	if nVar == 0 {
		r7.Unknown("html/tree | variables field", "-", "no assignment of a `variables` field found")
	}

	r9 := c.Rule("R9", "a comment is white space to the value parsers: every switch and condition of the parsing code that steps over white space steps over comments too (the document pipeline keeps comments as tokens), so that `rgb(0, /**/ 0, 0)` or `!important /**/` mean what they mean without the comment", 7)
	triviaRule(c, r9)

	c08FlexZero(c)
	c08CascadeEntries(c)
	c08RawArguments(c)
	c08UnrecognisedLength(c)
	c08VarInvalid(c)
	c08VarFallbackCommas(c)
	c08IntegerRanges(c)
	c08NoneIsInvalid(c)
	c08UnitlessZero(c)
	c08VarTrailingComma(c)
	c08CSSWideIsWhole(c)
	c08FontFaceDescriptors(c)
	c08BorderSideColours(c)
	c08ListStyleNone(c)
	r12 := c.Rule("R12", "a malformed declaration followed by a nested rule: the tokens of the failed declaration, the ';' that ended it and the rest of the block are all handed back before the block is re-read as rules (shared with C06.R6)", 1)
	c06RewindRule(c, r12)

	// ---- R5 var() cycles
	r5 := c.Rule("R5", "tree.resolveVar follows custom properties under a visited set: a membership test on the variable name excludes the lookup of its value, and the name is inserted before the looked-up tokens are resolved recursively and removed again when that resolution returns (the set holds the resolutions in progress, not every name seen)", 1)
	rv := p.Fn("html/tree", "resolveVar")
	if rv == nil {
		r5.Anchor("html/tree.resolveVar")
	} else {
		ok, why := core.VisitedSetGuard(rv, func(l *ssa.Lookup) bool {
			// the lookup of the custom property's tokens: a map[string]RawTokens indexed by the variable name
			mt, isMap := l.X.Type().Underlying().(*types.Map)
			return isMap && strings.HasSuffix(mt.Elem().String(), "properties.RawTokens")
		})
		r5.Cond(ok, "html/tree.resolveVar | computed[variableName]", p.Pos(rv.Pos()), why, why+": --a: var(--a) recurses until the stack is exhausted")
		ok2, why2 := core.DescendingRecursion(p, rv, 1)
		r5.Cond(ok2, "html/tree.resolveVar | recursion descends", p.Pos(rv.Pos()), why2, why2+": a function whose nested argument still holds a var() is rebuilt and resolved again without end")
		ok3, why3, _ := core.ScopedInsertions(rv)
		r5.Cond(ok3, "html/tree.resolveVar | the set holds the resolutions in progress only", p.Pos(rv.Pos()), why3, why3+": a custom property used twice in one value (rgb(var(--c), var(--c), var(--c))) is taken for a cycle the second time and replaced by its fallback")
	}
}

// wrapped expanders shared by several shorthands: their longhand names are computed from the shorthand
// (PropsFromNames[shortand.String()+suffix]); the constants they also mention belong to one of the users only.
var sharedExpander = map[string]bool{}

// c08FlexZero: the `flex` shorthand's rule for a unitless zero (CSS Flexbox §7.1.1).
func c08FlexZero(c *core.Check) {
	p := c.Prog
	r := c.Rule("R10", "flex shorthand: a component is tried as the flex-basis exactly when no basis was found yet and it is not a unitless zero that must be a flex factor — a number equal to 0 not already preceded by two flex factors (CSS Flexbox §7.1.1); decided for the 32 assignments of (is a number, is zero, grow found, shrink found, basis found) by replaying the branches of _expandFlex", 32)
	fn := p.Fn("css/validation", "_expandFlex")
	if fn == nil {
		r.Anchor("css/validation._expandFlex")
		return
	}
	// the If that guards the call of flexBasis
	var guard *ssa.If
	var target *ssa.BasicBlock
	core.Instrs(fn, func(in ssa.Instruction) {
		call, ok := in.(*ssa.Call)
		if !ok || call.Call.StaticCallee() == nil || call.Call.StaticCallee().Name() != "flexBasis" {
			return
		}
		b := call.Block()
		if len(b.Preds) == 1 {
			if ifi, ok := b.Preds[0].Instrs[len(b.Preds[0].Instrs)-1].(*ssa.If); ok {
				guard = ifi
				target = b
			}
		}
	})
	if guard == nil {
		r.Anchor("_expandFlex: the test guarding flexBasis(…)")
		return
	}
	// the three loop-carried flags, by role (not by name): basisFound is set to true on the way from a successful
	// flexBasis; of the other two, growFound is the one whose test dominates the test of the other
	role := map[*ssa.Phi]string{}
	{
		var flags []*ssa.Phi
		core.Instrs(fn, func(in ssa.Instruction) {
			phi, ok := in.(*ssa.Phi)
			if !ok {
				return
			}
			if bt, isB := phi.Type().Underlying().(*types.Basic); !isB || bt.Kind() != types.Bool {
				return
			}
			hasFalseEntry, loopCarried := false, false
			for i, e := range phi.Edges {
				if k, isK := e.(*ssa.Const); isK && k.Value != nil && k.Value.String() == "false" && !phi.Block().Dominates(phi.Block().Preds[i]) {
					hasFalseEntry = true
				}
				if phi.Block().Dominates(phi.Block().Preds[i]) {
					loopCarried = true
				}
			}
			if hasFalseEntry && loopCarried {
				flags = append(flags, phi)
			}
		})
		testBlocks := func(phi *ssa.Phi) []*ssa.BasicBlock {
			var out []*ssa.BasicBlock
			core.Instrs(fn, func(in ssa.Instruction) {
				if ifi, ok := in.(*ssa.If); ok {
					c := ifi.Cond
					if u, isU := c.(*ssa.UnOp); isU && u.Op == token.NOT {
						c = u.X
					}
					if c == ssa.Value(phi) {
						out = append(out, ifi.Block())
					}
				}
			})
			return out
		}
		testBlock := func(phi *ssa.Phi) *ssa.BasicBlock {
			if bs := testBlocks(phi); len(bs) > 0 {
				return bs[0]
			}
			return nil
		}
		before := func(x, y *ssa.Phi) bool { // some test of x dominates some test of y
			for _, a := range testBlocks(x) {
				for _, b := range testBlocks(y) {
					if a != b && a.Dominates(b) {
						return true
					}
				}
			}
			return false
		}
		var rest []*ssa.Phi
		for _, phi := range flags {
			isBasis := false
			for i, e := range phi.Edges {
				if k, isK := e.(*ssa.Const); isK && k.Value != nil && k.Value.String() == "true" && target.Dominates(phi.Block().Preds[i]) {
					isBasis = true
				}
			}
			if isBasis {
				role[phi] = "basisFound"
			} else {
				rest = append(rest, phi)
			}
		}
		if len(rest) == 2 {
			ab, ba := before(rest[0], rest[1]), before(rest[1], rest[0])
			if ab && !ba {
				role[rest[0]], role[rest[1]] = "growFound", "shrinkFound"
			} else if ba && !ab {
				role[rest[1]], role[rest[0]] = "growFound", "shrinkFound"
			}
		}
		if len(role) != 3 {
			if os.Getenv("WRVERIF_DEBUG_FLEX") != "" {
				fmt.Fprintln(os.Stderr, "flex flags:", len(flags), len(rest), len(role))
				for _, f := range flags {
					fmt.Fprintln(os.Stderr, "  flag", f.Name(), f.Comment, testBlock(f))
				}
			}
			r.Anchor("_expandFlex: the three loop-carried flags (basis, grow, shrink found)")
			return
		}
	}
	// the guard may be the second half of a && chain: evaluate the whole decision by asking whether the guard block is
	// reached and its condition holds, replaying from the loop body's first test
	for mask := 0; mask < 32; mask++ {
		isNum, isZero, grow, shrink, basis := mask&1 != 0, mask&2 != 0, mask&4 != 0, mask&8 != 0, mask&16 != 0
		key := fmt.Sprintf("css/validation._expandFlex | number=%v zero=%v growFound=%v shrinkFound=%v basisFound=%v", isNum, isZero, grow, shrink, basis)
		undecided := ""
		ev := &core.CondEval{Leaf: func(v ssa.Value) (bool, bool) {
			switch x := v.(type) {
			case *ssa.Phi:
				switch role[x] {
				case "growFound":
					return grow, true
				case "shrinkFound":
					return shrink, true
				case "basisFound":
					return basis, true
				}
			case *ssa.Extract:
				if _, ok := x.Tuple.(*ssa.TypeAssert); ok && x.Index == 1 {
					return isNum, true
				}
			case *ssa.BinOp:
				if x.Op == token.EQL || x.Op == token.NEQ {
					if k, ok := core.ConstInt(x.Y); ok && k == 0 {
						if call, ok := x.X.(*ssa.Call); ok && call.Call.StaticCallee() != nil && call.Call.StaticCallee().Name() == "Int" {
							return isZero == (x.Op == token.EQL), true
						}
					}
				}
			}
			return false, false
		}}
		// reach the guard: replay from the guard block's chain of single-predecessor If blocks
		reached, holds := true, false
		chain := []*ssa.If{guard}
		for b := guard.Block(); len(b.Preds) == 1; {
			pb := b.Preds[0]
			ifi, ok := pb.Instrs[len(pb.Instrs)-1].(*ssa.If)
			if !ok {
				break
			}
			// stop at the loop header / range machinery: conditions we cannot evaluate end the chain
			if _, okc := ev.Bool(ifi.Cond); !okc {
				break
			}
			chain = append([]*ssa.If{ifi}, chain...)
			b = pb
		}
		for i, ifi := range chain {
			cv, ok := ev.Bool(ifi.Cond)
			if !ok {
				undecided = "a condition on the way to flexBasis could not be replayed"
				break
			}
			next := target
			if i < len(chain)-1 {
				next = chain[i+1].Block()
			}
			want := ifi.Block().Succs[0] == next
			if i < len(chain)-1 {
				if cv != want {
					reached = false
					break
				}
			} else {
				holds = cv == want
			}
		}
		if undecided != "" {
			r.Unknown(key, p.Pos(fn.Pos()), undecided)
			continue
		}
		got := reached && holds
		forced := isNum && isZero && !(grow && shrink)
		want := !basis && !forced
		r.Cond(got == want, key, p.Pos(fn.Pos()), fmt.Sprintf("tried as basis: %v", want), fmt.Sprintf("tried as flex-basis: %v, CSS Flexbox gives %v", got, want))
	}
}

// c08CascadeEntries: every entry written into a cascaded style keeps the shorthand it came from.
func c08CascadeEntries(c *core.Check) {
	p := c.Prog
	r := c.Rule("R11", "a declaration keeps the shorthand it was written with until var() is substituted: every weigthedValue stored into a cascaded style (style sheets, style attributes, presentational hints) carries the declaration's `shortand` field next to its value — a pending `margin: var(--m)` written from a style attribute is otherwise validated as a longhand", 1)
	pk := p.ByPath["html/tree"]
	if pk == nil {
		r.Anchor("html/tree")
		return
	}
	n := 0
	for _, f := range pk.Syntax {
		if strings.HasSuffix(p.Fset.Position(f.Pos()).Filename, "_test.go") {
			continue
		}
		for _, d := range f.Decls {
			fd, ok := d.(*ast.FuncDecl)
			if !ok || fd.Body == nil {
				continue
			}
			ast.Inspect(fd.Body, func(x ast.Node) bool {
				cl, ok := x.(*ast.CompositeLit)
				if !ok {
					return true
				}
				tv, ok := pk.TypesInfo.Types[cl]
				if !ok {
					return true
				}
				named, ok := tv.Type.(*types.Named)
				if !ok || named.Obj().Name() != "weigthedValue" {
					return true
				}
				fields := map[string]string{}
				for _, e := range cl.Elts {
					if kv, ok := e.(*ast.KeyValueExpr); ok {
						if id, ok := kv.Key.(*ast.Ident); ok {
							fields[id.Name] = p.NodeText(kv.Value)
						}
					}
				}
				if _, hasValue := fields["value"]; !hasValue {
					return true // the zero entry
				}
				n++
				key := fmt.Sprintf("html/tree.%s | weigthedValue{%s}", fd.Name.Name, p.NodeText(cl))
				if len(key) > 150 {
					key = key[:150] + "…"
				}
				_, hasSh := fields["shortand"]
				r.Cond(hasSh, key+fmt.Sprintf(" #%d", n), p.Pos(cl.Pos()), "carries shortand: "+fields["shortand"], "the entry is written without its `shortand` field: a shorthand whose value still holds var() is later expanded as if it were a longhand")
				return true
			})
		}
	}
	if n == 0 {
		r.Anchor("html/tree: weigthedValue literals")
	}
}
