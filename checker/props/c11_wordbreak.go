package props

import (
	"fmt"
	"go/constant"
	"go/token"
	"go/types"
	"os"
	"strings"

	"golang.org/x/tools/go/ssa"

	"wrverif/core"
)

// c11WordBreak: when may a word be broken at an arbitrary character? CSS Text 3 §5.2/§5.5: word-break: break-all
// always allows it; overflow-wrap: anywhere / break-word only when the line has no other break opportunity (the word
// starts the line), and break-word opportunities are not considered when computing min-content sizes.
// The rule enumerates every truth assignment of the six tests between the computation of the permission and the call
// that switches the layout to character wrapping, and compares reachability of that call with the formula.
func c11WordBreak(c *core.Check) {
	p := c.Prog
	r := c.Rule("R8", "splitFirstLine re-wraps the text at character level (SetWrap(WRAP_CHAR)) exactly when the line overflows and word-break is break-all, or the word starts the line and overflow-wrap is anywhere, or break-word outside the min-content computation; decided for every truth assignment of the tests on the paths to that call, in both text engines", 2)
	for _, site := range []struct{ typ, fn, call string }{
		{"FontConfigurationPango", "splitFirstLine", "SetWrap"},
		{"FontConfigurationGotext", "splitFirstLine", "wrapWordBreak"},
	} {
		fn := p.Method("text", site.typ, site.fn)
		if fn == nil {
			r.Anchor("text.(*" + site.typ + ")." + site.fn)
			continue
		}
		c11WordBreakSite(c, r, fn, site.typ, site.call)
	}
}

func c11WordBreakSite(c *core.Check, r *core.Rule, fn *ssa.Function, typ, callName string) {
	p := c.Prog
	constOf := func(name string) (string, bool) {
		pk := p.ByPath["text"]
		if pk == nil {
			return "", false
		}
		cst, ok := pk.Types.Scope().Lookup(name).(*types.Const)
		if !ok {
			return "", false
		}
		return cst.Val().ExactString(), true
	}
	breakAll, ok1 := constOf("WBBreakAll")
	anywhere, ok2 := constOf("OAnywhere")
	breakWord, ok3 := constOf("OBreakWord")
	if !ok1 || !ok2 || !ok3 {
		r.Anchor("text.WBBreakAll / OAnywhere / OBreakWord")
		return
	}
	// target: the block calling SetWrap
	var target *ssa.BasicBlock
	core.Instrs(fn, func(in ssa.Instruction) {
		if call, ok := in.(*ssa.Call); ok {
			if cal := call.Call.StaticCallee(); cal != nil && cal.Name() == callName {
				target = call.Block()
			}
		}
	})
	if target == nil {
		r.Anchor("call of " + callName + " in " + typ + ".splitFirstLine")
		return
	}
	// classify the condition atoms
	type role int
	const (
		rNone role = iota
		rBreakAll
		rAnywhere
		rBreakWord
		rLineStart
		rMinimum
		rOverflow
	)
	fieldOf := func(v ssa.Value) string {
		v = core.Unwrap(v)
		for _, name := range []string{"WordBreak", "OverflowWrap"} {
			if core.IsFieldNamed(v, name) {
				return name
			}
		}
		return ""
	}
	classify := func(a ssa.Value) (role, bool) { // role, negated (atom true means role false)
		switch x := a.(type) {
		case *ssa.Parameter:
			switch x.Name() {
			case "isLineStart":
				return rLineStart, false
			case "minimum":
				return rMinimum, false
			}
		case *ssa.BinOp:
			cx, isCx := x.X.(*ssa.Const)
			cy, isCy := x.Y.(*ssa.Const)
			val, other := "", ssa.Value(nil)
			switch {
			case isCy && cy.Value != nil:
				val, other = cy.Value.ExactString(), x.X
			case isCx && cx.Value != nil:
				val, other = cx.Value.ExactString(), x.Y
			default:
				return rNone, false
			}
			if x.Op == token.EQL || x.Op == token.NEQ {
				neg := x.Op == token.NEQ
				switch fieldOf(other) {
				case "WordBreak":
					if val == breakAll {
						return rBreakAll, neg
					}
				case "OverflowWrap":
					if val == anywhere {
						return rAnywhere, neg
					}
					if val == breakWord {
						return rBreakWord, neg
					}
				}
				return rNone, false
			}
			// space < 0 : a float comparison with zero
			if bt, ok := other.Type().Underlying().(*types.Basic); ok && bt.Info()&types.IsFloat != 0 {
				if cv := constant.ToFloat(constant.MakeFromLiteral(val, token.FLOAT, 0)); cv.Kind() == constant.Float || cv.Kind() == constant.Int {
					if constant.Sign(cv) == 0 {
						switch {
						case x.Op == token.LSS && isCy, x.Op == token.GTR && isCx:
							return rOverflow, false
						case x.Op == token.GEQ && isCy, x.Op == token.LEQ && isCx:
							return rOverflow, true
						}
					}
				}
			}
		}
		return rNone, false
	}
	// the region: If blocks from which the target is reachable and that are dominated by the first word-break test
	var start *ssa.BasicBlock
	for _, b := range fn.Blocks {
		if len(b.Instrs) == 0 {
			continue
		}
		ifi, ok := b.Instrs[len(b.Instrs)-1].(*ssa.If)
		if !ok {
			continue
		}
		found := false
		for _, a := range core.ExpandBoolPhi(ifi.Cond) {
			if rl, _ := classify(a); rl == rBreakAll || rl == rAnywhere || rl == rBreakWord {
				found = true
			}
		}
		if found && core.ForwardReach(b, nil, nil)[target] && (start == nil || b.Dominates(start)) {
			if start == nil || b.Dominates(start) {
				start = b
			}
		}
	}
	if start == nil {
		r.Anchor("tests of word-break / overflow-wrap before SetWrap in splitFirstLine")
		return
	}
	atoms := map[role]ssa.Value{}
	negs := map[role]bool{}
	var unknown []string
	for _, b := range fn.Blocks {
		if len(b.Instrs) == 0 || !(start == b || start.Dominates(b)) {
			continue
		}
		ifi, ok := b.Instrs[len(b.Instrs)-1].(*ssa.If)
		if !ok || b == target || !core.ForwardReach(b, nil, nil)[target] {
			continue
		}
		for _, a := range core.ExpandBoolPhi(ifi.Cond) {
			rl, neg := classify(a)
			if os.Getenv("WRVERIF_DEBUG_WB") != "" {
				fmt.Fprintln(os.Stderr, "wb atom", b.Index, a.Name(), a.String(), rl, neg)
			}
			if rl == rNone {
				unknown = append(unknown, p.Pos(a.Pos()))
				continue
			}
			if prev, dup := atoms[rl]; dup && prev != a {
				unknown = append(unknown, "second test of the same condition at "+p.Pos(a.Pos()))
				continue
			}
			atoms[rl], negs[rl] = a, neg
		}
	}
	key := "text.(*" + typ + ").splitFirstLine | character wrapping permission"
	if len(unknown) > 0 {
		r.Unknown(key, p.Pos(fn.Pos()), "tests on the way to SetWrap(WRAP_CHAR) that are not one of the six conditions: "+strings.Join(unknown, ", "))
		return
	}
	roles := []role{rBreakAll, rAnywhere, rBreakWord, rLineStart, rMinimum, rOverflow}
	names := map[role]string{rBreakAll: "word-break=break-all", rAnywhere: "overflow-wrap=anywhere", rBreakWord: "overflow-wrap=break-word", rLineStart: "line start", rMinimum: "min-content", rOverflow: "overflows"}
	for _, rl := range roles {
		if atoms[rl] == nil {
			r.Fail(key, p.Pos(fn.Pos()), "the permission does not depend on "+names[rl])
			return
		}
	}
	var diffs []string
	n := 0
	for mask := 0; mask < 1<<len(roles); mask++ {
		val := map[role]bool{}
		for i, rl := range roles {
			val[rl] = mask&(1<<i) != 0
		}
		if val[rAnywhere] && val[rBreakWord] {
			continue // one property, one value
		}
		n++
		assign := map[ssa.Value]bool{}
		for _, rl := range roles {
			assign[atoms[rl]] = val[rl] != negs[rl]
		}
		got := core.ForwardReach(start, assign, nil)[target]
		want := val[rOverflow] && (val[rBreakAll] || (val[rLineStart] && (val[rAnywhere] || (val[rBreakWord] && !val[rMinimum]))))
		if got != want {
			var on []string
			for _, rl := range roles {
				if val[rl] {
					on = append(on, names[rl])
				}
			}
			diffs = append(diffs, fmt.Sprintf("{%s}: wraps at characters = %v, CSS Text gives %v", strings.Join(on, ", "), got, want))
		}
	}
	if len(diffs) > 4 {
		diffs = append(diffs[:4], fmt.Sprintf("… %d more", len(diffs)-4))
	}
	r.Cond(len(diffs) == 0, key, p.Pos(target.Instrs[0].Pos()), fmt.Sprintf("%d assignments agree with overflow ∧ (break-all ∨ (line start ∧ (anywhere ∨ (break-word ∧ ¬min-content))))", n), strings.Join(diffs, "; "))
}
