package props

import (
	"fmt"
	"go/types"
	"sort"
	"strings"

	"golang.org/x/tools/go/ssa"

	"wrverif/core"
)

// c01VisitedTravels (R29): a recursion that follows references by name (the fallback of a counter style, a custom
// property) ends on a cycle because the set of names already followed is handed from one level to the next.  In the
// recursive component of each such function, every call from a function that received the set to a function of the
// component passes that set on: a level that calls back through an entry point which creates a fresh set forgets
// what was tried (two `fixed` counter styles that fall back to each other recursed until the stack overflowed).
func c01VisitedTravels(c *core.Check) {
	p := c.Prog
	r := c.Rule("R29", "the visited set travels with the recursion: in the recursive components of counters.(CounterStyle).renderValue and tree.resolveVar, every call from a function that has a utils.Set parameter to a function of the component passes a value derived from that parameter, unless the style it names is a constant (the last resort, decimal)", 12)
	roots := []*ssa.Function{p.Method("css/counters", "CounterStyle", "renderValue"), p.Fn("html/tree", "resolveVar")}
	for i, root := range roots {
		if root == nil {
			r.Anchor([]string{"css/counters.(CounterStyle).renderValue", "html/tree.resolveVar"}[i])
			continue
		}
		scc := p.SCCOf(root)
		var fns []*ssa.Function
		for f := range scc {
			fns = append(fns, f)
		}
		sort.Slice(fns, func(i, j int) bool { return core.FuncName(fns[i]) < core.FuncName(fns[j]) })
		for _, fn := range fns {
			var set *ssa.Parameter
			for _, prm := range fn.Params {
				if strings.HasSuffix(prm.Type().String(), "utils.Set") {
					set = prm
				}
			}
			if set == nil {
				continue
			}
			k := 0
			core.Instrs(fn, func(in ssa.Instruction) {
				call, ok := in.(*ssa.Call)
				if !ok {
					return
				}
				callee := call.Call.StaticCallee()
				if callee == nil || !scc[callee] {
					return
				}
				k++
				key := fmt.Sprintf("%s | recursive call of %s #%d", core.FuncName(fn), callee.Name(), k)
				passed := false
				for _, a := range call.Call.Args {
					if core.DerivesFrom(a, func(v ssa.Value) bool { return v == ssa.Value(set) }) {
						passed = true
					}
				}
				if !passed {
					// the last resort: a style named by a constant ("decimal") is not a reference of the document
					constName, other := false, false
					for _, a := range call.Call.Args {
						if b, ok := a.Type().Underlying().(*types.Basic); ok && b.Info()&types.IsString != 0 {
							if _, isK := a.(*ssa.Const); isK {
								constName = true
							} else {
								other = true
							}
						}
					}
					if constName && !other {
						r.OK(key, p.Pos(call.Pos()), "the style is named by a constant: not a reference followed from the document")
						return
					}
				}
				r.Cond(passed, key, p.Pos(call.Pos()), "the set received is passed on", "the recursion goes on through "+callee.Name()+" without the set of names already followed: a cycle of references is followed until the stack overflows")
			})
		}
	}
}
