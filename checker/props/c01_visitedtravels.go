package props

import (
	"fmt"
	"go/token"
	"go/types"
	"sort"
	"strings"

	"golang.org/x/tools/go/ssa"

	"wrverif/core"
)

// c01VisitedTravels (R29): a recursion that follows references by name (the fallback of a counter style, a custom
// property) ends on a cycle because the set of names already followed is handed from one level to the next.  In the
// recursive component of each such function, every call from a function that received the set to a function of the
// component passes that set on: a level that calls back through an entry point which creates a fresh set forgets
// what was tried (two `fixed` counter styles that fall back to each other recursed until the stack overflowed).
func c01VisitedTravels(c *core.Check) {
	p := c.Prog
	r := c.Rule("R29", "the visited set travels with the recursion: in the recursive components of counters.(CounterStyle).renderValue and tree.resolveVar, every call from a function that has a utils.Set parameter to a function of the component passes a value derived from that parameter, unless the style it names is a constant (the last resort, decimal)", 12)
	roots := []*ssa.Function{p.Method("css/counters", "CounterStyle", "renderValue"), p.Fn("html/tree", "resolveVar")}
	for i, root := range roots {
		if root == nil {
			r.Anchor([]string{"css/counters.(CounterStyle).renderValue", "html/tree.resolveVar"}[i])
			continue
		}
		scc := p.SCCOf(root)
		var fns []*ssa.Function
		for f := range scc {
			fns = append(fns, f)
		}
		sort.Slice(fns, func(i, j int) bool { return core.FuncName(fns[i]) < core.FuncName(fns[j]) })
		for _, fn := range fns {
			var set *ssa.Parameter
			for _, prm := range fn.Params {
				if strings.HasSuffix(prm.Type().String(), "utils.Set") {
					set = prm
				}
			}
			if set == nil {
				continue
			}
			k := 0
			core.Instrs(fn, func(in ssa.Instruction) {
				call, ok := in.(*ssa.Call)
				if !ok {
					return
				}
				callee := call.Call.StaticCallee()
				if callee == nil || !scc[callee] {
					return
				}
				k++
				key := fmt.Sprintf("%s | recursive call of %s #%d", core.FuncName(fn), callee.Name(), k)
				passed := false
				for _, a := range call.Call.Args {
					if core.DerivesFrom(a, func(v ssa.Value) bool { return v == ssa.Value(set) }) {
						passed = true
					}
				}
				if !passed {
					// the last resort: a style named by a constant ("decimal") is not a reference of the document
					constName, other := false, false
					for _, a := range call.Call.Args {
						if b, ok := a.Type().Underlying().(*types.Basic); ok && b.Info()&types.IsString != 0 {
							if _, isK := a.(*ssa.Const); isK {
								constName = true
							} else {
								other = true
							}
						}
					}
					if constName && !other {
						r.OK(key, p.Pos(call.Pos()), "the style is named by a constant: not a reference followed from the document")
						return
					}
				}
				r.Cond(passed, key, p.Pos(call.Pos()), "the set received is passed on", "the recursion goes on through "+callee.Name()+" without the set of names already followed: a cycle of references is followed until the stack overflows")
			})
		}
	}
}

// c01EmptyGrid (R30): collapseTableBorders builds one row of borders per grid row and indexes the rows and the
// columns it was told the grid has; a table with columns but no row (`<table><col></table>`) or rows without cells
// has one of the two numbers zero.  Everything after the early return is reached only when both gridWidth and
// gridHeight were found different from zero (with `&&` in place of `||` a collapsed-border table with a column and
// no row panics in BuildFormattingStructure).
func c01EmptyGrid(c *core.Check) {
	p := c.Prog
	r := c.Rule("R30", "no border grid for an empty table: in html/boxes.collapseTableBorders the first allocation of a grid is reached only when gridWidth and gridHeight were both compared with zero and found different", 1)
	fn := p.Fn("html/boxes", "collapseTableBorders")
	if fn == nil {
		r.Anchor("html/boxes.collapseTableBorders")
		return
	}
	key := "html/boxes.collapseTableBorders | both dimensions non-zero"
	var site *ssa.BasicBlock
	core.Instrs(fn, func(in ssa.Instruction) {
		if _, ok := in.(*ssa.MakeSlice); ok && site == nil {
			site = in.Block()
		}
	})
	if site == nil || len(fn.Params) < 3 {
		r.Unknown(key, p.Pos(fn.Pos()), "no allocation of a grid found")
		return
	}
	type zt struct {
		atom  ssa.Value
		param string
		eq    bool
	}
	var zs []zt
	var atoms []ssa.Value
	for _, a := range core.CondAtoms(fn) {
		b, ok := a.(*ssa.BinOp)
		if !ok || (b.Op != token.EQL && b.Op != token.NEQ) {
			continue
		}
		if k, ok := core.ConstInt(b.Y); !ok || k != 0 {
			continue
		}
		// gridWidth*gridHeight == 0 tests both at once
		if mul, ok := b.X.(*ssa.BinOp); ok && mul.Op == token.MUL {
			px, okx := mul.X.(*ssa.Parameter)
			py, oky := mul.Y.(*ssa.Parameter)
			if okx && oky && ((px.Name() == "gridWidth" && py.Name() == "gridHeight") || (px.Name() == "gridHeight" && py.Name() == "gridWidth")) {
				zs = append(zs, zt{a, "gridWidth", b.Op == token.EQL}, zt{a, "gridHeight", b.Op == token.EQL})
				atoms = append(atoms, a)
			}
			continue
		}
		prm, ok := b.X.(*ssa.Parameter)
		if !ok || (prm.Name() != "gridWidth" && prm.Name() != "gridHeight") {
			continue
		}
		zs = append(zs, zt{a, prm.Name(), b.Op == token.EQL})
		atoms = append(atoms, a)
	}
	ok, _ := core.GuardedBy(fn, site, atoms, func(m map[ssa.Value]bool) bool {
		nz := map[string]bool{}
		for _, z := range zs {
			if m[z.atom] != z.eq { // the test says "not zero"
				nz[z.param] = true
			}
		}
		return nz["gridWidth"] && nz["gridHeight"]
	})
	r.Cond(ok, key, p.Pos(fn.Pos()), "the grids are allocated only for a table with rows and columns", "a path reaches the allocation of the grids with gridWidth or gridHeight possibly zero: rows or columns that do not exist are indexed")
}

// c01NestedSelectorBound (R34): every `&` of a nested rule is replaced by the parent selector, so the selector handed
// to the next level of PreprocessDeclarationsPrelude grows by a factor (the number of `&`) per nesting level: a
// 230-byte style sheet costs hours and gigabytes.  The recursive call is reached only when a test of the selector it
// passes on — a call, deciding a branch, of a function that receives that same value and compares a count with a
// bound — came out false.
func c01NestedSelectorBound(c *core.Check) {
	p := c.Prog
	r := c.Rule("R34", "the expansion of & is bounded: in css/validation.PreprocessDeclarationsPrelude the recursive call for a nested rule is unreachable when a size test of the selector it passes on (a call, deciding a branch, of a function that receives the same value and holds an ordered comparison) is true", 1)
	fn := p.Fn("css/validation", "PreprocessDeclarationsPrelude")
	if fn == nil {
		r.Anchor("css/validation.PreprocessDeclarationsPrelude")
		return
	}
	n := 0
	core.Instrs(fn, func(in ssa.Instruction) {
		rec, ok := in.(*ssa.Call)
		if !ok || rec.Call.StaticCallee() != fn || len(rec.Call.Args) < 3 {
			return
		}
		n++
		key := fmt.Sprintf("css/validation.PreprocessDeclarationsPrelude | recursive call #%d", n)
		passed := rec.Call.Args[2]
		hasOrdered := func(g *ssa.Function) bool {
			found := false
			core.Instrs(g, func(in2 ssa.Instruction) {
				if b, ok := in2.(*ssa.BinOp); ok {
					switch b.Op {
					case token.LSS, token.LEQ, token.GTR, token.GEQ:
						found = true
					}
				}
			})
			return found
		}
		var guards []ssa.Value
		guardTrueMeansTooLarge := map[ssa.Value]bool{}
		for _, a := range core.CondAtoms(fn) {
			call, ok := a.(*ssa.Call)
			if !ok {
				// size(selector) > bound: the comparison is made here on the result of a counting function
				if cmp, isCmp := a.(*ssa.BinOp); isCmp {
					for _, side := range []ssa.Value{cmp.X, cmp.Y} {
						if sc, ok := side.(*ssa.Call); ok && sc.Call.StaticCallee() != nil && sc.Call.StaticCallee() != fn {
							for _, arg := range sc.Call.Args {
								if arg == passed {
									switch {
									case (cmp.Op == token.GTR || cmp.Op == token.GEQ) && side == cmp.X, (cmp.Op == token.LSS || cmp.Op == token.LEQ) && side == cmp.Y:
										guards = append(guards, a)
										guardTrueMeansTooLarge[a] = true
									case (cmp.Op == token.LSS || cmp.Op == token.LEQ) && side == cmp.X, (cmp.Op == token.GTR || cmp.Op == token.GEQ) && side == cmp.Y:
										guards = append(guards, a)
										guardTrueMeansTooLarge[a] = false
									}
								}
							}
						}
					}
				}
				continue
			}
			if call.Call.StaticCallee() == nil || call.Call.StaticCallee() == fn {
				continue
			}
			takes := false
			for _, arg := range call.Call.Args {
				if arg == passed {
					takes = true
				}
			}
			if takes && hasOrdered(call.Call.StaticCallee()) {
				guards = append(guards, a)
			}
		}
		if len(guards) == 0 {
			r.Fail(key, p.Pos(rec.Pos()), "no size test of the selector passed to the next level decides a branch: the selector grows by the number of & per nesting level without limit")
			return
		}
		ok2, _ := core.GuardedBy(fn, rec.Block(), guards, func(m map[ssa.Value]bool) bool {
			for a, v := range m {
				tooLargeWhen, known := guardTrueMeansTooLarge[a]
				if !known {
					tooLargeWhen = true // a boolean test function: true means "exceeds"
				}
				if v == tooLargeWhen {
					return false
				}
			}
			return true
		})
		r.Cond(ok2, key, p.Pos(rec.Pos()), "unreachable when the size test of the selector is true", "the recursive call is reached although the size test of the selector came out true")
	})
	if n == 0 {
		r.Skip("css/validation.PreprocessDeclarationsPrelude | recursive call", p.Pos(fn.Pos()), "the function does not call itself: nested rules are not expanded here")
	}
}
