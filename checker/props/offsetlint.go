package props

import (
	"fmt"
	"go/token"
	"go/types"
	"os"
	"regexp"
	"sort"

	"golang.org/x/tools/go/ssa"

	"wrverif/core"
)

// offsetLin folds an integer value into a linear form over opaque leaves, expanding len(x[a:b]) to b − a
// (len(x) − a without upper bound).
func offsetLin(v ssa.Value, depth int) (core.Lin, bool) {
	if depth > 10 {
		return core.Lin{}, false
	}
	one := func(n string) core.Lin { return core.Lin{T: map[string]int64{n: 1}} }
	var path func(v ssa.Value) string
	path = func(v ssa.Value) string {
		switch x := v.(type) {
		case *ssa.Parameter:
			return x.Name()
		case *ssa.UnOp:
			if x.Op == token.MUL {
				if fa, ok := x.X.(*ssa.FieldAddr); ok {
					return path(fa.X) + "." + core.FieldName(fa)
				}
				if par, ok := x.X.(*ssa.Parameter); ok {
					return "*" + par.Name()
				}
			}
		case *ssa.Call:
			if cal := x.Call.StaticCallee(); cal != nil && cal.Name() == "Box" && len(x.Call.Args) == 1 {
				return path(x.Call.Args[0])
			}
			if x.Call.IsInvoke() && x.Call.Method.Name() == "Box" {
				return path(x.Call.Value)
			}
		}
		return v.Name()
	}
	var lenOf func(v ssa.Value, d int) (core.Lin, bool)
	lenOf = func(v ssa.Value, d int) (core.Lin, bool) {
		if d > 6 {
			return core.Lin{}, false
		}
		if s, ok := v.(*ssa.Slice); ok {
			var hi core.Lin
			var okh bool
			if s.High != nil {
				hi, okh = offsetLin(s.High, depth+1)
			} else {
				hi, okh = lenOf(s.X, d+1)
			}
			if !okh {
				return core.Lin{}, false
			}
			if s.Low == nil {
				return hi, true
			}
			lo, okl := offsetLin(s.Low, depth+1)
			if !okl {
				return core.Lin{}, false
			}
			return hi.Plus(lo, -1), true
		}
		return one("len(" + path(v) + ")"), true
	}
	switch x := v.(type) {
	case *ssa.Call:
		if b, isB := x.Call.Value.(*ssa.Builtin); isB && b.Name() == "len" {
			return lenOf(x.Call.Args[0], 0)
		}
	case *ssa.Phi:
		return one("φ" + x.Comment + "/" + x.Name()), true // the register keeps distinct variables apart; stripped from keys
	}
	return core.LinearOf(v, func(l ssa.Value) string {
		switch y := l.(type) {
		case *ssa.Call:
			if b, isB := y.Call.Value.(*ssa.Builtin); isB && b.Name() == "len" {
				if _, isSlice := y.Call.Args[0].(*ssa.Slice); !isSlice {
					return "len(" + path(y.Call.Args[0]) + ")"
				}
				return ""
			}
			return y.Name()
		case *ssa.Parameter:
			return y.Name()
		case *ssa.Const, *ssa.BinOp, *ssa.Convert, *ssa.ChangeType, *ssa.Phi:
			return ""
		}
		return l.Name()
	}, depth)
}

// offsetLintSites lists the integer comparisons of a package whose normalised form has a coefficient of
// magnitude 2 or more on a leaf: the same offset counted twice (an absolute index against a relative length).
func offsetLintSites(p *core.Prog, pkg string) (sites []string, pos map[string]token.Pos, total int) {
	pos = map[string]token.Pos{}
	for _, fn := range p.FuncsOfPkg(pkg) {
		fn := fn
		core.Instrs(fn, func(in ssa.Instruction) {
			b, ok := in.(*ssa.BinOp)
			if !ok {
				return
			}
			switch b.Op {
			case token.LSS, token.LEQ, token.GTR, token.GEQ, token.EQL, token.NEQ:
			default:
				return
			}
			bt, isB := b.X.Type().Underlying().(*types.Basic)
			if !isB || bt.Info()&types.IsInteger == 0 {
				return
			}
			x, ok1 := offsetLinFull(b.X)
			y, ok2 := offsetLinFull(b.Y)
			if !ok1 || !ok2 {
				return
			}
			total++
			d := x.Plus(y, -1)
			for leaf, cf := range d.T {
				if cf >= 2 || cf <= -2 {
					key := fmt.Sprintf("%s | %s (coefficient %d on %s)", core.FuncName(fn), stripRegs(core.LinearAtom(b.Op, x, y)), cf, stripRegs(leaf))
					sites = append(sites, key)
					pos[key] = b.Pos()
				}
			}
		})
	}
	sort.Strings(sites)
	if os.Getenv("WRVERIF_DEBUG_OFFSET") != "" {
		for _, s := range sites {
			fmt.Fprintln(os.Stderr, "offset:", s)
		}
	}
	return
}

// offsetLinFull handles BinOps whose operands are len(slice) calls (LinearOf's leaf function cannot expand them).
func offsetLinFull(v ssa.Value) (core.Lin, bool) {
	switch x := v.(type) {
	case *ssa.BinOp:
		a, ok1 := offsetLinFull(x.X)
		b, ok2 := offsetLinFull(x.Y)
		if ok1 && ok2 {
			switch x.Op {
			case token.ADD:
				return a.Plus(b, 1), true
			case token.SUB:
				return a.Plus(b, -1), true
			}
		}
		// products (2·i, n/2 …) are opaque: only sums can double a quantity
		return core.Lin{T: map[string]int64{x.Name(): 1}}, true
	case *ssa.Convert:
		return offsetLinFull(x.X)
	case *ssa.ChangeType:
		return offsetLinFull(x.X)
	}
	return offsetLin(v, 0)
}

func c11Offsets(c *core.Check) {
	p := c.Prog
	r := c.Rule("R7", "indices and lengths compared in the layout code are counted from the same origin: after expanding len(x[a:b]) to b − a, no integer comparison of html/layout or text carries the same quantity twice (a coefficient of magnitude ≥ 2 is an absolute index compared with a length that already had the resume offset subtracted)", 2)
	floors := map[string]int{"html/layout": 450, "text": 60}
	for _, pkg := range []string{"html/layout", "text"} {
		sites, pos, total := offsetLintSites(p, pkg)
		for _, s := range sites {
			r.Fail(s, p.Pos(pos[s]), "the comparison counts an offset twice")
		}
		r.Cond(total >= floors[pkg], pkg+" | integer comparisons in linear form", "-", fmt.Sprintf("%d comparisons, no doubled offset", total), fmt.Sprintf("only %d integer comparisons could be put in linear form (%d on the pinned tree): the lint no longer sees the code", total, floors[pkg]))
	}
}

var regRe = regexp.MustCompile(`/(t[0-9]+|0x[0-9a-f]+)`)

func stripRegs(s string) string { return regRe.ReplaceAllString(s, "") }
