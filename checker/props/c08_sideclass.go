package props

import (
	"fmt"
	"go/constant"
	"go/types"
	"strings"

	"golang.org/x/tools/go/ssa"

	"wrverif/core"
)

// validatorOf returns the function the initialiser of css/validation stores at validators[<constant prop>].
func validatorOf(p *core.Prog, prop string) *ssa.Function {
	ppk := p.ByPath["css/properties"]
	if ppk == nil {
		return nil
	}
	cst, ok := ppk.Types.Scope().Lookup(prop).(*types.Const)
	if !ok {
		return nil
	}
	idx, ok := constant.Int64Val(cst.Val())
	if !ok {
		return nil
	}
	var out *ssa.Function
	for fn := range p.AllFuncs {
		if fn.Pkg == nil || core.Rel(fn.Pkg.Pkg.Path()) != "css/validation" || (fn.Synthetic != "package initializer" && fn.Name() != "init") {
			continue
		}
		core.Instrs(fn, func(in ssa.Instruction) {
			st, ok := in.(*ssa.Store)
			if !ok {
				return
			}
			ia, ok := st.Addr.(*ssa.IndexAddr)
			if !ok {
				return
			}
			// validators is an array variable: the literal is built in a local and copied, or stored in place
			root := ia.X
			isTable := false
			switch x := root.(type) {
			case *ssa.Global:
				isTable = x.Name() == "validators"
			case *ssa.Alloc:
				isTable = strings.HasSuffix(x.Type().String(), "validator") // *[N]validator
			}
			if !isTable {
				return
			}
			if k, ok := core.ConstInt(ia.Index); !ok || k != idx {
				return
			}
			v := st.Val
			if ct, ok := v.(*ssa.ChangeType); ok {
				v = ct.X
			}
			if f, ok := v.(*ssa.Function); ok {
				out = f
			}
		})
	}
	return out
}

// c08BorderSideColours (R24): a shorthand accepts for a longhand whatever the longhand accepts alone.  The expander
// shared by border-top/right/bottom/left, column-rule and outline files each token under -color, -width or -style;
// it asks the longhands' own validators for the width and the style, and recognised a colour with ParseColor alone.
// For every colour longhand it serves, the keywords that longhand's validator (read from the validators table)
// compares a token with are compared by the expander too, unless the expander calls that validator.
// (`outline: 1px solid invert` was dropped although `outline-color: invert` is accepted.)
func c08BorderSideColours(c *core.Check) {
	p := c.Prog
	r := c.Rule("R24", "the border-side expander accepts as a colour what the colour longhand accepts: for each of border-top/right/bottom/left-color, column-rule-color and outline-color, _expandBorderSide calls the longhand's validator (validators table) or compares a keyword with every word that validator compares one with", 4)
	exp := p.Fn("css/validation", "_expandBorderSide")
	if exp == nil {
		r.Anchor("css/validation._expandBorderSide")
		return
	}
	kw := core.IsCallNamed("getKeyword", "getSingleKeyword")
	have := stringSet(core.ComparedStrings(exp, kw))
	calls := map[*ssa.Function]bool{}
	core.Instrs(exp, func(in ssa.Instruction) {
		if call, ok := in.(*ssa.Call); ok && call.Call.StaticCallee() != nil {
			calls[call.Call.StaticCallee()] = true
		}
	})
	for _, prop := range []string{"PBorderTopColor", "PBorderRightColor", "PBorderBottomColor", "PBorderLeftColor", "PColumnRuleColor", "POutlineColor"} {
		key := "css/validation._expandBorderSide | " + prop
		v := validatorOf(p, prop)
		if v == nil {
			r.Unknown(key, p.Pos(exp.Pos()), "no validator found in the validators table for this property")
			continue
		}
		if calls[v] {
			r.OK(key, p.Pos(exp.Pos()), "the expander asks "+v.Name()+", the longhand's validator")
			continue
		}
		var missing []string
		for _, w := range core.ComparedStrings(v, kw) {
			if !have[w] {
				missing = append(missing, w)
			}
		}
		r.Cond(len(missing) == 0, key, p.Pos(exp.Pos()), fmt.Sprintf("%s compares a keyword with nothing the expander does not", v.Name()), fmt.Sprintf("%s accepts the keyword(s) %v, which the expander files under no longhand: the shorthand drops a value its longhand accepts", v.Name(), missing))
	}
}
