package props

import (
	"fmt"
	"go/ast"
	"go/constant"
	"regexp/syntax"

	"wrverif/core"
)

// maxMatchLen: the longest text a regular expression can match, -1 when unbounded.
func maxMatchLen(re *syntax.Regexp) int {
	switch re.Op {
	case syntax.OpEmptyMatch, syntax.OpBeginLine, syntax.OpEndLine, syntax.OpBeginText, syntax.OpEndText, syntax.OpWordBoundary, syntax.OpNoWordBoundary, syntax.OpNoMatch:
		return 0
	case syntax.OpLiteral:
		return len(re.Rune)
	case syntax.OpCharClass, syntax.OpAnyChar, syntax.OpAnyCharNotNL:
		return 1
	case syntax.OpCapture:
		return maxMatchLen(re.Sub[0])
	case syntax.OpQuest:
		return maxMatchLen(re.Sub[0])
	case syntax.OpStar, syntax.OpPlus:
		if maxMatchLen(re.Sub[0]) == 0 {
			return 0
		}
		return -1
	case syntax.OpRepeat:
		sub := maxMatchLen(re.Sub[0])
		if sub == 0 {
			return 0
		}
		if re.Max < 0 || sub < 0 {
			return -1
		}
		return re.Max * sub
	case syntax.OpConcat:
		total := 0
		for _, s := range re.Sub {
			m := maxMatchLen(s)
			if m < 0 {
				return -1
			}
			total += m
		}
		return total
	case syntax.OpAlternate:
		best := 0
		for _, s := range re.Sub {
			m := maxMatchLen(s)
			if m < 0 {
				return -1
			}
			if m > best {
				best = m
			}
		}
		return best
	}
	return -1
}

// c07DateGroupsBounded (R14): parseW3cDate converts the groups matched by w3CDateRe with toInt, which panics when
// strconv.Atoi fails; Atoi fails on a run of digits that overflows an int.  The conversion is safe only because the
// pattern bounds what each group can match: read from the source (the pattern is a constant expression) and parsed,
// every named group of w3CDateRe matches at most 9 characters (an int of 32 bits holds any 9 digits).
// (`(?P<year>\d{4,})` lets a `dcterms.created` of twenty digits through to the panic.)
func c07DateGroupsBounded(c *core.Check) {
	p := c.Prog
	r := c.Rule("R14", "toInt only sees short runs of digits: every named group of the pattern utils.w3CDateRe (a constant expression of the source, parsed here) matches at most 9 characters", 6)
	init := p.VarInit("utils", "w3CDateRe")
	call, ok := init.(*ast.CallExpr)
	if !ok || len(call.Args) != 1 {
		r.Anchor("utils.w3CDateRe = regexp.MustCompile(<pattern>)")
		return
	}
	info := p.Info("utils")
	if info == nil {
		r.Anchor("type information of package utils")
		return
	}
	tv, ok := info.Types[call.Args[0]]
	if !ok || tv.Value == nil || tv.Value.Kind() != constant.String {
		r.Unknown("utils.w3CDateRe | pattern", p.Pos(call.Pos()), "the pattern is not a constant expression")
		return
	}
	re, err := syntax.Parse(constant.StringVal(tv.Value), syntax.Perl)
	if err != nil {
		r.Unknown("utils.w3CDateRe | pattern", p.Pos(call.Pos()), "the pattern does not parse: "+err.Error())
		return
	}
	n := 0
	var walk func(*syntax.Regexp)
	walk = func(x *syntax.Regexp) {
		if x.Op == syntax.OpCapture && x.Name != "" {
			n++
			m := maxMatchLen(x.Sub[0])
			key := "utils.w3CDateRe | group " + x.Name
			r.Cond(m >= 0 && m <= 9, key, p.Pos(call.Pos()), fmt.Sprintf("matches at most %d characters", m), "the group can match a run of digits of any length (or more than 9): toInt panics when the number overflows")
		}
		for _, s := range x.Sub {
			walk(s)
		}
	}
	walk(re)
	if n == 0 {
		r.Unknown("utils.w3CDateRe | groups", p.Pos(call.Pos()), "no named group")
	}
	_ = core.Rel
}
