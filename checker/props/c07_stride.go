package props

import (
	"fmt"
	"go/token"

	"golang.org/x/tools/go/ssa"

	"wrverif/core"
)

// c07StridedLoops (R13): a loop `for i := …; i+c < len(s); i += k` may read s[i+j] only for j <= c, unless another
// test of i+j against len(s) dominates the read.  With a stride of two over a list of coordinates, s[i+1] under
// `i < len(s)` reads past the end when the list has an odd length (`points="0,0 10,10 20"`).
func c07StridedLoops(c *core.Check) {
	r := c.Rule("R13", "strided reads stay inside the list: in every loop of the module whose condition is `i + c < len(s)` for a loop counter i, each read s[i + j] (j a constant) in the loop has j <= c, or is dominated by a comparison of i + j' (j' >= j) with len(s), or the loop is entered under len(s) % stride == e with a start that leaves more than j elements", 695)
	stridedLoopsRule(c, r)
}

// c01StridedLoops (R24): the same obligation under crash-freedom (the SVG and CSS parsers are reached from documents).
func c01StridedLoops(c *core.Check) {
	r := c.Rule("R24", "no read past the end in strided loops: in every loop of the module whose condition is `i + c < len(s)`, each read s[i + j] has j <= c, or a further comparison with len(s), or a congruence of len(s) modulo the stride established before the loop (shared with C07.R13)", 695)
	stridedLoopsRule(c, r)
}

func stridedLoopsRule(c *core.Check, r *core.Rule) {
	p := c.Prog
	n := 0
	for _, fn := range p.ModFuncs {
		if fn.Blocks == nil {
			continue
		}
		perFn := 0
		for _, l := range core.Loops(fn) {
			h := l.Header
			if len(h.Instrs) == 0 {
				continue
			}
			ifi, ok := h.Instrs[len(h.Instrs)-1].(*ssa.If)
			if !ok {
				continue
			}
			bo, ok := ifi.Cond.(*ssa.BinOp)
			if !ok || bo.Op != token.LSS {
				continue
			}
			lenCall, ok := bo.Y.(*ssa.Call)
			if !ok {
				continue
			}
			if b, ok := lenCall.Call.Value.(*ssa.Builtin); !ok || b.Name() != "len" {
				continue
			}
			s := lenCall.Call.Args[0]
			i, cst := splitAdd(bo.X)
			phi, ok := i.(*ssa.Phi)
			if !ok || phi.Block() != h {
				continue
			}
			st := valueText(s)
			core.Instrs(fn, func(in ssa.Instruction) {
				if !l.Blocks[in.Block()] || in.Block() == h {
					return
				}
				var base, index ssa.Value
				switch x := in.(type) {
				case *ssa.IndexAddr:
					base, index = x.X, x.Index
				case *ssa.Index:
					base, index = x.X, x.Index
				default:
					return
				}
				if valueText(base) != st {
					return
				}
				iv, j := splitAdd(index)
				if iv != ssa.Value(phi) || j < 0 {
					return
				}
				n++
				perFn++
				key := fmt.Sprintf("%s | read at counter+%d in a loop bounded by counter+%d < len #%d", core.FuncName(fn), j, cst, perFn)
				if j <= cst {
					r.OK(key, p.Pos(in.Pos()), "inside the bound of the loop")
					return
				}
				// another dominating test of counter + j' with len(s)
				guarded := false
				for _, a := range core.CondAtoms(fn) {
					g, ok := a.(*ssa.BinOp)
					if !ok || (g.Op != token.LSS && g.Op != token.GEQ && g.Op != token.LEQ && g.Op != token.GTR) {
						continue
					}
					x, y := g.X, g.Y
					if g.Op == token.GTR || g.Op == token.LEQ {
						x, y = y, x
					}
					gi, gj := splitAdd(x)
					lc, ok := y.(*ssa.Call)
					if !ok || gi != ssa.Value(phi) || gj < j {
						continue
					}
					if b, ok := lc.Call.Value.(*ssa.Builtin); !ok || b.Name() != "len" || valueText(lc.Call.Args[0]) != st {
						continue
					}
					if g.Block() != h && g.Block().Dominates(in.Block()) {
						guarded = true
					}
				}
				if !guarded {
					if why := parityGuard(fn, phi, h, st, cst, j); why != "" {
						r.OK(key, p.Pos(in.Pos()), why)
						return
					}
				}
				r.Cond(guarded, key, p.Pos(in.Pos()), "guarded by a further comparison with the length", fmt.Sprintf("the loop only guarantees counter+%d < len: the read at counter+%d is one past the end on the last iteration when the length is not a multiple of the stride", cst, j))
			})
		}
	}
	r.OK("scan", "-", fmt.Sprintf("%d reads at a loop counter plus a constant", n))
}

// splitAdd: v = base + k with k a non-negative constant (k = 0 when v is not an addition).
func splitAdd(v ssa.Value) (ssa.Value, int64) {
	if bo, ok := v.(*ssa.BinOp); ok && bo.Op == token.ADD {
		if k, ok := core.ConstInt(bo.Y); ok {
			return bo.X, k
		}
		if k, ok := core.ConstInt(bo.X); ok {
			return bo.Y, k
		}
	}
	return v, 0
}

// parityGuard: the loop counts start, start+k, … and a test len(s) % k == e dominates it; then len - i is congruent
// to e - start modulo k, between 1 and k, and the read at i + j is inside when that residue exceeds j.
func parityGuard(fn *ssa.Function, phi *ssa.Phi, h *ssa.BasicBlock, st string, cst, j int64) string {
	var start, step int64 = -1, 0
	for _, e := range phi.Edges {
		if k, ok := core.ConstInt(e); ok {
			start = k
		} else if b, k := splitAdd(e); b == ssa.Value(phi) {
			step = k
		}
	}
	if start < 0 || step < 2 {
		return ""
	}
	for _, a := range core.CondAtoms(fn) {
		g, ok := a.(*ssa.BinOp)
		if !ok || (g.Op != token.EQL && g.Op != token.NEQ) {
			continue
		}
		e, ok := core.ConstInt(g.Y)
		if !ok {
			continue
		}
		rem, ok := g.X.(*ssa.BinOp)
		if !ok || rem.Op != token.REM {
			continue
		}
		if k, ok := core.ConstInt(rem.Y); !ok || k != step {
			continue
		}
		lc, ok := rem.X.(*ssa.Call)
		if !ok {
			continue
		}
		if b, ok := lc.Call.Value.(*ssa.Builtin); !ok || b.Name() != "len" || valueText(lc.Call.Args[0]) != st {
			continue
		}
		// the side on which the congruence holds must dominate the loop
		for _, b := range fn.Blocks {
			if len(b.Instrs) == 0 {
				continue
			}
			ifi, ok := b.Instrs[len(b.Instrs)-1].(*ssa.If)
			if !ok || ifi.Cond != ssa.Value(g) {
				continue
			}
			side := b.Succs[0]
			if g.Op == token.NEQ {
				side = b.Succs[1]
			}
			if !(side == h || side.Dominates(h)) {
				continue
			}
			res := ((e-start)%step + step) % step
			if res == 0 {
				res = step
			}
			if res > j-cst {
				return fmt.Sprintf("len %% %d == %d is established before the loop, which counts from %d by %d: %d elements are left at every iteration", step, e, start, step, res)
			}
		}
	}
	return ""
}
