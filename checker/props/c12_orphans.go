package props

import (
	"go/token"
	"go/types"
	"sort"
	"strings"

	"golang.org/x/tools/go/ssa"

	"wrverif/core"
)

// c12Orphans: the tests that decide whether a break between line boxes respects orphans and widows, as linear
// inequalities over (lines placed, orphans, widows, lines still needed), normalised so that any spelling of the
// same inequality (or of its negation) is the same atom.
func c12Orphans(c *core.Check) {
	p := c.Prog
	r := c.Rule("R6", "orphans and widows (CSS 2.1 §13.3.3): a break between lines is refused exactly when fewer than `orphans` lines would stay or fewer than `widows` lines would go — findEarlierPageBreak keeps len − widows lines and gives up iff len − widows < orphans; breakLine cancels the box iff len < orphans, or the lines that must move to satisfy widows exceed len − orphans; each test is compared as a normalised linear inequality", 4)
	want := map[string][]string{
		"findEarlierPageBreak": {"len(children) - orphans - widows < 0"},
		"breakLine": {
			"len(*newChildren) - orphans < 0",
			"widows - 1 == 0",
			"φ1 - 1 == 0",
			"len(*newChildren) - orphans - φ1 < 0",
			"φ1 == 0",
		},
	}
	var fns []string
	for k := range want {
		fns = append(fns, k)
	}
	sort.Strings(fns)
	for _, name := range fns {
		fn := p.Fn("html/layout", name)
		if fn == nil {
			r.Anchor("html/layout." + name)
			continue
		}
		leaf := func(v ssa.Value) string {
			call, ok := v.(*ssa.Call)
			if !ok {
				return ""
			}
			if b, isB := call.Call.Value.(*ssa.Builtin); isB && b.Name() == "len" {
				switch a := call.Call.Args[0].(type) {
				case *ssa.Parameter:
					return "len(" + a.Name() + ")"
				case *ssa.UnOp:
					if par, isP := a.X.(*ssa.Parameter); isP && a.Op == token.MUL {
						return "len(*" + par.Name() + ")"
					}
				}
				return ""
			}
			mname := ""
			if call.Call.IsInvoke() {
				mname = call.Call.Method.Name()
			} else if cal := call.Call.StaticCallee(); cal != nil {
				mname = cal.Name()
			}
			{
				switch mname {
				case "GetOrphans":
					return "orphans"
				case "GetWidows":
					return "widows"
				}
			}
			return ""
		}
		found := map[string]token.Pos{}
		// loop-carried variables are named by role, not by their source name: φ1 is the one initialised from widows
		phiNames := map[string]string{}
		core.Instrs(fn, func(in ssa.Instruction) {
			phi, ok := in.(*ssa.Phi)
			if !ok || phi.Comment == "" {
				return
			}
			if arithDerives(phi, func(v ssa.Value) bool { return leaf(v) == "widows" }) {
				phiNames["φ"+phi.Comment] = "φ1"
			}
		})
		core.Instrs(fn, func(in ssa.Instruction) {
			b, ok := in.(*ssa.BinOp)
			if !ok {
				return
			}
			op := b.Op
			switch op {
			case token.LSS, token.LEQ, token.GTR, token.GEQ, token.EQL, token.NEQ:
			default:
				return
			}
			if bt, isB := b.X.Type().Underlying().(*types.Basic); !isB || bt.Info()&types.IsNumeric == 0 {
				return
			}
			x, ok1 := core.LinearOf(b.X, leaf, 0)
			y, ok2 := core.LinearOf(b.Y, leaf, 0)
			if !ok1 || !ok2 {
				return
			}
			d := x.Plus(y, -1)
			x, y = renamePhis(x, phiNames), renamePhis(y, phiNames)
			d = x.Plus(y, -1)
			if !d.Mentions("orphans") && !d.Mentions("widows") && !d.Mentions("φ") {
				return
			}
			if d.Mentions("φ") && !d.Mentions("orphans") && !d.Mentions("widows") {
				// a test on a loop-carried variable alone: only those of the variable derived from widows count
				if !d.Mentions("φ1") {
					return
				}
			}
			atom := core.LinearAtom(op, x, y)
			// an atom and its negation split the states the same way: keep <, == only
			atom = canonicalSplit(atom)
			if _, dup := found[atom]; !dup {
				found[atom] = b.Pos()
			}
		})
		for _, a := range want[name] {
			pos, ok := found[a]
			at := p.Pos(fn.Pos())
			if ok {
				at = p.Pos(pos)
			}
			var have []string
			for k := range found {
				have = append(have, k)
			}
			sort.Strings(have)
			r.Cond(ok, "html/layout."+name+" | "+a, at, a, "no test of this inequality (or of its negation); the orphans/widows tests of the function are: "+strings.Join(have, "; "))
			delete(found, a)
		}
		var extra []string
		for k := range found {
			extra = append(extra, k)
		}
		sort.Strings(extra)
		for _, k := range extra {
			r.Unknown("html/layout."+name+" | "+k, p.Pos(found[k]), "an orphans/widows test that CSS 2.1 §13.3.3 does not call for: "+k)
		}
	}
}

// canonicalSplit rewrites "f > 0" as "f <= 0", "f >= 0" as "f < 0" and "f != 0" as "f == 0" (the negated test).
func canonicalSplit(atom string) string {
	for _, pair := range [][2]string{{" > 0", " <= 0"}, {" >= 0", " < 0"}, {" != 0", " == 0"}} {
		if strings.HasSuffix(atom, pair[0]) {
			return strings.TrimSuffix(atom, pair[0]) + pair[1]
		}
	}
	return atom
}

// renamePhis renames the φ<source name> leaves of a linear form by role; unnamed ones keep a neutral name.
func renamePhis(l core.Lin, names map[string]string) core.Lin {
	out := core.Lin{T: map[string]int64{}, K: l.K}
	for k, v := range l.T {
		nk := k
		if strings.HasPrefix(k, "φ") {
			if r, ok := names[k]; ok {
				nk = r
			} else {
				nk = "φother"
			}
		}
		out.T[nk] += v
	}
	return out
}

// arithDerives: the value is computed from a source through phis, conversions and integer arithmetic.
func arithDerives(v ssa.Value, src func(ssa.Value) bool) bool {
	seen := map[ssa.Value]bool{}
	var walk func(v ssa.Value, d int) bool
	walk = func(v ssa.Value, d int) bool {
		if seen[v] || d > 10 {
			return false
		}
		seen[v] = true
		if src(v) {
			return true
		}
		switch x := v.(type) {
		case *ssa.Phi:
			for _, e := range x.Edges {
				if walk(e, d+1) {
					return true
				}
			}
		case *ssa.Convert:
			return walk(x.X, d+1)
		case *ssa.ChangeType:
			return walk(x.X, d+1)
		case *ssa.BinOp:
			return walk(x.X, d+1) || walk(x.Y, d+1)
		}
		return false
	}
	return walk(v, 0)
}
