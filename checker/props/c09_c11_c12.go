package props

import (
	"fmt"
	"go/ast"
	"go/token"
	"go/types"
	"sort"
	"strings"

	"golang.org/x/tools/go/ssa"

	"wrverif/core"
)

func init() {
	register("C09", c09)
	register("C11", c11)
	register("C12", c12)
}

// callChainOrder checks that the static calls to the named functions occur in this order in fn:
// each is must-preceded by the previous one and cannot be followed by it.
func callChainOrder(c *core.Check, r *core.Rule, fn *ssa.Function, names []string, what string) {
	p := c.Prog
	for i := 0; i+1 < len(names); i++ {
		a, b := names[i], names[i+1]
		isA := func(in ssa.Instruction) bool { return callsNamed(in, a) }
		isB := func(in ssa.Instruction) bool { return callsNamed(in, b) }
		var bs []ssa.Instruction
		hasA := false
		core.Instrs(fn, func(in ssa.Instruction) {
			if isA(in) {
				hasA = true
			}
			if isB(in) {
				bs = append(bs, in)
			}
		})
		key := fmt.Sprintf("%s: %s before %s", what, a, b)
		if !hasA || len(bs) == 0 {
			r.Fail(key, p.Pos(fn.Pos()), "one of the two passes is no longer called here")
			continue
		}
		ok, _ := core.MustPassThrough(fn, isA, isB)
		back := false
		for _, bi := range bs {
			if core.Reaches(bi, isA) {
				back = true
			}
		}
		r.Cond(ok && !back, key, p.Pos(bs[0].Pos()), "every path to the later pass runs the earlier one first, none runs it afterwards", "the later pass can run without / before the earlier one")
	}
}

func c09(c *core.Check) {
	p := c.Prog
	c.Explain = "Thin structural clauses of box generation: the display → box class table of boxes.makeBox is the CSS Display table and covers every display value the validator and the display computer can produce; the anonymous-box passes run in the required order (table fix-up, flex and grid blockification, inline-in-block, block-in-inline). What each rewriting pass does to the tree is not decided. Also decided: (R7) the slot assignment of wrapTable (shared with C13.R2); (R8) the box classes tested by the anonymous-box passes are those CSS 2.1 names. Also decided: (R11) the anonymous table pass loses no box and hands on unwrapped only what passed the test of the rule applied."
	r1 := c.Rule("R1", "boxes.makeBox maps each (outside, inside) display pair and each table-* keyword to the box class of the CSS Display table, and every display value validation.display / tree.display can produce has a row (or is none)", 33)
	mb := p.Fn("html/boxes", "makeBox")
	vd := p.Fn("css/validation", "display")
	td := p.Fn("html/tree", "display")
	if mb == nil || vd == nil || td == nil {
		r1.Anchor("html/boxes.makeBox / css/validation.display / html/tree.display")
		return
	}
	want := map[string]string{
		"block flow": "NewBlockBox", "inline flow": "NewInlineBox", "block flow-root": "NewBlockBox", "inline flow-root": "NewInlineBlockBox",
		"block table": "NewTableBox", "inline table": "NewInlineTableBox", "block flex": "NewFlexBox", "inline flex": "NewInlineFlexBox",
		"block grid": "NewGridBox", "inline grid": "NewInlineGridBox", "table-row": "NewTableRowBox", "table-row-group": "NewTableRowGroupBox",
		"table-header-group": "NewTableRowGroupBox", "table-footer-group": "NewTableRowGroupBox", "table-column": "NewTableColumnBox",
		"table-column-group": "NewTableColumnGroupBox", "table-cell": "NewTableCellBox", "table-caption": "NewTableCaptionBox",
	}
	info := p.InfoOf(mb)
	rows := map[string]string{}
	for _, sw := range core.Switches(p.Body(mb)) {
		for i, cs := range sw.Cases {
			for _, l := range cs {
				cl, ok := l.(*ast.CompositeLit)
				if !ok {
					continue
				}
				var parts []string
				for _, e := range cl.Elts {
					if s, ok := core.StrConst(info, e); ok {
						parts = append(parts, s)
					}
				}
				callee := ""
				for _, st := range sw.Bodies[i] {
					ast.Inspect(st, func(n ast.Node) bool {
						if call, ok := n.(*ast.CallExpr); ok {
							if id, ok := call.Fun.(*ast.Ident); ok && strings.HasPrefix(id.Name, "New") {
								callee = id.Name
							}
						}
						return true
					})
				}
				rows[strings.Join(parts, " ")] = callee
			}
		}
	}
	var keys []string
	for k := range want {
		keys = append(keys, k)
	}
	sort.Strings(keys)
	for _, k := range keys {
		r1.Cond(rows[k] == want[k], "display "+k+" → "+want[k], p.Pos(mb.Pos()), rows[k], fmt.Sprintf("builds %q, the CSS Display table requires %s", rows[k], want[k]))
	}
	// producers
	vinfo := p.InfoOf(vd)
	var singles, outsides, insides []string
	var lits [][]string
	dispT := p.Obj("css/properties", "Display").Type()
	for _, sw := range core.Switches(p.Body(vd)) {
		for i, cs := range sw.Cases {
			var labels []string
			for _, l := range cs {
				if s, ok := core.StrConst(vinfo, l); ok {
					labels = append(labels, s)
				}
			}
			for _, st := range sw.Bodies[i] {
				switch x := st.(type) {
				case *ast.ReturnStmt:
					if len(x.Results) == 1 {
						if cl, ok := x.Results[0].(*ast.CompositeLit); ok && len(cl.Elts) == 1 {
							if id, ok := cl.Elts[0].(*ast.Ident); ok && id.Name == "keyword" {
								singles = append(singles, labels...)
							}
						}
					}
				case *ast.AssignStmt:
					if len(x.Lhs) == 1 {
						switch types.ExprString(x.Lhs[0]) {
						case "outside":
							outsides = append(outsides, labels...)
						case "inside":
							insides = append(insides, labels...)
						}
					}
				}
			}
		}
	}
	for _, fn := range []*ssa.Function{vd, td} {
		finfo := p.InfoOf(fn)
		for _, cl := range core.CompositeLitsIn(finfo, p.Body(fn), dispT) {
			var parts []string
			allConst := true
			for _, e := range cl.Elts {
				if s, ok := core.StrConst(finfo, e); ok {
					parts = append(parts, s)
				} else {
					allConst = false
				}
			}
			if allConst && len(parts) > 0 {
				lits = append(lits, parts)
			}
		}
	}
	// `inline-table|flex|grid` → Display{"inline", keyword[7:]}
	for _, k := range []string{"inline-table", "inline-flex", "inline-grid"} {
		lits = append(lits, []string{"inline", k[7:]})
	}
	produced := map[string]bool{}
	for _, s := range singles {
		produced[s] = true
	}
	for _, o := range outsides {
		for _, i := range insides {
			produced[o+" "+i] = true
		}
	}
	for _, l := range lits {
		if len(l) >= 2 {
			produced[l[0]+" "+l[1]] = true
		} else {
			produced[l[0]] = true
		}
	}
	var pk []string
	for k := range produced {
		pk = append(pk, k)
	}
	sort.Strings(pk)
	for _, k := range pk {
		if k == "none" || k == "inline-table" { // none generates no box; the single keyword inline-table only appears in a comparison
			continue
		}
		_, ok := rows[k]
		r1.Cond(ok, "produced display value "+k+" has a box class", p.Pos(mb.Pos()), "row present", "validation/computation can produce this display value but makeBox has no row: the element and its subtree are dropped")
	}
	r1.Cond(len(singles) >= 8 && len(outsides) == 2 && len(insides) == 5, "display vocabulary extracted", p.Pos(vd.Pos()), fmt.Sprintf("%d single keywords, outside %v, inside %v", len(singles), outsides, insides), fmt.Sprintf("unexpected vocabulary: singles=%v outside=%v inside=%v", singles, outsides, insides))

	r2 := c.Rule("R2", "CreateAnonymousBox runs AnonymousTableBoxes, then FlexBoxes and GridBoxes, then InlineInBlock, then BlockInInline", 2)
	if cab := p.Fn("html/boxes", "CreateAnonymousBox"); cab != nil {
		callChainOrder(c, r2, cab, []string{"AnonymousTableBoxes", "FlexBoxes", "GridBoxes", "InlineInBlock", "BlockInInline"}, "CreateAnonymousBox")
	} else {
		r2.Anchor("html/boxes.CreateAnonymousBox")
	}

	// ---- R3 the item fix-ups apply to both the block-level and the inline-level container
	r3 := c.Rule("R3", "flexChildren and gridChildren treat the children of every flex (resp. grid) container, block-level or inline-level: the class they test at entry is implemented by both box types", 2)
	classOf := c09ClassInterfaces(p)
	for _, fx := range []struct {
		fn    string
		types []string
	}{{"flexChildren", []string{"FlexBox", "InlineFlexBox"}}, {"gridChildren", []string{"GridBox", "InlineGridBox"}}} {
		fn := p.Fn("html/boxes", fx.fn)
		if fn == nil {
			r3.Anchor("html/boxes." + fx.fn)
			continue
		}
		// the test deciding the first branch of the function
		var iface *types.Interface
		desc := ""
		if len(fn.Blocks) > 0 {
			if ifi, ok := fn.Blocks[0].Instrs[len(fn.Blocks[0].Instrs)-1].(*ssa.If); ok {
				switch x := ifi.Cond.(type) {
				case *ssa.Extract:
					if ta, ok := x.Tuple.(*ssa.TypeAssert); ok {
						iface, _ = ta.AssertedType.Underlying().(*types.Interface)
						desc = types.TypeString(ta.AssertedType, func(pk *types.Package) string { return pk.Name() })
					}
				case *ssa.Call:
					if callee := x.Call.StaticCallee(); callee != nil && callee.Name() == "IsInstance" && len(x.Call.Args) == 2 {
						if k, ok := core.ConstInt(x.Call.Args[0]); ok {
							iface = classOf[k]
							desc = fmt.Sprintf("BoxType(%d)", k)
							for v, cst := range p.ConstsOfType("html/boxes", "BoxType") {
								if v == k {
									desc = cst.Name()
								}
							}
						}
					}
				}
			}
		}
		if iface == nil {
			r3.Unknown("html/boxes."+fx.fn+" | container test", p.Pos(fn.Pos()), "the function does not start with a class test this rule recognises")
			continue
		}
		for _, tn := range fx.types {
			obj := p.ByPath["html/boxes"].Types.Scope().Lookup(tn)
			if obj == nil {
				r3.Anchor("html/boxes." + tn)
				continue
			}
			ok := types.Implements(obj.Type(), iface) || types.Implements(types.NewPointer(obj.Type()), iface)
			r3.Cond(ok, fmt.Sprintf("html/boxes.%s | applies to %s", fx.fn, tn), p.Pos(fn.Pos()), tn+" is an instance of "+desc, fmt.Sprintf("%s is not an instance of %s, the class tested at entry: its children are left as they are (not blockified, white space kept)", tn, desc))
		}
	}

	// ---- R4 display: none generates nothing
	r4 := c.Rule("R4", "elementToBox returns before creating any box, touching the style or recording a footnote when the element's display is none: every call of makeBox, SetDisplay, SetFloat and every recursive call is unreachable when the test display == none holds", 5)
	if etb := p.Fn("html/boxes", "elementToBox"); etb == nil {
		r4.Anchor("html/boxes.elementToBox")
	} else {
		// the atom: comparison of the display value with the literal {"none"}
		var noneAtom ssa.Value
		for _, a := range core.CondAtoms(etb) {
			bo, ok := a.(*ssa.BinOp)
			if !ok || bo.Op != token.EQL {
				continue
			}
			for _, side := range []ssa.Value{bo.X, bo.Y} {
				if u, ok := side.(*ssa.UnOp); ok {
					if al, ok := u.X.(*ssa.Alloc); ok && al.Referrers() != nil {
						for _, r := range *al.Referrers() {
							if ia, ok := r.(*ssa.IndexAddr); ok && ia.Referrers() != nil {
								for _, rr := range *ia.Referrers() {
									if st, ok := rr.(*ssa.Store); ok {
										if s, ok := core.ConstStr(st.Val); ok && s == "none" {
											noneAtom = a
										}
									}
								}
							}
						}
					}
				}
			}
		}
		if noneAtom == nil {
			r4.Fail("elementToBox | display none test", p.Pos(etb.Pos()), "no comparison of the display value with {\"none\"} found")
		} else {
			reach := core.ForwardReach(etb.Blocks[0], map[ssa.Value]bool{noneAtom: true}, nil)
			n := 0
			core.Instrs(etb, func(in ssa.Instruction) {
				call, ok := in.(ssa.CallInstruction)
				if !ok {
					return
				}
				name := ""
				if call.Common().IsInvoke() {
					name = call.Common().Method.Name()
				} else if callee := call.Common().StaticCallee(); callee != nil {
					name = callee.Name()
				}
				switch name {
				case "makeBox", "SetDisplay", "SetFloat", "elementToBox":
				default:
					return
				}
				n++
				key := "elementToBox | " + p.StmtTextAt(etb, in.Pos())
				r4.Cond(!reach[in.Block()], key, p.Pos(in.Pos()), "not reached when display is none", name+" is reached although the element's display is none: an element that must generate no box changes the tree")
			})
			if n < 3 {
				r4.Unknown("elementToBox | sites", p.Pos(etb.Pos()), fmt.Sprintf("%d box-creating or style-writing calls found", n))
			}
		}
	}
	c09Spans(c)
	r6 := c.Rule("R6", "no call passes two same-typed arguments under each other's parameter names (swapped arguments): every pair of arguments named after the callee's parameters is aligned with them", 8)
	argNameRule(c, r6, "html/boxes", nil, 7)
	r7 := c.Rule("R7", "table wrapping gives every cell its own grid slot: GridX is the cursor after skipping (in a loop) the columns occupied by cells spanning from previous rows, the cursor advances by Colspan, Rowspan is clamped to the rows left in the group and the spanned rows mark exactly the cell's columns", 3)
	tableSlotRule(c, r7)
	c09ClassTests(c)
	c09Accumulators(c)
	c09Replaced(c)
	c09Conserve(c)
	c09CSSWhitespace(c)
}

// c09Spans: a table cell spans at least one column (HTML 5: colspan is clamped to >= 1), while rowspan may be 0.
func c09Spans(c *core.Check) {
	r := c.Rule("R5", "NewTableCellBox reads colspan within [1, 1000] and rowspan within [0, 65534] (HTML): a cell that spans no column would share its grid slot with the next cell, and the grid is allocated with the spans as sizes", 4)
	spanBounds(c, r)
}

// c09ClassInterfaces extracts from BoxType.IsInstance the interface each class constant stands for.
func c09ClassInterfaces(p *core.Prog) map[int64]*types.Interface {
	out := map[int64]*types.Interface{}
	fn := p.Lookup("html/boxes.BoxType.IsInstance")
	if fn == nil {
		return out
	}
	// each case block: t == K leads to a block with one comma-ok assertion
	for _, a := range core.CondAtoms(fn) {
		bo, ok := a.(*ssa.BinOp)
		if !ok || bo.Op != token.EQL {
			continue
		}
		k, ok := core.ConstInt(bo.Y)
		if !ok {
			continue
		}
		blk := bo.Block().Succs[0]
		for _, in := range blk.Instrs {
			if ta, ok := in.(*ssa.TypeAssert); ok && ta.CommaOk {
				if it, ok := ta.AssertedType.Underlying().(*types.Interface); ok {
					out[k] = it
				}
			}
		}
	}
	return out
}

// wsSites finds, in a function body, the boolean chains that test a white-space value against keywords.
func wsSites(info *types.Info, body ast.Node) []string {
	// identifiers defined from a GetWhiteSpace() call
	wsIdent := map[types.Object]bool{}
	isWSCall := func(e ast.Expr) bool {
		call, ok := e.(*ast.CallExpr)
		if !ok {
			return false
		}
		sel, ok := call.Fun.(*ast.SelectorExpr)
		return ok && sel.Sel.Name == "GetWhiteSpace"
	}
	ast.Inspect(body, func(n ast.Node) bool {
		if as, ok := n.(*ast.AssignStmt); ok && len(as.Lhs) == len(as.Rhs) {
			for i, r := range as.Rhs {
				if isWSCall(r) {
					if id, ok := as.Lhs[i].(*ast.Ident); ok {
						if o := info.Defs[id]; o != nil {
							wsIdent[o] = true
						}
					}
				}
			}
		}
		return true
	})
	isWS := func(e ast.Expr) bool {
		if isWSCall(e) {
			return true
		}
		if id, ok := e.(*ast.Ident); ok {
			return wsIdent[info.Uses[id]]
		}
		return false
	}
	var out []string
	var visit func(n ast.Node, inChain bool)
	leaves := func(e ast.Expr) []string {
		var consts []string
		var walk func(e ast.Expr)
		walk = func(e ast.Expr) {
			switch x := e.(type) {
			case *ast.ParenExpr:
				walk(x.X)
			case *ast.UnaryExpr:
				walk(x.X)
			case *ast.BinaryExpr:
				if x.Op == token.LOR || x.Op == token.LAND {
					walk(x.X)
					walk(x.Y)
					return
				}
				if (x.Op == token.EQL || x.Op == token.NEQ) && isWS(x.X) {
					if s, ok := core.StrConst(info, x.Y); ok {
						consts = append(consts, s)
					}
				}
			}
		}
		walk(e)
		return consts
	}
	visit = func(n ast.Node, inChain bool) {
		ast.Inspect(n, func(m ast.Node) bool {
			be, ok := m.(*ast.BinaryExpr)
			if !ok {
				return true
			}
			if cs := leaves(be); len(cs) > 0 {
				sort.Strings(cs)
				out = append(out, strings.Join(cs, ","))
				return false
			}
			return true
		})
	}
	visit(body, false)
	return out
}

func c11(c *core.Check) {
	p := c.Prog
	c.Explain = "Thin structural clauses of line breaking: every boolean that classifies a white-space value uses one of the CSS Text classes (collapse spaces, collapse newlines, wrap, no-wrap), site by site as confirmed by reading; the white-space and text-align vocabularies accepted by the validators are all handled by the text style conversion and by layout.textAlign. Widths and break positions are not decided. Also decided: (R6) layout.textAlign folded for all alignment combinations; (R7) no integer comparison of the layout and text code counts a resume offset twice; (R8) the character-wrapping permission of both text engines, by truth table.  (R9) running extrema are compared with the variable they update; (R10) justification offsets of text boxes (fold) and the right limit of an indented first line."
	r1 := c.Rule("R1", "each test of a white-space value against keywords uses exactly one CSS Text class: collapse-spaces {normal,nowrap,pre-line}, collapse-newlines {normal,nowrap}, wrap {normal,pre-line,pre-wrap}, no-wrap {nowrap,pre}; the sites are those confirmed by reading (per function)", 7)
	classes := map[string]string{"normal,nowrap,pre-line": "collapse-spaces", "normal,nowrap": "collapse-newlines", "normal,pre-line,pre-wrap": "wrap", "nowrap,pre": "no-wrap"}
	// frozen per-function expectation (function → classes of its sites, sorted)
	expected := map[string][]string{
		"html/layout.skipFirstWhitespace":    {"collapse-spaces"},
		"html/layout.removeLastWhitespace":   {"collapse-spaces"},
		"html/layout.splitInlineBox":         {"no-wrap"},
		"html/layout.textAlign":              {"collapse-spaces"},
		"html/layout.canBreakInside":         {"wrap"},
		"html/layout.inlineLineWidths":       {"collapse-spaces"},
		"html/layout.trailingWhitespaceSize": {"collapse-spaces"},
		"html/boxes.ProcessWhitespace":       {"collapse-newlines", "collapse-spaces"},
		"html/boxes.InlineInBlock":           {"collapse-spaces"},
	}
	found := map[string][]string{}
	posOf := map[string]token.Pos{}
	for _, pkg := range []string{"html/layout", "html/boxes", "html/document", "text"} {
		pk := p.ByPath[pkg]
		if pk == nil {
			continue
		}
		for _, f := range pk.Syntax {
			for _, d := range f.Decls {
				fd, ok := d.(*ast.FuncDecl)
				if !ok || fd.Body == nil {
					continue
				}
				sites := wsSites(pk.TypesInfo, fd.Body)
				if len(sites) == 0 {
					continue
				}
				name := pkg + "." + fd.Name.Name
				posOf[name] = fd.Pos()
				for _, s := range sites {
					cl, ok := classes[s]
					if !ok {
						r1.Fail(name+" | white-space test {"+s+"}", p.Pos(fd.Pos()), "the keyword set {"+s+"} is none of the CSS Text white-space classes: some white-space value is classified wrongly")
						continue
					}
					found[name] = append(found[name], cl)
				}
			}
		}
	}
	var names []string
	for n := range expected {
		names = append(names, n)
	}
	for n := range found {
		if _, ok := expected[n]; !ok {
			names = append(names, n)
		}
	}
	sort.Strings(names)
	for _, n := range names {
		got := append([]string{}, found[n]...)
		sort.Strings(got)
		want := expected[n]
		pos := "-"
		if ps, ok := posOf[n]; ok {
			pos = p.Pos(ps)
		}
		if want == nil {
			// a new site whose class is a legal CSS class: accepted, named
			r1.OK(n+" | white-space tests "+strings.Join(got, "+"), pos, "site not in the confirmed table; its keyword sets are CSS Text classes")
			continue
		}
		r1.Cond(strings.Join(got, "+") == strings.Join(want, "+"), n+" | white-space tests "+strings.Join(want, "+"), pos, "classes "+strings.Join(got, "+"), fmt.Sprintf("tests classes [%s], the behaviour confirmed by reading needs [%s]", strings.Join(got, "+"), strings.Join(want, "+")))
	}

	r2 := c.Rule("R2", "every white-space keyword the validator accepts has a case in text.newWhiteSpace; every text-align-all / text-align-last keyword is handled by layout.textAlign (whose fall-through only warns)", 17)
	ws := p.Fn("css/validation", "whiteSpace")
	nws := p.Fn("text", "newWhiteSpace")
	if ws == nil || nws == nil {
		r2.Anchor("css/validation.whiteSpace / text.newWhiteSpace")
	} else {
		var prod []string
		for _, sw := range core.Switches(p.Body(ws)) {
			prod = append(prod, caseLabels(p.InfoOf(ws), sw)...)
		}
		cons := map[string]bool{}
		for _, sw := range core.Switches(p.Body(nws)) {
			for _, s := range caseLabels(p.InfoOf(nws), sw) {
				cons[s] = true
			}
		}
		for _, s := range prod {
			r2.Cond(cons[s], "white-space: "+s+" converted by newWhiteSpace", p.Pos(nws.Pos()), "case present", "accepted by the validator but silently treated as normal by the text engine")
		}
		r2.Cond(len(prod) >= 5, "white-space vocabulary", p.Pos(ws.Pos()), strings.Join(prod, ","), "fewer than the five CSS 2.1 values")
	}
	ta := p.Fn("html/layout", "textAlign")
	if ta == nil {
		r2.Anchor("html/layout.textAlign")
	} else {
		handled := map[string]bool{}
		for _, s := range stringsIn(p.InfoOf(ta), p.Body(ta)) {
			handled[s] = true
		}
		for _, vn := range []string{"textAlignAll", "textAlignLast"} {
			vf := p.Fn("css/validation", vn)
			if vf == nil {
				r2.Anchor("css/validation." + vn)
				continue
			}
			for _, sw := range core.Switches(p.Body(vf)) {
				for _, s := range caseLabels(p.InfoOf(vf), sw) {
					r2.Cond(handled[s], vn+": "+s+" handled by layout.textAlign", p.Pos(ta.Pos()), "compared in textAlign", "accepted by the validator but textAlign never compares against it: the line falls into the warning branch")
				}
			}
		}
	}

	r3 := c.Rule("R3", "sibling symmetry in inline layout code: two assignments of one block that differ by a side (Top/Bottom, Left/Right) on the left and have the same shape on the right mirror every side name of that axis", 1)
	sideSymmetryRule(c, r3, "html/layout", map[string]bool{"inline.go": true, "leader.go": true}, 1)
	r4 := c.Rule("R4", "box-edge sums of the inline layout code mention margin, padding and border with the same sides", 5)
	sideSumRule(c, r4, "html/layout", map[string]bool{"inline.go": true, "leader.go": true}, 5)
	r5 := c.Rule("R5", "no call passes two same-typed arguments under each other's parameter names (swapped arguments): every pair of arguments named after the callee's parameters is aligned with them", 46)
	argNameRule(c, r5, "html/layout", map[string]bool{"inline.go": true, "leader.go": true}, 40)
	argNameRule(c, r5, "text", nil, 5)
	c11TextAlign(c)
	c11Offsets(c)
	c11WordBreak(c)
	c11Justify(c)
	c11LastLine(c)
	c11SpaceWidth(c)
	c11GrowingLists(c)
	c11EndSpacing(c)
	c11EndSpacingTested(c)
	c11SoftHyphensLongestFirst(c)
	c11AtomicAdvance(c)
	c11DeadArithmetic(c)
	c11StrutCacheKey(c)
	r9 := c.Rule("R9", "running extrema: every guarded update `if a < b { c = a }` of the inline layout and text code compares the new value with the variable it updates (the line's running top, bottom, width …): a comparison with another variable overwrites the extremum instead of extending it", 33)
	extremumRule(c, r9, "html/layout", 10)
	extremumRule(c, r9, "text", 2)

}

func returnStringSets(p *core.Prog, fn *ssa.Function) []string {
	var out []string
	info := p.InfoOf(fn)
	ast.Inspect(p.Body(fn), func(n ast.Node) bool {
		if rs, ok := n.(*ast.ReturnStmt); ok && len(rs.Results) == 1 {
			out = append(out, strings.Join(stringsIn(info, rs.Results[0]), ","))
		}
		return true
	})
	sort.Strings(out)
	return out
}

func c12(c *core.Check) {
	p := c.Prog
	c12PageMarginsRerun(c)
	c.Explain = "Thin structural clauses of page breaking: the forced and avoid break vocabularies tested by layout are exactly the CSS Fragmentation sets (with column variants only inside columns), every computed break value the validators can produce is classified, `always` computes to `page`, the between-siblings resolution prefers forced over avoid over auto, and the :nth() page arithmetic divides only by a non-zero step. Page geometry, break positions, orphans/widows and blank pages are not decided. Also decided: (R5) pageWidthOrHeight folded for all auto combinations; (R6) the orphans/widows tests as normalised linear inequalities.  (R7) recto/verso sides for both directions and the start/end page names read at breaks."
	r1 := c.Rule("R1", "forcePageBreak tests {page,left,right,recto,verso} (+column in columns); avoidPageBreak tests {avoid,avoid-page} (+avoid-column in columns); blockLevelPageBreak's side set is {left,right,recto,verso} and its choice table lets page/column override everything and avoid* override auto; every break-before/after/inside value the validators emit (after always→page) is forced, avoid or auto", 38)
	fpb := p.Fn("html/layout", "forcePageBreak")
	apb := p.Fn("html/layout", "avoidPageBreak")
	blp := p.Fn("html/layout", "blockLevelPageBreak")
	if fpb == nil || apb == nil || blp == nil {
		r1.Anchor("html/layout.forcePageBreak / avoidPageBreak / blockLevelPageBreak")
		return
	}
	fs := returnStringSets(p, fpb)
	r1.Cond(len(fs) == 2 && fs[0] == "column,left,page,recto,right,verso" && fs[1] == "left,page,recto,right,verso", "forcePageBreak vocabulary", p.Pos(fpb.Pos()), strings.Join(fs, " | "), "tests "+strings.Join(fs, " | ")+"; CSS Fragmentation forced values are page,left,right,recto,verso (and column inside columns)")
	as := returnStringSets(p, apb)
	r1.Cond(len(as) == 2 && as[0] == "avoid,avoid-column,avoid-page" && as[1] == "avoid,avoid-page", "avoidPageBreak vocabulary", p.Pos(apb.Pos()), strings.Join(as, " | "), "tests "+strings.Join(as, " | ")+"; CSS Fragmentation avoid values are avoid, avoid-page (and avoid-column inside columns)")
	// column variants only under inColumn: the larger set is in the branch guarded by context.inColumn
	for _, fn := range []*ssa.Function{fpb, apb} {
		okCol := false
		ast.Inspect(p.Body(fn), func(n ast.Node) bool {
			if ifs, ok := n.(*ast.IfStmt); ok && strings.HasSuffix(types.ExprString(ifs.Cond), "inColumn") {
				for _, s := range stringsIn(p.InfoOf(fn), ifs.Body) {
					if strings.Contains(s, "column") {
						okCol = true
					}
				}
			}
			return true
		})
		r1.Cond(okCol, fn.Name()+": column variants only inside columns", p.Pos(fn.Pos()), "the set with the column keyword is under `if context.inColumn`", "the column keyword is not restricted to column context")
	}
	// blockLevelPageBreak
	binfo := p.InfoOf(blp)
	var side []string
	choices := map[[2]string]bool{}
	ast.Inspect(p.Body(blp), func(n ast.Node) bool {
		switch x := n.(type) {
		case *ast.IfStmt:
			s := stringsIn(binfo, x.Cond)
			if len(s) >= 4 {
				side = s
			}
		case *ast.CompositeLit:
			if mt, ok := binfo.Types[x].Type.Underlying().(*types.Map); ok {
				if at, ok := mt.Key().Underlying().(*types.Array); ok && at.Len() == 2 {
					for _, e := range x.Elts {
						kv := e.(*ast.KeyValueExpr)
						kl := kv.Key.(*ast.CompositeLit)
						a, _ := core.StrConst(binfo, kl.Elts[0])
						b, _ := core.StrConst(binfo, kl.Elts[1])
						choices[[2]string{a, b}] = true
					}
				}
			}
		}
		return true
	})
	r1.Cond(strings.Join(side, ",") == "left,recto,right,verso", "blockLevelPageBreak side values always win", p.Pos(blp.Pos()), strings.Join(side, ","), "side set is {"+strings.Join(side, ",")+"}")
	for _, forced := range []string{"page", "column"} {
		for _, weaker := range []string{"auto", "avoid", "avoid-page", "avoid-column"} {
			r1.Cond(choices[[2]string{forced, weaker}], fmt.Sprintf("choice (%s over %s)", forced, weaker), p.Pos(blp.Pos()), "present", "a forced break between siblings loses against "+weaker)
		}
	}
	for _, av := range []string{"avoid", "avoid-page", "avoid-column"} {
		r1.Cond(choices[[2]string{av, "auto"}], fmt.Sprintf("choice (%s over auto)", av), p.Pos(blp.Pos()), "present", "avoid loses against auto")
		for _, forced := range []string{"page", "column", "left", "right"} {
			r1.Cond(!choices[[2]string{av, forced}], fmt.Sprintf("no choice (%s over %s)", av, forced), p.Pos(blp.Pos()), "absent", "an avoid value overrides a forced break")
		}
	}
	// validator vocabulary is classified
	classified := map[string]bool{"auto": true}
	for _, s := range strings.Split(fs[0], ",") {
		classified[s] = true
	}
	for _, s := range strings.Split(as[0], ",") {
		classified[s] = true
	}
	brk := p.Fn("html/tree", "break_")
	alwaysToPage := false
	if brk != nil {
		ss := stringsIn(p.InfoOf(brk), p.Body(brk))
		alwaysToPage = strings.Join(ss, ",") == "always,page"
	}
	r1.Cond(alwaysToPage, "break_: always computes to page", "html/tree/computed_values.go", "always → page", "the legacy value always is no longer mapped to page before layout")
	for _, vn := range []string{"breakBeforeAfter", "breakInside"} {
		vf := p.Fn("css/validation", vn)
		if vf == nil {
			r1.Anchor("css/validation." + vn)
			continue
		}
		for _, sw := range core.Switches(p.Body(vf)) {
			for _, s := range caseLabels(p.InfoOf(vf), sw) {
				if s == "always" && alwaysToPage {
					continue
				}
				r1.Cond(classified[s], vn+": "+s+" is forced, avoid or auto", p.Pos(vf.Pos()), "classified by forcePageBreak/avoidPageBreak", "accepted by the validator but neither forced nor avoid nor auto for layout: silently ignored")
			}
		}
	}

	r2 := c.Rule("R2", "tree.pageTypeMatch divides and takes the remainder by the :nth() step only where it is proven non-zero", 2)
	divisionRule(c, r2, func(fn *ssa.Function) bool { return fn.Name() == "pageTypeMatch" && inPkgs("html/tree")(fn) })

	r3 := c.Rule("R3", "box-edge sums of the fragmentation code (the space kept at the bottom of a page for paddings and borders, page margins) mention margin, padding and border with the same sides", 5)
	sideSumRule(c, r3, "html/layout", map[string]bool{"blocks.go": true, "pages.go": true, "columns.go": true}, 7)
	c12PageBox(c)
	c12Orphans(c)
	c12Sides(c)
	c12RepeatedGroups(c)
	c12Retry(c)
	r4b := c.Rule("R4", "no call passes two same-typed arguments under each other's parameter names (swapped arguments): every pair of arguments named after the callee's parameters is aligned with them", 42)
	argNameRule(c, r4b, "html/layout", map[string]bool{"blocks.go": true, "pages.go": true, "columns.go": true}, 40)
}

// c09ClassTests: the box classes tested by the anonymous-box passes are the classes the CSS rules name.
func c09ClassTests(c *core.Check) {
	p := c.Prog
	r := c.Rule("R8", "the anonymous-box passes test the box classes CSS 2.1 names: an inline box is split around every in-flow block-level child (§9.2.1.1: the class is block-level, not block), inline-level children of a block container are wrapped in line boxes (§9.2.2.1), and the table fix-ups test table, row group, row, cell, column and inline boxes as §17.2.1 lists them", 2)
	want := map[string][]string{
		"innerBlockInInline": {"BlockLevelT", "InlineT"},
		"InlineInBlock":      {"BlockContainerT", "InlineLevelT", "LineT"},
		"BlockInInline":      {"LineT"},
		"tableBoxesChildren": {"InlineT", "TableCellT", "TableColumnT", "TableRowGroupT", "TableRowT", "TableT"},
	}
	found := map[string]map[string]bool{}
	typeNames := map[string]string{} // value of a BoxType constant -> its name
	if pk := p.ByPath["html/boxes"]; pk != nil {
		sc := pk.Types.Scope()
		for _, nm := range sc.Names() {
			if cst, ok := sc.Lookup(nm).(*types.Const); ok {
				if named, ok := cst.Type().(*types.Named); ok && named.Obj().Name() == "BoxType" {
					typeNames[cst.Val().ExactString()] = nm
				}
			}
		}
	}
	if len(typeNames) == 0 {
		r.Anchor("html/boxes: constants of type BoxType")
		return
	}
	for _, fn := range p.FuncsOfPkg("html/boxes") {
		root := fn
		for root.Parent() != nil {
			root = root.Parent()
		}
		if _, ok := want[root.Name()]; !ok {
			continue
		}
		core.Instrs(fn, func(in ssa.Instruction) {
			call, ok := in.(*ssa.Call)
			if !ok {
				return
			}
			name := ""
			var recv ssa.Value
			if call.Call.IsInvoke() {
				name, recv = call.Call.Method.Name(), call.Call.Value
			} else if cal := call.Call.StaticCallee(); cal != nil && len(call.Call.Args) > 0 {
				name, recv = cal.Name(), call.Call.Args[0]
			}
			if name != "IsInstance" {
				return
			}
			if k, ok := recv.(*ssa.Const); ok && k.Value != nil {
				if nm, ok := typeNames[k.Value.ExactString()]; ok {
					if found[root.Name()] == nil {
						found[root.Name()] = map[string]bool{}
					}
					found[root.Name()][nm] = true
				}
			}
		})
	}
	var names []string
	for k := range want {
		names = append(names, k)
	}
	sort.Strings(names)
	for _, fname := range names {
		var got []string
		for k := range found[fname] {
			got = append(got, k)
		}
		sort.Strings(got)
		fn := p.Fn("html/boxes", fname)
		pos := "-"
		if fn != nil {
			pos = p.Pos(fn.Pos())
		}
		r.Cond(strings.Join(got, " ") == strings.Join(want[fname], " "), "html/boxes."+fname+" | classes tested", pos, strings.Join(got, " "), fmt.Sprintf("tests the classes {%s}, CSS 2.1 names {%s}", strings.Join(got, " "), strings.Join(want[fname], " ")))
	}
}

// c09Accumulators: a list handed to a box that keeps it is not reused as a buffer.
func c09Accumulators(c *core.Check) {
	p := c.Prog
	r := c.Rule("R9", "box children are not shared with a buffer: in the box-building passes, a slice variable that was handed to a constructor which keeps it as the children of a box is never emptied by re-slicing (`x = x[:0]`) and filled again — the next run of boxes would overwrite the children of the box just built", 1)
	retains := p.Retains()
	n := 0
	for _, pkg := range []string{"html/boxes", "html/layout"} {
		for _, fn := range p.FuncsOfPkg(pkg) {
			fn := fn
			varOf := func(v ssa.Value) string {
				for i := 0; i < 4; i++ {
					switch x := v.(type) {
					case *ssa.Phi:
						return x.Comment
					case *ssa.Call:
						if b, ok := x.Call.Value.(*ssa.Builtin); ok && b.Name() == "append" {
							v = x.Call.Args[0]
							continue
						}
					case *ssa.Slice:
						v = x.X
						continue
					}
					break
				}
				return ""
			}
			core.Instrs(fn, func(in ssa.Instruction) {
				sl, ok := in.(*ssa.Slice)
				if !ok || sl.High == nil {
					return
				}
				if k, isK := core.ConstInt(sl.High); !isK || k != 0 {
					return
				}
				name := varOf(sl.X)
				if name == "" {
					return
				}
				n++
				kept := ""
				core.Instrs(fn, func(in2 ssa.Instruction) {
					call, ok := in2.(*ssa.Call)
					if !ok || call.Call.StaticCallee() == nil {
						return
					}
					callee := call.Call.StaticCallee()
					for j, a := range call.Call.Args {
						if retains[callee][j] && varOf(a) == name {
							kept = callee.Name() + " at " + p.Pos(call.Pos())
						}
					}
				})
				r.Cond(kept == "", core.FuncName(fn)+" | "+name+" = "+name+"[:0]", p.Pos(sl.Pos()), "the list is not kept by any box", "the list was handed to "+kept+", which keeps it as the children of a box, and is then emptied in place and refilled: the box's children are overwritten by the next run")
			})
		}
	}
	r.OK("html/boxes, html/layout | buffers reset by re-slicing examined", "-", fmt.Sprintf("%d", n))
}

// c09Replaced: the children of a replaced element generate no box.
func c09Replaced(c *core.Check) {
	p := c.Prog
	r := c.Rule("R10", "a replaced box has no children: makeReplacedBox copies named fields of the element's box (string-set, bookmark label) into the replaced box, never the whole BoxFields or its Children — the fallback content of an <object> or the elements of an inline <svg> would stay in the tree, outside the reach of every anonymous-box pass", 1)
	fn := p.Fn("html/boxes", "makeReplacedBox")
	if fn == nil {
		r.Anchor("html/boxes.makeReplacedBox")
		return
	}
	bad := ""
	n := 0
	core.Instrs(fn, func(in ssa.Instruction) {
		st, ok := in.(*ssa.Store)
		if !ok {
			return
		}
		n++
		// a store of a whole BoxFields value
		if named, ok := st.Val.Type().(*types.Named); ok && named.Obj().Name() == "BoxFields" {
			bad = "the whole BoxFields of the element's box is copied at " + p.Pos(st.Pos())
		}
		if fa, ok := st.Addr.(*ssa.FieldAddr); ok && core.FieldName(fa) == "Children" {
			bad = "the Children field is assigned at " + p.Pos(st.Pos())
		}
	})
	r.Cond(bad == "" && n > 0, "html/boxes.makeReplacedBox | fields copied", p.Pos(fn.Pos()), "named fields only", bad+": the replaced box keeps the boxes of the element's children")
}
