package props

import (
	"sort"
	"go/token"

	"golang.org/x/tools/go/ssa"

	"wrverif/core"
)

// c09Conserve: the anonymous table pass loses no box.  The iterator that wraps improper children reads one child per
// iteration of its loop; on every path through an iteration the child is either handed on (stored in the box to
// return, or in the one-box stack) or kept for the next wrapper (appended to the improper list).  A path back to the
// loop header that does neither drops the box and everything in it.
func c09Conserve(c *core.Check) {
	p := c.Prog
	r := c.Rule("R11", "the anonymous table pass loses no box: in wrapImproperIterator.Next every child taken from the input is stored as the box to return, stacked, or appended to the list of improper children before the next child is taken (every iteration of the loop passes through one of the three), and a child is handed on unwrapped only when it passed the test of the rule being applied", 1)
	fn := p.Method("html/boxes", "wrapImproperIterator", "Next")
	if fn == nil {
		r.Anchor("html/boxes.(*wrapImproperIterator).Next")
		return
	}
	// the child: result of the invoke Box() on the input iterator, inside a loop
	var child *ssa.Call
	core.Instrs(fn, func(in ssa.Instruction) {
		if call, ok := in.(*ssa.Call); ok && call.Call.IsInvoke() && call.Call.Method.Name() == "Box" && core.InnermostLoop(fn, call.Block()) != nil {
			child = call
		}
	})
	if child == nil {
		r.Anchor("wrapImproperIterator.Next: child := iter.children.Box() in the loop")
		return
	}
	loop := core.InnermostLoop(fn, child.Block())
	isChild := func(v ssa.Value) bool {
		return core.DerivesFrom(v, func(x ssa.Value) bool { return x == ssa.Value(child) })
	}
	keeps := func(in ssa.Instruction) bool {
		switch x := in.(type) {
		case *ssa.Store:
			if _, ok := x.Addr.(*ssa.FieldAddr); ok && isChild(x.Val) {
				return true
			}
			// element of the slice literal handed to append
			if ia, ok := x.Addr.(*ssa.IndexAddr); ok && isChild(x.Val) {
				_ = ia
				return true
			}
		case *ssa.Call:
			if b, ok := x.Call.Value.(*ssa.Builtin); ok && b.Name() == "append" {
				for _, a := range x.Call.Args[1:] {
					if isChild(a) {
						return true
					}
				}
			}
		}
		return false
	}
	// every path from the read of the child back to the header keeps it
	always := true
	seen := map[*ssa.BasicBlock]bool{}
	var walk func(b *ssa.BasicBlock, from int)
	walk = func(b *ssa.BasicBlock, from int) {
		for _, in := range b.Instrs[from:] {
			if keeps(in) {
				return
			}
		}
		for _, s := range b.Succs {
			if s == loop.Header {
				always = false
				continue
			}
			if !loop.Blocks[s] || seen[s] {
				continue // leaving the loop: the function returns, decided below
			}
			seen[s] = true
			walk(s, 0)
		}
	}
	start := 0
	for i, in := range child.Block().Instrs {
		if in == ssa.Instruction(child) {
			start = i + 1
		}
	}
	walk(child.Block(), start)
	r.Cond(always, "html/boxes.(*wrapImproperIterator).Next | every child is returned, stacked or kept as improper", p.Pos(child.Pos()), "no path takes the next child without keeping this one",
		"a path goes back to take the next child without returning, stacking or keeping the current one: that box and its content disappear from the tree (`<div style=\"display:flex\"><div style=\"display:table-cell\">x</div><p>y</p></div>` renders only y)")
	// … and only a child that passed the test leaves the iterator unwrapped
	var tests []ssa.Value
	for _, a := range core.CondAtoms(fn) {
		call, ok := a.(*ssa.Call)
		if !ok || call.Call.IsInvoke() || call.Call.StaticCallee() != nil || len(call.Call.Args) != 1 {
			continue
		}
		if isChild(call.Call.Args[0]) {
			tests = append(tests, a)
		}
	}
	if len(tests) == 0 {
		r.Anchor("wrapImproperIterator.Next: if iter.test(child)")
		return
	}
	core.Instrs(fn, func(in ssa.Instruction) {
		st, ok := in.(*ssa.Store)
		if !ok {
			return
		}
		fa, ok := st.Addr.(*ssa.FieldAddr)
		if !ok || !isChild(st.Val) {
			return
		}
		guarded, _ := core.GuardedBy(fn, st.Block(), tests, func(m map[ssa.Value]bool) bool {
			for _, v := range m {
				if v {
					return true
				}
			}
			return false
		})
		r.Cond(guarded, "html/boxes.(*wrapImproperIterator).Next | "+core.FieldName(fa)+" = child only when the test passed", p.Pos(st.Pos()), "the child is handed on unwrapped only on the path where iter.test(child) is true",
			"a child that failed the test of the rule (a table cell outside a row, a row outside a table) is handed on without the anonymous wrapper: the tree holds a table-internal box outside a table")
	})
	_ = token.NoPos
}

// c09CSSWhitespace (R12): the text that the box-generation rules may drop between table parts, flex items and
// blocks is text made of CSS white space only: space, tab, LF, CR, FF (CSS 2.1 §17.2.1, §9.2.1.1).  A no-break
// space or an ideographic space is content.  The predicates that isWhitespace uses — its default and every function
// handed to it — do not call the Unicode-wide helpers of the standard library.
func c09CSSWhitespace(c *core.Check) {
	p := c.Prog
	r := c.Rule("R12", "white-space-only text is decided with the five CSS white space characters: no predicate used by boxes.isWhitespace (its default, and each function passed as its second argument) calls strings.TrimSpace, strings.Fields, strings.TrimFunc or unicode.IsSpace", 2)
	iw := p.Fn("html/boxes", "isWhitespace")
	if iw == nil {
		r.Anchor("html/boxes.isWhitespace")
		return
	}
	preds := map[*ssa.Function]bool{}
	// the default: functions referenced inside isWhitespace
	core.Instrs(iw, func(in ssa.Instruction) {
		for _, op := range in.Operands(nil) {
			if f, ok := (*op).(*ssa.Function); ok && f.Blocks != nil && f.Pkg == iw.Pkg {
				preds[f] = true
			}
		}
	})
	// predicates passed by the callers
	for _, fn := range p.FuncsOfPkg("html/boxes") {
		if fn.Blocks == nil {
			continue
		}
		core.Instrs(fn, func(in ssa.Instruction) {
			call, ok := in.(*ssa.Call)
			if !ok || call.Call.StaticCallee() != iw || len(call.Call.Args) < 2 {
				return
			}
			switch x := call.Call.Args[1].(type) {
			case *ssa.Function:
				preds[x] = true
			case *ssa.MakeClosure:
				if f, ok := x.Fn.(*ssa.Function); ok {
					preds[f] = true
				}
			}
		})
	}
	if len(preds) == 0 {
		r.Unknown("html/boxes.isWhitespace | predicates", p.Pos(iw.Pos()), "no predicate found")
		return
	}
	var fns []*ssa.Function
	for f := range preds {
		fns = append(fns, f)
	}
	sort.Slice(fns, func(i, j int) bool { return fns[i].String() < fns[j].String() })
	for _, f := range fns {
		bad := ""
		core.Instrs(f, func(in ssa.Instruction) {
			call, ok := in.(*ssa.Call)
			if !ok {
				return
			}
			callee := call.Call.StaticCallee()
			if callee == nil || callee.Pkg == nil {
				return
			}
			switch callee.Pkg.Pkg.Path() + "." + callee.Name() {
			case "strings.TrimSpace", "strings.Fields", "strings.TrimFunc", "unicode.IsSpace", "strings.FieldsFunc":
				bad = callee.Pkg.Pkg.Path() + "." + callee.Name()
			}
		})
		r.Cond(bad == "", core.FuncName(f)+" | white space predicate", p.Pos(f.Pos()), "no Unicode-wide white space helper", "the predicate calls "+bad+", which also treats U+00A0, U+3000 … as white space: a cell or a row made of a no-break space is discarded as inter-element white space")
	}
}
