package props

import (
	"fmt"
	"go/token"
	"strings"

	"golang.org/x/tools/go/ssa"

	"wrverif/core"
)

// c13SpacingAxis (R19): border-spacing holds two lengths, the horizontal one first.  Every read of one component by a
// constant index in the layout code is used along one axis, and the axis is visible in the code: the component is
// multiplied by a count of columns (derived from Colspan) or of rows (Rowspan), lands in a variable named …X / …Y
// or …Horizontal… / …Vertical…, or is read in a function that computes widths only.  The index is 0 for the
// horizontal uses and 1 for the vertical ones.  (With `border-spacing: 4px 40px` the spacing between the columns of
// a spanning cell was taken from the vertical component: the columns came out narrower than the content.)
func c13SpacingAxis(c *core.Check) {
	p := c.Prog
	r := c.Rule("R19", "the component of border-spacing matches the axis it is used on: every GetBorderSpacing()[k] with constant k in html/layout whose use shows an axis (multiplied by a count derived from Colspan or Rowspan, stored in a variable named …X/…Y or …Horizontal…/…Vertical…, or read in a function named …Widths) has k = 0 for the horizontal axis and k = 1 for the vertical one", 3)
	n := 0
	for _, fn := range p.FuncsOfPkg("html/layout") {
		fn := fn
		k := 0
		core.Instrs(fn, func(in ssa.Instruction) {
			// t = arr[k] where arr is (a copy of) the result of GetBorderSpacing()
			var idx int64
			var base ssa.Value
			switch x := in.(type) {
			case *ssa.IndexAddr:
				c, ok := core.ConstInt(x.Index)
				if !ok {
					return
				}
				idx, base = c, x.X
			case *ssa.Index:
				c, ok := core.ConstInt(x.Index)
				if !ok {
					return
				}
				idx, base = c, x.X
			default:
				return
			}
			if !core.DerivesFrom(base, core.IsCallNamed("GetBorderSpacing")) {
				return
			}
			if _, isSpacing := in.(ssa.Value); !isSpacing {
				return
			}
			k++
			n++
			key := fmt.Sprintf("%s | GetBorderSpacing()[const] #%d", core.FuncName(fn), k)
			comp := in.(ssa.Value)
			fromComp := func(v ssa.Value) bool { return core.DerivesFrom(v, func(x ssa.Value) bool { return x == comp }) }
			axes := map[int]string{}
			// where the component lands
			var sinks []ssa.Value // allocs that receive it
			core.Instrs(fn, func(in2 ssa.Instruction) {
				if st, ok := in2.(*ssa.Store); ok && fromComp(st.Val) {
					name := ""
					switch a := st.Addr.(type) {
					case *ssa.Alloc:
						name = a.Comment
						sinks = append(sinks, a)
					case *ssa.FieldAddr:
						name = core.FieldName(a)
					}
					switch {
					case strings.HasSuffix(name, "X") || strings.Contains(name, "Horizontal"):
						axes[0] = "stored in " + name
					case strings.HasSuffix(name, "Y") || strings.Contains(name, "Vertical"):
						axes[1] = "stored in " + name
					}
				}
			})
			carries := func(v ssa.Value) bool {
				if fromComp(v) {
					return true
				}
				return core.DerivesFrom(v, func(x ssa.Value) bool {
					ld, ok := x.(*ssa.UnOp)
					if !ok || ld.Op != token.MUL {
						return false
					}
					for _, s := range sinks {
						if ld.X == s {
							return true
						}
					}
					return false
				})
			}
			span := func(name string) func(ssa.Value) bool {
				return func(v ssa.Value) bool {
					return arithDerives(v, func(x ssa.Value) bool {
						return core.DerivesFrom(x, func(y ssa.Value) bool { return core.IsFieldNamed(y, name) })
					})
				}
			}
			core.Instrs(fn, func(in2 ssa.Instruction) {
				mul, ok := in2.(*ssa.BinOp)
				if !ok || mul.Op != token.MUL {
					return
				}
				for _, side := range [][2]ssa.Value{{mul.X, mul.Y}, {mul.Y, mul.X}} {
					if !carries(side[0]) {
						continue
					}
					if span("Colspan")(side[1]) {
						axes[0] = "multiplied by a count derived from Colspan"
					}
					if span("Rowspan")(side[1]) {
						axes[1] = "multiplied by a count derived from Rowspan"
					}
				}
			})
			if strings.Contains(fn.Name(), "Widths") {
				axes[0] = "read in " + fn.Name()
			}
			switch len(axes) {
			case 0:
				r.Skip(key, p.Pos(in.Pos()), "the use of this component shows no axis the rule knows")
			case 2:
				r.Unknown(key, p.Pos(in.Pos()), "the component is used on both axes: "+axes[0]+"; "+axes[1])
			default:
				for ax, why := range axes {
					r.Cond(int64(ax) == idx, key, p.Pos(in.Pos()), fmt.Sprintf("component %d, %s", idx, why), fmt.Sprintf("component %d of border-spacing is %s: the %s spacing is used on the other axis", idx, why, map[int64]string{0: "horizontal", 1: "vertical"}[idx]))
				}
			}
		})
	}
	if n == 0 {
		r.Anchor("constant-indexed reads of GetBorderSpacing() in html/layout")
	}
}
