package props

import (
	"fmt"
	"go/ast"
	"go/constant"
	"go/token"
	"go/types"
	"sort"
	"strings"

	"golang.org/x/tools/go/ssa"

	"wrverif/core"
)

func init() { register("C05", c05) }

func methodSwitch(p *core.Prog, pkg, typ, meth, tag string) (*ssa.Function, *core.SwitchInfo) {
	fn := p.Method(pkg, typ, meth)
	if fn == nil {
		return nil, nil
	}
	return fn, switchOn(p, fn, tag)
}

// caseConsts returns the constant case labels of a switch (strings rendered with %q, others exact).
func caseConsts(info *types.Info, sw *core.SwitchInfo) map[string]bool {
	out := map[string]bool{}
	for _, cs := range sw.Cases {
		for _, l := range cs {
			if v := core.ConstOf(info, l); v != nil {
				out[v.ExactString()] = true
			}
		}
	}
	return out
}

// structLitFields evaluates the constant fields of a struct literal (missing = zero value "").
func structLitFields(info *types.Info, cl *ast.CompositeLit) map[string]string {
	out := map[string]string{}
	for _, e := range cl.Elts {
		if kv, ok := e.(*ast.KeyValueExpr); ok {
			if id, ok := kv.Key.(*ast.Ident); ok {
				if v := core.ConstOf(info, kv.Value); v != nil {
					out[id.Name] = v.ExactString()
				} else {
					out[id.Name] = "?" + types.ExprString(kv.Value)
				}
			}
		}
	}
	return out
}

func c05(c *core.Check) {
	p := c.Prog
	c.Explain = "Structural necessary conditions of selector matching and weighing, decided on the type-checked source: the vocabularies of the parser and of the three panicking Match dispatchers agree; each kind of simple selector has the Selectors-4 specificity constant and :is/:not/:has take the most specific argument; the dispatch tables (combinator → relation, attribute operator → predicate, structural pseudo-class name → (a,b,last,ofType)) are the Selectors tables; tag names, attribute names and pseudo-class names are ASCII-lowercased and the i flag reaches every value comparison; the substring and word operators cannot return true for an empty value; every String() method that writes a value between quotes escapes it, and every pseudo-class name a String() method prints is accepted by the parser; an+b division is guarded. The matching semantics themselves (sibling walks, an+b arithmetic, :empty) are not decided."
	c05EscapedSet(c)
	c05SliceGuards(c)
	c05HexEscapes(c)
	r13 := c.Rule("R13", "a rule weighs as its most specific matching selector: the consumer of the selector lists (html/tree.matcher.match) tests every selector of a list and records a result for each one that matches, with that selector's own specificity (shared with C03.R7)", 1)
	c03Matcher(c, r13)
	rArgs := c.Rule("R11", "no call passes two same-typed arguments under each other's parameter names (swapped arguments): every pair of arguments named after the callee's parameters is aligned with them", 7)
	argNameRule(c, rArgs, "css/selector", nil, 8)

	const pkg = "css/selector"
	// ---- R1 vocabulary agreement with panicking dispatchers
	r1 := c.Rule("R1", "every attribute operator, relative pseudo-class name and combinator the parser can construct has a case in the corresponding Match method (whose default panics)", 17)
	pas := p.Method(pkg, "parser", "parseAttributeSelector")
	am, amSw := methodSwitch(p, pkg, "attrSelector", "Match", "t.operation")
	if pas == nil || am == nil || amSw == nil {
		r1.Anchor("css/selector parseAttributeSelector / attrSelector.Match switch t.operation")
	} else {
		opSw := switchOn(p, pas, "op")
		if opSw == nil {
			r1.Anchor("switch op in parseAttributeSelector")
		} else {
			cons := caseConsts(p.InfoOf(am), amSw)
			for _, op := range caseLabels(p.InfoOf(pas), opSw) {
				r1.Cond(cons[fmt.Sprintf("%q", op)], "attribute operator "+op+" handled by attrSelector.Match", p.Pos(amSw.Pos), "case present", "the parser accepts this operator but Match has no case and panics")
			}
			r1.Cond(cons[`""`], "attribute presence selector handled", p.Pos(amSw.Pos), "case \"\" present", "no case for [attr]")
		}
	}
	pps := p.Method(pkg, "parser", "parsePseudoclassSelector")
	rm, rmSw := methodSwitch(p, pkg, "relativePseudoClassSelector", "Match", "s.name")
	var nameSw *core.SwitchInfo
	if pps != nil {
		// the big switch over the pseudo-class name: the one with the most cases
		for _, sw := range core.Switches(p.Body(pps)) {
			if sw.Tag != nil && types.ExprString(sw.Tag) == "name" && (nameSw == nil || len(sw.Cases) > len(nameSw.Cases)) {
				nameSw = sw
			}
		}
	}
	if pps == nil || rm == nil || rmSw == nil || nameSw == nil {
		r1.Anchor("css/selector parsePseudoclassSelector switch name / relativePseudoClassSelector.Match switch s.name")
	} else {
		info := p.InfoOf(pps)
		relT := p.Obj(pkg, "relativePseudoClassSelector").Type()
		cons := caseConsts(p.InfoOf(rm), rmSw)
		n := 0
		for i, cs := range nameSw.Cases {
			builds := false
			for _, st := range nameSw.Bodies[i] {
				if len(core.CompositeLitsIn(info, st, relT)) > 0 {
					builds = true
				}
			}
			if !builds {
				continue
			}
			for _, l := range cs {
				if s, ok := core.StrConst(info, l); ok {
					n++
					r1.Cond(cons[fmt.Sprintf("%q", s)], "relative pseudo-class :"+s+" handled by Match", p.Pos(rmSw.Pos), "case present", "the parser builds a relativePseudoClassSelector with this name but Match has no case and panics")
				}
			}
		}
		r1.Cond(n >= 3, "parser builds relative pseudo-classes", p.Pos(nameSw.Pos), fmt.Sprint(n), "fewer than 3 names (:is :not :has) build a relativePseudoClassSelector")
	}
	ps := p.Method(pkg, "parser", "parseSelector")
	cm, cmSw := methodSwitch(p, pkg, "combinedSelector", "Match", "t.combinator")
	if ps == nil || cm == nil || cmSw == nil {
		r1.Anchor("css/selector parseSelector / combinedSelector.Match switch t.combinator")
	} else {
		// bytes that can be stored into `combinator`: constants assigned, and the case labels of the clause that assigns p.s[p.i]
		info := p.InfoOf(ps)
		var produced []string
		ast.Inspect(p.Body(ps), func(n ast.Node) bool {
			switch x := n.(type) {
			case *ast.AssignStmt:
				if len(x.Lhs) == 1 && types.ExprString(x.Lhs[0]) == "combinator" {
					if v := core.ConstOf(info, x.Rhs[0]); v != nil {
						produced = append(produced, v.ExactString())
					}
				}
			case *ast.CaseClause:
				assigns := false
				for _, st := range x.Body {
					if as, ok := st.(*ast.AssignStmt); ok && len(as.Lhs) == 1 && types.ExprString(as.Lhs[0]) == "combinator" && core.ConstOf(info, as.Rhs[0]) == nil {
						assigns = true
					}
				}
				if assigns {
					for _, l := range x.List {
						if v := core.ConstOf(info, l); v != nil {
							produced = append(produced, v.ExactString())
						}
					}
				}
			}
			return true
		})
		cons := caseConsts(p.InfoOf(cm), cmSw)
		sort.Strings(produced)
		for _, b := range produced {
			r1.Cond(cons[b], "combinator byte "+b+" handled by combinedSelector.Match", p.Pos(cmSw.Pos), "case present", "parseSelector can store this combinator but Match has no case and panics")
		}
		r1.Cond(len(produced) >= 4, "parseSelector produces the four combinators", p.Pos(ps.Pos()), fmt.Sprint(produced), fmt.Sprintf("only %v", produced))
	}

	// ---- R3 specificity constants
	r3 := c.Rule("R3", "Specificity() of each simple selector kind is the Selectors-4 constant: type (0,0,1); class, attribute and pseudo-class (0,1,0); id (1,0,0); a pseudo-element adds (0,0,1); :is/:not/:has take the maximum (by Less) of their arguments; compound and combined selectors add", 6)
	specT := p.Obj(pkg, "Specificity")
	wantSpec := map[string][3]int64{"tagSelector": {0, 0, 1}, "classSelector": {0, 1, 0}, "idSelector": {1, 0, 0}, "attrSelector": {0, 1, 0}, "abstractPseudoClass": {0, 1, 0}, "neverMatchSelector": {0, 1, 0}}
	var tnames []string
	for n := range wantSpec {
		tnames = append(tnames, n)
	}
	sort.Strings(tnames)
	for _, tn := range tnames {
		fn := p.Method(pkg, tn, "Specificity")
		if fn == nil {
			r3.Anchor(pkg + "." + tn + ".Specificity")
			continue
		}
		lits := arrayLiterals(p, fn, specT.Type())
		w := wantSpec[tn]
		ok := len(lits) == 1 && lits[0].vals[0] == w[0] && lits[0].vals[1] == w[1] && lits[0].vals[2] == w[2]
		got := "no single literal"
		if len(lits) == 1 {
			got = fmt.Sprint(lits[0].vals)
		}
		r3.Cond(ok, tn+".Specificity()", p.Pos(fn.Pos()), got, fmt.Sprintf("%s, Selectors 4 §17 requires %v", got, w))
	}
	// every pseudo-class type embeds abstractPseudoClass or is the relative one
	if cs := p.Method(pkg, "compoundSelector", "Specificity"); cs != nil {
		add := p.Method(pkg, "Specificity", "Add")
		nAdd := 0
		pe := false
		core.Instrs(cs, func(in ssa.Instruction) {
			if call, ok := in.(*ssa.Call); ok && call.Common().StaticCallee() == add {
				nAdd++
			}
		})
		for _, l := range arrayLiterals(p, cs, specT.Type()) {
			if l.vals[0] == 0 && l.vals[1] == 0 && l.vals[2] == 1 {
				pe = true
			}
		}
		r3.Cond(nAdd >= 2 && pe, "compoundSelector adds its parts and (0,0,1) for a pseudo-element", p.Pos(cs.Pos()), fmt.Sprintf("%d Add calls, pseudo-element literal present", nAdd), "the sum over sub-selectors or the pseudo-element increment is missing")
	} else {
		r3.Anchor(pkg + ".compoundSelector.Specificity")
	}
	if rs := p.Method(pkg, "relativePseudoClassSelector", "Specificity"); rs != nil {
		less := p.Method(pkg, "Specificity", "Less")
		// max by Less: an If on max.Less(new) whose true branch assigns new
		okMax := false
		for _, a := range core.CondAtoms(rs) {
			if call, ok := a.(*ssa.Call); ok && call.Common().StaticCallee() == less && len(call.Call.Args) == 2 {
				// arg0 is the running max (a phi), arg1 the candidate (result of an invoke Specificity())
				_, isPhi := core.Unwrap(call.Call.Args[0]).(*ssa.Phi)
				cand, isCall := call.Call.Args[1].(*ssa.Call)
				if isPhi && isCall && cand.Common().IsInvoke() && cand.Common().Method.Name() == "Specificity" {
					okMax = true
				}
			}
		}
		r3.Cond(okMax, ":is/:not/:has specificity is the maximum over the arguments", p.Pos(rs.Pos()), "running max compared with Less against each argument's Specificity()", "not a max-by-Less fold over the arguments")
	} else {
		r3.Anchor(pkg + ".relativePseudoClassSelector.Specificity")
	}

	// ---- R5 division guards
	r5 := c.Rule("R5", "the an+b test divides and takes the remainder by a only where a is proven non-zero", 2)
	divisionRule(c, r5, inPkgs("css/selector"))

	// ---- R6 dispatch tables
	r6 := c.Rule("R6", "dispatch tables are the Selectors tables: combinator ' ' descendant, '>' child, '+' adjacent sibling, '~' general sibling; attribute operators = ~= |= ^= $= *= call the equality, whitespace-list, dash, prefix, suffix and substring predicates; first/last-child, first/last-of-type are nth(0,1) with the matching (last, ofType); nth-* names set last/ofType by name", 17)
	if cm != nil && cmSw != nil {
		info := p.InfoOf(cm)
		want := map[string][2]string{"32": {"descendantMatch", ""}, "62": {"childMatch", ""}, "43": {"siblingMatch", "true"}, "126": {"siblingMatch", "false"}}
		for i, cs := range cmSw.Cases {
			for _, l := range cs {
				v := core.ConstOf(info, l)
				if v == nil {
					continue
				}
				w, ok := want[v.ExactString()]
				if !ok {
					continue
				}
				callee, adj := "", ""
				for _, st := range cmSw.Bodies[i] {
					ast.Inspect(st, func(n ast.Node) bool {
						if call, ok := n.(*ast.CallExpr); ok {
							if id, ok := call.Fun.(*ast.Ident); ok {
								callee = id.Name
								if len(call.Args) == 4 {
									if bv := core.ConstOf(info, call.Args[2]); bv != nil {
										adj = bv.ExactString()
									}
								}
							}
						}
						return true
					})
				}
				r6.Cond(callee == w[0] && adj == w[1], fmt.Sprintf("combinator %q → %s(%s)", rune(mustInt(v)), w[0], w[1]), p.Pos(l.Pos()), callee+"("+adj+")", fmt.Sprintf("dispatches to %s(%s)", callee, adj))
			}
		}
	}
	if am != nil && amSw != nil {
		info := p.InfoOf(am)
		want := map[string]string{"=": "matchInsensitiveValue", "~=": "matchInclude", "|=": "attributeDashMatch", "^=": "attributePrefixMatch", "$=": "attributeSuffixMatch", "*=": "attributeSubstringMatch", "!=": "attributeNotEqualMatch"}
		for i, cs := range amSw.Cases {
			for _, l := range cs {
				s, ok := core.StrConst(info, l)
				if !ok {
					continue
				}
				w, ok := want[s]
				if !ok {
					continue
				}
				var callees []string
				for _, st := range amSw.Bodies[i] {
					ast.Inspect(st, func(n ast.Node) bool {
						if call, ok := n.(*ast.CallExpr); ok {
							if id, ok := call.Fun.(*ast.Ident); ok && id.Name != "matchAttribute" {
								callees = append(callees, id.Name)
							}
						}
						return true
					})
				}
				r6.Cond(len(callees) == 1 && callees[0] == w, "operator "+s+" → "+w, p.Pos(l.Pos()), strings.Join(callees, ","), "dispatches to "+strings.Join(callees, ","))
			}
		}
	}
	if pps != nil && nameSw != nil {
		info := p.InfoOf(pps)
		nthT := p.Obj(pkg, "nthPseudoClassSelector").Type()
		onlyT := p.Obj(pkg, "onlyChildPseudoClassSelector").Type()
		want := map[string]map[string]string{
			"first-child":   {"a": "0", "b": "1", "last": "false", "ofType": "false"},
			"last-child":    {"a": "0", "b": "1", "last": "true", "ofType": "false"},
			"first-of-type": {"a": "0", "b": "1", "last": "false", "ofType": "true"},
			"last-of-type":  {"a": "0", "b": "1", "last": "true", "ofType": "true"},
		}
		wantOnly := map[string]string{"only-child": "false", "only-of-type": "true"}
		for i, cs := range nameSw.Cases {
			for _, l := range cs {
				s, _ := core.StrConst(info, l)
				if w, ok := want[s]; ok {
					lits := core.CompositeLitsIn(info, &ast.BlockStmt{List: nameSw.Bodies[i]}, nthT)
					okAll := len(lits) == 1
					got := map[string]string{}
					if okAll {
						got = structLitFields(info, lits[0])
						for k, v := range w {
							g := got[k]
							if g == "" {
								g = map[string]string{"a": "0", "b": "0", "last": "false", "ofType": "false"}[k]
							}
							if g != v {
								okAll = false
							}
						}
					}
					r6.Cond(okAll, ":"+s+" = nth(a=0,b=1,last="+w["last"]+",ofType="+w["ofType"]+")", p.Pos(l.Pos()), fmt.Sprint(got), fmt.Sprintf("builds %v", got))
				}
				if w, ok := wantOnly[s]; ok {
					lits := core.CompositeLitsIn(info, &ast.BlockStmt{List: nameSw.Bodies[i]}, onlyT)
					g := ""
					if len(lits) == 1 {
						g = structLitFields(info, lits[0])["ofType"]
						if g == "" {
							g = "false"
						}
					}
					r6.Cond(g == w, ":"+s+" ofType="+w, p.Pos(l.Pos()), g, "builds ofType="+g)
				}
			}
		}
		// nth-*: last := name == "nth-last-child" || name == "nth-last-of-type" ; ofType := name == "nth-of-type" || name == "nth-last-of-type"
		sets := map[string][]string{}
		ast.Inspect(p.Body(pps), func(n ast.Node) bool {
			if as, ok := n.(*ast.AssignStmt); ok && len(as.Lhs) == 1 && as.Tok == token.DEFINE {
				name := types.ExprString(as.Lhs[0])
				if name == "last" || name == "ofType" {
					sets[name] = stringsIn(info, as.Rhs[0])
				}
			}
			return true
		})
		r6.Cond(strings.Join(sets["last"], ",") == "nth-last-child,nth-last-of-type", "nth-*: last is set for the -last- names", p.Pos(pps.Pos()), strings.Join(sets["last"], ","), "last is true for {"+strings.Join(sets["last"], ",")+"}")
		r6.Cond(strings.Join(sets["ofType"], ",") == "nth-last-of-type,nth-of-type", "nth-*: ofType is set for the -of-type names", p.Pos(pps.Pos()), strings.Join(sets["ofType"], ","), "ofType is true for {"+strings.Join(sets["ofType"], ",")+"}")
	}

	// ---- R7 case folding
	r7 := c.Rule("R7", "type selectors, attribute names and pseudo-class names are ASCII-lowercased before they are stored / compared, and the i flag is passed to every attribute value predicate", 9)
	lower := p.Fn(pkg, "toLowerASCII")
	isLowered := func(v ssa.Value) bool {
		return core.DerivesFrom(v, func(x ssa.Value) bool { _, ok := core.CallTo(x, lower); return ok })
	}
	if nts := p.Fn(pkg, "newTagSelector"); nts != nil && lower != nil {
		// every use of the tag parameter goes through toLowerASCII
		raw := 0
		par := nts.Params[0]
		if par.Referrers() != nil {
			for _, r := range *par.Referrers() {
				if call, ok := r.(*ssa.Call); ok && call.Common().StaticCallee() == lower {
					continue
				}
				if _, ok := r.(*ssa.DebugRef); ok {
					continue
				}
				raw++
			}
		}
		r7.Cond(raw == 0, "newTagSelector lowercases the tag name", p.Pos(nts.Pos()), "the tag parameter is only used through toLowerASCII", "the raw tag name is used without lowercasing: P{} would not match <p>")
	} else {
		r7.Anchor(pkg + ".newTagSelector / toLowerASCII")
	}
	if pas != nil {
		// the key stored in every attrSelector literal derives from toLowerASCII
		asT := p.Obj(pkg, "attrSelector").Type()
		n := 0
		core.Instrs(pas, func(in ssa.Instruction) {
			st, ok := in.(*ssa.Store)
			if !ok || !core.IsFieldNamed(st.Addr, "key") {
				return
			}
			if pt, ok := st.Addr.(*ssa.FieldAddr).X.Type().Underlying().(*types.Pointer); !ok || !types.Identical(pt.Elem(), asT) {
				return
			}
			n++
			r7.Cond(isLowered(st.Val), "attribute name stored lowercased", p.Pos(st.Pos()), "key derives from toLowerASCII", "attribute name stored with its original case: [TITLE] would not match title=")
		})
		r7.Cond(n >= 2, "parseAttributeSelector stores keys", p.Pos(pas.Pos()), fmt.Sprint(n), "fewer than two attrSelector literals store a key")
	}
	if pps != nil {
		// the value switched on in parsePseudoclassSelector derives from toLowerASCII: every comparison of `name` with a constant
		okAll, n := true, 0
		core.Instrs(pps, func(in ssa.Instruction) {
			b, ok := in.(*ssa.BinOp)
			if !ok || b.Op != token.EQL {
				return
			}
			if s, ok := core.ConstStr(b.Y); ok && strings.IndexFunc(s, func(r rune) bool { return r >= 'a' && r <= 'z' }) >= 0 {
				if b.X.Type().String() == "string" {
					n++
					if !isLowered(b.X) {
						okAll = false
					}
				}
			}
		})
		r7.Cond(okAll && n >= 30, "pseudo-class names are compared after lowercasing", p.Pos(pps.Pos()), fmt.Sprintf("%d comparisons, all on a lowercased name", n), "a pseudo-class name is compared without lowercasing")
	}
	if am != nil {
		// the ignoreCase field reaches each predicate call
		for _, callee := range []string{"matchInsensitiveValue", "matchInclude", "attributeDashMatch", "attributePrefixMatch", "attributeSuffixMatch", "attributeSubstringMatch"} {
			f := p.Fn(pkg, callee)
			if f == nil {
				r7.Anchor(pkg + "." + callee)
				continue
			}
			found, ok := false, true
			for _, fn := range allClosures(am) {
				core.Instrs(fn, func(in ssa.Instruction) {
					call, isCall := in.(*ssa.Call)
					if !isCall || call.Common().StaticCallee() != f {
						return
					}
					found = true
					last := call.Call.Args[len(call.Call.Args)-1]
					if !core.DerivesFrom(last, func(x ssa.Value) bool { return core.IsFieldNamed(x, "ignoreCase") }) {
						ok = false
					}
				})
			}
			r7.Cond(found && ok, "i flag reaches "+callee, p.Pos(am.Pos()), "last argument derives from attrSelector.ignoreCase", "the predicate is called without the selector's i flag")
		}
	}

	// ---- R8 empty value matches nothing
	r8 := c.Rule("R8", "the substring (^= $= *=) and word (~=) predicates cannot return true when the selector's value is empty: every non-false return is unreachable under the scenario val == \"\"", 2)
	for _, name := range []string{"attributePrefixMatch", "attributeSuffixMatch", "attributeSubstringMatch", "matchInclude"} {
		fn := p.Fn(pkg, name)
		if fn == nil {
			r8.Anchor(pkg + "." + name)
			continue
		}
		var val *ssa.Parameter
		for _, par := range fn.Params {
			if par.Name() == "val" {
				val = par
			}
		}
		if val == nil {
			r8.Anchor(pkg + "." + name + " parameter val")
			continue
		}
		// scenario val == "": atoms comparing val with "" or len(val) with 0
		bad := ""
		for _, f := range allClosures(fn) {
			// inside closures val is a free variable: the guard must be in the outer function before the closure is made,
			// or in the closure on the captured value
			core.Instrs(f, func(in ssa.Instruction) {
				ret, ok := in.(*ssa.Return)
				if !ok || len(ret.Results) != 1 || ret.Results[0].Type().String() != "bool" {
					return
				}
				if k, ok := ret.Results[0].(*ssa.Const); ok && k.Value != nil && !constant.BoolVal(k.Value) {
					return
				}
				if f != fn {
					// reachable only if the closure was created: check the MakeClosure site in fn
					var mk ssa.Instruction
					core.Instrs(fn, func(i2 ssa.Instruction) {
						if mc, ok := i2.(*ssa.MakeClosure); ok && mc.Fn == f {
							mk = i2
						}
					})
					if mk != nil && !emptyScenarioReaches(fn, val, mk.Block()) {
						return
					}
					bad = "a matching closure is created and can return true"
					return
				}
				if emptyScenarioReaches(fn, val, ret.Block()) {
					bad = "a non-false return is reachable"
				}
			})
		}
		r8.Cond(bad == "", name+" returns false for an empty value", p.Pos(fn.Pos()), "every path that can return true tests val != \"\" first", "with val == \"\": "+bad+" ([att^=\"\"] must match nothing)")
	}

	// ---- R10 CSS white space in word matching; element type comparison
	r10 := c.Rule("R10", "class and ~= matching split the attribute on the five CSS white space characters only (space, tab, LF, CR, FF); the *-of-type pseudo-classes compare element names (Node.Data), since the atom of every unknown element is 0", 5)
	// :empty ignores document white space only (Selectors 4): the text of a child is trimmed with the five characters,
	// never with strings.TrimSpace (Unicode white space: a no-break space would make an element empty)
	if em := p.Method(pkg, "emptyElementPseudoClassSelector", "Match"); em == nil {
		r10.Anchor("css/selector.emptyElementPseudoClassSelector.Match")
	} else {
		nTrim := 0
		core.Instrs(em, func(in ssa.Instruction) {
			call, ok := in.(*ssa.Call)
			if !ok || call.Call.StaticCallee() == nil {
				return
			}
			full := call.Call.StaticCallee().String()
			switch full {
			case "strings.TrimSpace", "strings.Fields", "unicode.IsSpace":
				nTrim++
				r10.Fail(":empty ignores document white space only", p.Pos(call.Pos()), full+" removes Unicode white space: <p>&nbsp;</p> would match :empty")
			case "strings.Trim":
				nTrim++
				set, isK := core.ConstStr(call.Call.Args[1])
				chars := map[rune]bool{}
				for _, ch := range set {
					chars[ch] = true
				}
				okSet := isK && len(chars) == 5 && chars[' '] && chars['\t'] && chars['\n'] && chars['\r'] && chars['\f']
				r10.Cond(okSet, ":empty ignores document white space only", p.Pos(call.Pos()), "trimmed with space, tab, LF, CR, FF", fmt.Sprintf("trimmed with %q, document white space is space, tab, LF, CR and FF", set))
			}
		})
		if nTrim == 0 {
			r10.Unknown(":empty ignores document white space only", p.Pos(em.Pos()), "no trimming call found in the matcher of :empty")
		}
	}
	if mi := p.Fn(pkg, "matchInclude"); mi != nil {
		info := p.Info(pkg)
		init := p.VarInit(pkg, "spaceAsciiSet")
		okSet := false
		if call, ok := init.(*ast.CallExpr); ok && len(call.Args) == 1 {
			if s, ok := core.StrConst(info, call.Args[0]); ok {
				rs := []rune(s)
				sort.Slice(rs, func(i, j int) bool { return rs[i] < rs[j] })
				okSet = string(rs) == "\t\n\f\r "
			}
		}
		r10.Cond(okSet, "spaceAsciiSet is the CSS white space set", "css/selector/selector.go", "space, tab, LF, CR, FF", "the separator set is not exactly the five CSS white space characters")
		usesSet, usesUnicode := false, ""
		g := p.Global(pkg, "spaceAsciiSet")
		core.Instrs(mi, func(in ssa.Instruction) {
			if call, ok := in.(*ssa.Call); ok {
				if callee := call.Common().StaticCallee(); callee != nil {
					if callee.Pkg != nil && (callee.Pkg.Pkg.Path() == "strings" || callee.Pkg.Pkg.Path() == "unicode") {
						switch callee.Name() {
						case "Fields", "FieldsFunc", "TrimSpace", "IsSpace":
							usesUnicode = callee.Pkg.Pkg.Path() + "." + callee.Name()
						}
					}
					for _, a := range call.Call.Args {
						if a == ssa.Value(g) {
							usesSet = true
						}
					}
				}
			}
		})
		r10.Cond(usesSet && usesUnicode == "", "matchInclude splits on spaceAsciiSet", p.Pos(mi.Pos()), "uses spaceAsciiSet.index and no Unicode-aware splitter", "splits with "+usesUnicode+" / not with spaceAsciiSet: Unicode spaces such as U+00A0 would separate words")
	} else {
		r10.Anchor(pkg + ".matchInclude")
	}
	for _, name := range []string{"nthChildMatch", "simpleNthChildMatch", "simpleNthLastChildMatch"} {
		fn := p.Fn(pkg, name)
		if fn == nil {
			r10.Anchor(pkg + "." + name)
			continue
		}
		c05OfType(c, r10, fn)
	}
	if fn := p.Method(pkg, "onlyChildPseudoClassSelector", "Match"); fn != nil {
		c05OfType(c, r10, fn)
	}

	// ---- R9 printed selectors re-parse
	r9 := c.Rule("R9", "every String() method of css/selector that writes a value between double quotes passes it through an escaping function; every pseudo-class name written by a String() method is a name the parser accepts after lowercasing", 24)
	parserNames := map[string]bool{}
	if nameSw != nil {
		for _, s := range caseLabels(p.InfoOf(pps), nameSw) {
			parserNames[s] = true
		}
	}
	escapers := map[string]bool{"escape": true, "escapeString": true}
	pk := p.ByPath[pkg]
	for _, f := range pk.Syntax {
		for _, d := range f.Decls {
			fd, ok := d.(*ast.FuncDecl)
			if !ok || fd.Name.Name != "String" || fd.Recv == nil || fd.Body == nil {
				continue
			}
			recv := types.ExprString(fd.Recv.List[0].Type)
			info := pk.TypesInfo
			ast.Inspect(fd.Body, func(n ast.Node) bool {
				call, ok := n.(*ast.CallExpr)
				if ok && types.ExprString(call.Fun) == "fmt.Sprintf" && len(call.Args) >= 1 {
					format, ok := core.StrConst(info, call.Args[0])
					if !ok {
						return true
					}
					// verbs in order
					argi := 1
					for i := 0; i < len(format); i++ {
						if format[i] != '%' || i+1 >= len(format) {
							continue
						}
						if format[i+1] == '%' {
							i++
							continue
						}
						quoted := i > 0 && format[i-1] == '"' && i+2 < len(format) && format[i+2] == '"'
						if quoted && argi < len(call.Args) {
							arg := call.Args[argi]
							escaped := false
							if ac, ok := arg.(*ast.CallExpr); ok {
								if id, ok := ac.Fun.(*ast.Ident); ok && escapers[id.Name] {
									escaped = true
								}
							}
							r9.Cond(escaped, recv+".String quotes "+types.ExprString(arg), p.Pos(call.Pos()), "value escaped before being written between quotes", "a raw value is written between double quotes: a quote or backslash in it breaks re-parsing")
						}
						argi++
					}
				}
				return true
			})
			// pseudo-class names printed
			for _, s := range stringsIn(info, fd.Body) {
				if !strings.HasPrefix(s, ":") || len(s) < 3 || strings.Contains(s, "%") {
					continue
				}
				name := strings.ToLower(strings.TrimPrefix(s, ":"))
				if strings.HasSuffix(name, "-") { // ":first-" / ":last-" prefixes completed by "child" / "of-type"
					for _, suf := range []string{"child", "of-type"} {
						r9.Cond(parserNames[name+suf], recv+".String prints :"+name+suf, p.Pos(fd.Pos()), "accepted by parsePseudoclassSelector", "the parser has no case for this name")
					}
					continue
				}
				r9.Cond(parserNames[name], recv+".String prints :"+name, p.Pos(fd.Pos()), "accepted by parsePseudoclassSelector", "the parser has no case for this name")
			}
		}
	}
	// names printed through fmt.Sprintf(":%s(...)", s, …) with s built from constants: contains/containsOwn, matches/matchesOwn, nth-*
	for _, extra := range []string{"contains", "containsown", "matches", "matchesown", "nth-child", "nth-last-child", "nth-of-type", "nth-last-of-type", "lang", "is", "not", "has"} {
		r9.Cond(parserNames[extra], "parser accepts :"+extra, "css/selector/parser.go", "case present", "String() methods print this name but the parser no longer accepts it")
	}
}

// c05OfType: comparisons between two node fields in an of-type counting loop must compare Data with Data.
func c05OfType(c *core.Check, r *core.Rule, fn *ssa.Function) {
	p := c.Prog
	n, bad := 0, ""
	core.Instrs(fn, func(in ssa.Instruction) {
		b, ok := in.(*ssa.BinOp)
		if !ok || (b.Op != token.EQL && b.Op != token.NEQ) {
			return
		}
		fx, fy := nodeField(b.X), nodeField(b.Y)
		if fx == "" || fy == "" {
			return
		}
		n++
		if fx != "Data" || fy != "Data" {
			bad = fx + " vs " + fy
		}
	})
	r.Cond(n >= 1 && bad == "", core.FuncName(fn)+" compares element names", p.Pos(fn.Pos()), fmt.Sprintf("%d comparison(s) of c.Data with n.Data", n), "the same-type test compares "+bad+": elements without a known atom (custom elements, most SVG elements) all compare equal")
}

// nodeField: v is a load of a field of an html.Node: returns the field name.
func nodeField(v ssa.Value) string {
	u, ok := v.(*ssa.UnOp)
	if !ok || u.Op != token.MUL {
		return ""
	}
	fa, ok := u.X.(*ssa.FieldAddr)
	if !ok {
		return ""
	}
	pt, ok := fa.X.Type().Underlying().(*types.Pointer)
	if !ok || !strings.HasSuffix(pt.Elem().String(), "html.Node") {
		return ""
	}
	return pt.Elem().Underlying().(*types.Struct).Field(fa.Field).Name()
}

func mustInt(v constant.Value) int64 { n, _ := constant.Int64Val(v); return n }

// emptyScenarioReaches: can block b be reached when string value v is empty? Atoms comparing v with "" or len(v) with 0 are decided.
func emptyScenarioReaches(fn *ssa.Function, v ssa.Value, b *ssa.BasicBlock) bool {
	assign := map[ssa.Value]bool{}
	for _, a := range core.CondAtomsReaching(fn, b) {
		bo, ok := a.(*ssa.BinOp)
		if !ok {
			continue
		}
		if s, ok := core.ConstStr(bo.Y); ok && core.ResolveLoad(bo.X) == v {
			switch bo.Op {
			case token.EQL:
				assign[a] = s == ""
			case token.NEQ:
				assign[a] = s != ""
			}
		}
		if call, ok := bo.X.(*ssa.Call); ok {
			if bi, ok := call.Call.Value.(*ssa.Builtin); ok && bi.Name() == "len" && core.ResolveLoad(call.Call.Args[0]) == v {
				if n, ok := core.ConstInt(bo.Y); ok {
					switch bo.Op {
					case token.EQL:
						assign[a] = n == 0
					case token.NEQ:
						assign[a] = n != 0
					case token.GTR:
						assign[a] = 0 > n
					case token.LSS:
						assign[a] = 0 < n
					case token.GEQ:
						assign[a] = 0 >= n
					case token.LEQ:
						assign[a] = 0 <= n
					}
				}
			}
		}
	}
	return core.ForwardReach(fn.Blocks[0], assign, nil)[b]
}
