package props

import (
	"fmt"
	"go/token"
	"go/types"

	"golang.org/x/tools/go/ssa"

	"wrverif/core"
)

// c19ExtendsCycle (R14): a counter style whose `extends` chain runs into a cycle is treated as extending decimal
// (css-counter-styles-3 §3.1.7): nothing of the style that closes the cycle is taken over.  In resolveCounter, in
// the iteration where the extended style's own system names a style already visited, the descriptors of that
// extended style are not merged: with the membership test of the visited set true, no call of merge is reachable
// before the next iteration.
func c19ExtendsCycle(c *core.Check) {
	p := c.Prog
	r := c.Rule("R14", "extends cycles fall back to decimal without inheriting from the cycle: in the loop of CounterStyle.resolveCounter, when the visited-set test of the extended style's system holds, merge is not reached in that iteration", 1)
	fn := p.Method("css/counters", "CounterStyle", "resolveCounter")
	if fn == nil {
		r.Anchor("css/counters.CounterStyle.resolveCounter")
		return
	}
	key := "css/counters.CounterStyle.resolveCounter | merge in the iteration that closes a cycle"
	var merges []*ssa.Call
	core.Instrs(fn, func(in ssa.Instruction) {
		if call, ok := in.(*ssa.Call); ok {
			if callee := call.Call.StaticCallee(); callee != nil && callee.Name() == "merge" {
				merges = append(merges, call)
			}
		}
	})
	if len(merges) == 0 {
		r.Unknown(key, p.Pos(fn.Pos()), "no call of merge")
		return
	}
	var loop *core.Loop
	for _, l := range core.Loops(fn) {
		if l.Blocks[merges[0].Block()] {
			loop = l
		}
	}
	if loop == nil {
		r.Unknown(key, p.Pos(merges[0].Pos()), "merge is not called in a loop")
		return
	}
	assign := map[ssa.Value]bool{}
	nHas := 0
	for _, a := range core.CondAtoms(fn) {
		in, ok := a.(ssa.Instruction)
		if !ok || !loop.Blocks[in.Block()] {
			continue
		}
		switch x := a.(type) {
		case *ssa.Call:
			if callee := x.Call.StaticCallee(); callee != nil && callee.Name() == "Has" {
				assign[a] = true
				nHas++
			}
		case *ssa.BinOp:
			if k, ok := core.ConstStr(x.Y); ok && k == "" && (x.Op == token.NEQ || x.Op == token.EQL) {
				assign[a] = x.Op == token.NEQ // the style still extends another one
			}
		}
	}
	if nHas == 0 {
		r.Fail(key, p.Pos(loop.Header.Instrs[0].Pos()), "the loop does not test the visited set: an extends cycle is followed for ever or merged whole")
		return
	}
	reach := core.ForwardReach(loop.Header, assign, nil)
	bad := ""
	for _, m := range merges {
		if loop.Blocks[m.Block()] && reach[m.Block()] {
			bad = p.Pos(m.Pos())
		}
	}
	r.Cond(bad == "", key, p.Pos(merges[0].Pos()), fmt.Sprintf("merge is not reached when the %d visited-set tests hold", nHas), "merge at "+bad+" is reached although the extended style closes a cycle: its pad, prefix, suffix and negative leak into a style that must behave as decimal")
}

// c19NoBoxNoCounters (R15): an element that generates no box does not reset, set or increment counters
// (CSS Lists 3 §4.5, CSS 2.1 §12.4.3).  A ::before/::after whose content is none, normal or inhibit generates
// none: in beforeAfterToBox, with any of these comparisons true, UpdateCounters is not reachable.
func c19NoBoxNoCounters(c *core.Check) {
	p := c.Prog
	r := c.Rule("R15", "no box, no counters: in html/boxes.beforeAfterToBox, when the content of the pseudo-element is none, normal or inhibit (each comparison in turn), the call of UpdateCounters is not reached", 1)
	fn := p.Fn("html/boxes", "beforeAfterToBox")
	if fn == nil {
		r.Anchor("html/boxes.beforeAfterToBox")
		return
	}
	var updates []*ssa.Call
	core.Instrs(fn, func(in ssa.Instruction) {
		if call, ok := in.(*ssa.Call); ok {
			if callee := call.Call.StaticCallee(); callee != nil && callee.Name() == "UpdateCounters" {
				updates = append(updates, call)
			}
		}
	})
	n := 0
	for _, a := range core.CondAtoms(fn) {
		bo, ok := a.(*ssa.BinOp)
		if !ok || bo.Op != token.EQL {
			continue
		}
		k, ok := core.ConstStr(bo.Y)
		if !ok || (k != "none" && k != "normal" && k != "inhibit") {
			continue
		}
		n++
		key := fmt.Sprintf("html/boxes.beforeAfterToBox | content %s", k)
		if len(updates) == 0 {
			r.Unknown(key, p.Pos(fn.Pos()), "no call of UpdateCounters")
			continue
		}
		reach := core.ForwardReach(fn.Blocks[0], map[ssa.Value]bool{a: true}, nil)
		bad := ""
		for _, u := range updates {
			if reach[u.Block()] {
				// reachable in a block: before or after the test?  only a problem if it is not dominated by the false side
				bad = p.Pos(u.Pos())
			}
		}
		r.Cond(bad == "", key, p.Pos(bo.Pos()), "UpdateCounters is not reached", "UpdateCounters at "+bad+" is reached although the pseudo-element generates no box: `h2.nonum::before{content:none}` still increments the counter of the numbered headings")
	}
	if n == 0 {
		r.Unknown("html/boxes.beforeAfterToBox | content tests", p.Pos(fn.Pos()), "no comparison of the content with none/normal/inhibit")
	}
}

// c19StyleKeywordNeedsType (R16): a counter style is a tagged value: an identifier, a string or symbols().  The
// keyword `none` (no marker, no counter text) is the identifier; the string "none" is a marker whose text is none.
// Wherever the name of a counter style is compared with none, the type of the same value is tested too.
func c19StyleKeywordNeedsType(c *core.Check) {
	p := c.Prog
	r := c.Rule("R16", "the keyword none is not the string \"none\": in html/boxes and css/counters every comparison of a CounterStyleID's Name with \"none\" goes with a comparison of the Type of the same value (same condition chain or a dominating test)", 1)
	isStyle := func(t types.Type) bool {
		if pt, ok := t.(*types.Pointer); ok {
			t = pt.Elem()
		}
		n, ok := t.(*types.Named)
		return ok && n.Obj().Name() == "CounterStyleID"
	}
	fieldOfStyle := func(v ssa.Value) (string, string, bool) {
		switch x := v.(type) {
		case *ssa.Field:
			if isStyle(x.X.Type()) {
				return x.X.Type().Underlying().(*types.Struct).Field(x.Field).Name(), valueText(x.X), true
			}
		case *ssa.UnOp:
			if fa, ok := x.X.(*ssa.FieldAddr); ok && isStyle(fa.X.Type()) {
				return core.FieldName(fa), valueText(fa.X), true
			}
		}
		return "", "", false
	}
	n := 0
	for _, pkg := range []string{"html/boxes", "css/counters", "html/layout"} {
		for _, fn := range p.FuncsOfPkg(pkg) {
			if fn.Blocks == nil {
				continue
			}
			type atom struct {
				bo   *ssa.BinOp
				base string
			}
			var names, typesT []atom
			for _, a := range core.CondAtoms(fn) {
				bo, ok := a.(*ssa.BinOp)
				if !ok || (bo.Op != token.EQL && bo.Op != token.NEQ) {
					continue
				}
				k, ok := core.ConstStr(bo.Y)
				if !ok {
					continue
				}
				f, base, ok := fieldOfStyle(bo.X)
				if !ok {
					continue
				}
				if f == "Name" && k == "none" {
					names = append(names, atom{bo, base})
				} else if f == "Type" {
					typesT = append(typesT, atom{bo, base})
				}
			}
			for i, na := range names {
				n++
				key := fmt.Sprintf("%s | style name compared with none #%d", core.FuncName(fn), i+1)
				ok := false
				for _, ta := range typesT {
					if ta.base != na.base {
						continue
					}
					if ta.bo.Block() == na.bo.Block() || ta.bo.Block().Dominates(na.bo.Block()) || na.bo.Block().Dominates(ta.bo.Block()) {
						ok = true
					}
				}
				r.Cond(ok, key, p.Pos(na.bo.Pos()), "together with a test of the style's type", "only the name is compared: `counter(c, \"none\")` and `list-style-type: \"none\"` (strings) are handled as the keyword none and print nothing")
			}
		}
	}
	if n == 0 {
		r.Unknown("html/boxes | counter style names compared with none", "-", "none found")
	}
}
