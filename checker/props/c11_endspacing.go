package props

import (
	"fmt"
	"go/token"
	"strings"

	"golang.org/x/tools/go/ssa"

	"wrverif/core"
)

// c11EndSpacing (R14): room for the end padding, border and margin of an inline box is reserved only on the line
// where the box ends.  splitInlineBox lays a child out with the full available width first; only when that child
// is the last one and was laid out completely (no resume position) does the box end on this line, and the child is
// laid out again with the width reduced by the end spacing.  Reducing the width for a child that will continue on
// the next line breaks the line earlier than necessary.
func c11EndSpacing(c *core.Check) {
	p := c.Prog
	r := c.Rule("R14", "splitInlineBox: a child is laid out in a width reduced by the box's end padding/border/margin only after an earlier layout of it returned no resume position (the call is dominated by the true branch of `resumeAt == nil` on a previous splitInlineLevel result); every other call passes the unreduced width", 2)
	fn := p.Fn("html/layout", "splitInlineBox")
	if fn == nil {
		r.Anchor("html/layout.splitInlineBox")
		return
	}
	isSpacing := func(v ssa.Value) bool {
		return arithDerives(v, func(v ssa.Value) bool {
			call, ok := v.(*ssa.Call)
			if !ok || !call.Call.IsInvoke() || call.Call.Method.Name() != "V" {
				return false
			}
			ld, ok := call.Call.Value.(*ssa.UnOp)
			if !ok {
				return false
			}
			fa, ok := ld.X.(*ssa.FieldAddr)
			if !ok {
				return false
			}
			n := core.FieldName(fa)
			return strings.HasPrefix(n, "Padding") || strings.HasPrefix(n, "Margin") || (strings.HasPrefix(n, "Border") && strings.HasSuffix(n, "Width"))
		})
	}
	reduced := func(v ssa.Value) bool {
		return arithDerives(v, func(v ssa.Value) bool {
			bo, ok := v.(*ssa.BinOp)
			return ok && bo.Op == token.SUB && isSpacing(bo.Y)
		})
	}
	var calls []*ssa.Call
	core.Instrs(fn, func(in ssa.Instruction) {
		if call, ok := in.(*ssa.Call); ok {
			if callee := call.Call.StaticCallee(); callee != nil && callee.Name() == "splitInlineLevel" && len(call.Call.Args) > 3 {
				calls = append(calls, call)
			}
		}
	})
	if len(calls) == 0 {
		r.Unknown("splitInlineBox | layout of the children", p.Pos(fn.Pos()), "no call of splitInlineLevel found")
		return
	}
	// tests `resumeAt == nil` on the result of a previous call
	var guards []*ssa.BasicBlock // true successors
	for _, b := range fn.Blocks {
		if len(b.Instrs) == 0 {
			continue
		}
		ifi, ok := b.Instrs[len(b.Instrs)-1].(*ssa.If)
		if !ok {
			continue
		}
		bo, ok := ifi.Cond.(*ssa.BinOp)
		if !ok || bo.Op != token.EQL {
			continue
		}
		if k, ok := bo.Y.(*ssa.Const); !ok || !k.IsNil() {
			continue
		}
		fromResult := arithDerives(bo.X, func(v ssa.Value) bool {
			ld, ok := v.(*ssa.UnOp)
			if !ok {
				return false
			}
			fa, ok := ld.X.(*ssa.FieldAddr)
			return ok && core.FieldName(fa) == "resumeAt"
		})
		if !fromResult {
			continue
		}
		prev := false
		for _, call := range calls {
			if call.Block() == b || call.Block().Dominates(b) {
				prev = true
			}
		}
		if prev {
			guards = append(guards, b.Succs[0])
		}
	}
	nRed := 0
	for i, call := range calls {
		key := fmt.Sprintf("splitInlineBox | layout of a child #%d", i+1)
		if !reduced(call.Call.Args[3]) {
			r.OK(key, p.Pos(call.Pos()), "full available width")
			continue
		}
		nRed++
		ok := false
		for _, g := range guards {
			if g == call.Block() || g.Dominates(call.Block()) {
				ok = true
			}
		}
		r.Cond(ok, key, p.Pos(call.Pos()), "reduced width, after a complete layout of the child", "the width is reduced by the end spacing of the box although no earlier layout of the child established that it ends on this line: a child that continues on the next line is broken earlier than necessary")
	}
	if nRed == 0 {
		r.Fail("splitInlineBox | end spacing reserved", p.Pos(fn.Pos()), "no layout of the last child reserves the end padding/border/margin of the box: the box's end overflows the line")
	}
}

// c11DeadArithmetic (R15): no arithmetic result of the layout and text packages is dropped.
func c11DeadArithmetic(c *core.Check) {
	r := c.Rule("R15", "no arithmetic result of html/layout, html/boxes and text is unused: an update of a by-value parameter (positionX += dx in a helper) is lost for the caller, which goes on placing boxes at the old position", 225)
	deadArithmeticRule(c, r, map[string]string{
		"html/layout.inlineOutOfFlowLayout | maxX - _ #1": "redundant, not lost: splitInlineBox subtracts the margin width of every float placed by this call from its own maxX right after the call (the same quantity, for right floats)",
	}, "html/layout", "html/boxes", "text", "text/draw")
}

// c11EndSpacingTested (R17): the room reserved at the end of an inline box is its end spacing: the right one in a
// left-to-right box, the left one in a right-to-left box.  The second layout of the last child is made when that
// spacing is not zero: the value compared with zero on the way to the subtraction is the value subtracted.
// (The test read `rightSpacing != 0` while `endSpacing` was subtracted: a right-to-left inline box with left padding
// only overflowed its line.)
func c11EndSpacingTested(c *core.Check) {
	p := c.Prog
	r := c.Rule("R17", "the spacing tested is the spacing reserved: in html/layout.splitInlineBox, the value subtracted from the available width for the second layout of the last child is compared with zero in a condition on the way to the subtraction", 1)
	fn := p.Fn("html/layout", "splitInlineBox")
	if fn == nil {
		r.Anchor("html/layout.splitInlineBox")
		return
	}
	n := 0
	core.Instrs(fn, func(in ssa.Instruction) {
		sub, ok := in.(*ssa.BinOp)
		if !ok || sub.Op != token.SUB {
			return
		}
		// only the subtraction that feeds a call of splitInlineLevel
		feeds := false
		core.Instrs(fn, func(in2 ssa.Instruction) {
			if call, ok := in2.(*ssa.Call); ok && call.Call.StaticCallee() != nil && call.Call.StaticCallee().Name() == "splitInlineLevel" {
				// the width the child is laid out in is the fourth argument
				if len(call.Call.Args) > 3 && core.DerivesFrom(call.Call.Args[3], func(v ssa.Value) bool { return v == ssa.Value(sub) }) {
					feeds = true
				}
			}
		})
		if !feeds || !isBoxSpacing(sub.Y) {
			return
		}
		n++
		key := fmt.Sprintf("html/layout.splitInlineBox | reserved spacing #%d", n)
		same := false
		for _, a := range core.CondAtomsReaching(fn, sub.Block()) {
			b, ok := a.(*ssa.BinOp)
			if !ok || (b.Op != token.NEQ && b.Op != token.EQL && b.Op != token.GTR) {
				continue
			}
			if z, ok := core.ConstFloat(b.Y); !ok || z != 0 {
				continue
			}
			if b.X == sub.Y {
				same = true
			}
		}
		r.Cond(same, key, p.Pos(sub.Pos()), "the value subtracted is compared with zero on the way", "the value subtracted from the available width is not the one compared with zero before: the room is reserved, or not, according to another spacing (the right one instead of the end one)")
	})
	if n == 0 {
		r.Unknown("html/layout.splitInlineBox | reserved spacing", p.Pos(fn.Pos()), "no subtraction from the available width feeding splitInlineLevel")
	}
}

// isBoxSpacing: the value is computed from the padding, margin and border widths of a box.
func isBoxSpacing(v ssa.Value) bool {
	return arithDerives(v, func(v ssa.Value) bool {
		call, ok := v.(*ssa.Call)
		if !ok || !call.Call.IsInvoke() || call.Call.Method.Name() != "V" {
			return false
		}
		ld, ok := call.Call.Value.(*ssa.UnOp)
		if !ok {
			return false
		}
		fa, ok := ld.X.(*ssa.FieldAddr)
		if !ok {
			return false
		}
		n := core.FieldName(fa)
		return strings.HasPrefix(n, "Padding") || strings.HasPrefix(n, "Margin") || (strings.HasPrefix(n, "Border") && strings.HasSuffix(n, "Width"))
	})
}

// c11SoftHyphensLongestFirst (R18): a word with several soft hyphens is broken at the last one that fits.
// splitFirstLine tries the candidates in the order hyphenDictionaryIterationsOld yields them and keeps the first
// that fits (the last one when none does): they come longest first.  The loop that appends the prefixes walks the word
// from its end (its counter is decremented), or the list is reversed afterwards.
// (`aa&shy;bb&shy;cc&shy;dd` in 6em gave "aa-" / "bbccdd" instead of "aabb-" / "ccdd".)
func c11SoftHyphensLongestFirst(c *core.Check) {
	p := c.Prog
	r := c.Rule("R18", "soft-hyphen candidates come longest first: in text.hyphenDictionaryIterationsOld the loop that appends the prefixes of the word decrements its counter (it walks the word from the end), or the result goes through a reversing function", 1)
	fn := p.Fn("text", "hyphenDictionaryIterationsOld")
	if fn == nil {
		r.Anchor("text.hyphenDictionaryIterationsOld")
		return
	}
	key := "text.hyphenDictionaryIterationsOld | order of the candidates"
	var loop *core.Loop
	reversed := false
	core.Instrs(fn, func(in ssa.Instruction) {
		call, ok := in.(*ssa.Call)
		if !ok {
			return
		}
		if b, ok := call.Call.Value.(*ssa.Builtin); ok && b.Name() == "append" {
			if l := core.InnermostLoop(fn, call.Block()); l != nil {
				loop = l
			}
		}
		if callee := call.Call.StaticCallee(); callee != nil && strings.Contains(strings.ToLower(callee.Name()), "reverse") {
			reversed = true
		}
	})
	if loop == nil {
		r.Unknown(key, p.Pos(fn.Pos()), "no loop appending the candidates")
		return
	}
	// the counter: a header phi of integer type whose back edge value is phi - const (or phi + negative const)
	decreasing := false
	for _, in := range loop.Header.Instrs {
		phi, ok := in.(*ssa.Phi)
		if !ok {
			break
		}
		for i, e := range phi.Edges {
			if !loop.Blocks[loop.Header.Preds[i]] {
				continue
			}
			if b, ok := e.(*ssa.BinOp); ok && b.X == ssa.Value(phi) {
				if k, ok := core.ConstInt(b.Y); ok && ((b.Op == token.SUB && k > 0) || (b.Op == token.ADD && k < 0)) {
					decreasing = true
				}
			}
		}
	}
	r.Cond(decreasing || reversed, key, p.Pos(fn.Pos()), "the word is walked from its end", "the prefixes are appended shortest first and not reversed: the first candidate that fits is the shortest, and the word is broken at its first soft hyphen instead of the last one that fits")
}

// c11AtomicAdvance (R19): justification moves every box of a line by the spacing added before it.  addWordSpacing
// threads that accumulated advance through the line: it returns the advance after the box.  An atomic inline box
// (inline-block, image) adds no spacing itself: it is moved by exactly the advance that the function returns for it.
// The horizontal offset given to Translate in addWordSpacing is a value that flows into the function's result.
// (Moved by the width of one gap instead, an inline-block after two spaces overlapped the text before it.)
func c11AtomicAdvance(c *core.Check) {
	p := c.Prog
	r := c.Rule("R19", "an atomic inline box is moved by the accumulated advance: in html/layout.addWordSpacing the horizontal offset passed to Translate is a value that flows into the result of the function", 1)
	fn := p.Fn("html/layout", "addWordSpacing")
	if fn == nil {
		r.Anchor("html/layout.addWordSpacing")
		return
	}
	var results []ssa.Value
	core.Instrs(fn, func(in ssa.Instruction) {
		if ret, ok := in.(*ssa.Return); ok && len(ret.Results) == 1 {
			results = append(results, ret.Results[0])
		}
	})
	n := 0
	core.Instrs(fn, func(in ssa.Instruction) {
		call, ok := in.(*ssa.Call)
		if !ok || !call.Call.IsInvoke() || call.Call.Method.Name() != "Translate" || len(call.Call.Args) < 2 {
			return
		}
		n++
		key := fmt.Sprintf("html/layout.addWordSpacing | Translate #%d", n)
		dx := call.Call.Args[1]
		flows := false
		for _, res := range results {
			if core.DerivesFrom(res, func(v ssa.Value) bool { return v == dx }) {
				flows = true
			}
		}
		r.Cond(flows, key, p.Pos(call.Pos()), "the offset is the advance the function returns", "the box is moved by a value that is not the advance returned for it: it is not shifted by the spacing added before it on the line")
	})
	if n == 0 {
		r.Skip("html/layout.addWordSpacing | Translate", p.Pos(fn.Pos()), "addWordSpacing translates no box")
	}
}
