package props

import (
	"fmt"
	"go/token"
	"strings"

	"golang.org/x/tools/go/ssa"

	"wrverif/core"
)

// c11EndSpacing (R14): room for the end padding, border and margin of an inline box is reserved only on the line
// where the box ends.  splitInlineBox lays a child out with the full available width first; only when that child
// is the last one and was laid out completely (no resume position) does the box end on this line, and the child is
// laid out again with the width reduced by the end spacing.  Reducing the width for a child that will continue on
// the next line breaks the line earlier than necessary.
func c11EndSpacing(c *core.Check) {
	p := c.Prog
	r := c.Rule("R14", "splitInlineBox: a child is laid out in a width reduced by the box's end padding/border/margin only after an earlier layout of it returned no resume position (the call is dominated by the true branch of `resumeAt == nil` on a previous splitInlineLevel result); every other call passes the unreduced width", 2)
	fn := p.Fn("html/layout", "splitInlineBox")
	if fn == nil {
		r.Anchor("html/layout.splitInlineBox")
		return
	}
	isSpacing := func(v ssa.Value) bool {
		return arithDerives(v, func(v ssa.Value) bool {
			call, ok := v.(*ssa.Call)
			if !ok || !call.Call.IsInvoke() || call.Call.Method.Name() != "V" {
				return false
			}
			ld, ok := call.Call.Value.(*ssa.UnOp)
			if !ok {
				return false
			}
			fa, ok := ld.X.(*ssa.FieldAddr)
			if !ok {
				return false
			}
			n := core.FieldName(fa)
			return strings.HasPrefix(n, "Padding") || strings.HasPrefix(n, "Margin") || (strings.HasPrefix(n, "Border") && strings.HasSuffix(n, "Width"))
		})
	}
	reduced := func(v ssa.Value) bool {
		return arithDerives(v, func(v ssa.Value) bool {
			bo, ok := v.(*ssa.BinOp)
			return ok && bo.Op == token.SUB && isSpacing(bo.Y)
		})
	}
	var calls []*ssa.Call
	core.Instrs(fn, func(in ssa.Instruction) {
		if call, ok := in.(*ssa.Call); ok {
			if callee := call.Call.StaticCallee(); callee != nil && callee.Name() == "splitInlineLevel" && len(call.Call.Args) > 3 {
				calls = append(calls, call)
			}
		}
	})
	if len(calls) == 0 {
		r.Unknown("splitInlineBox | layout of the children", p.Pos(fn.Pos()), "no call of splitInlineLevel found")
		return
	}
	// tests `resumeAt == nil` on the result of a previous call
	var guards []*ssa.BasicBlock // true successors
	for _, b := range fn.Blocks {
		if len(b.Instrs) == 0 {
			continue
		}
		ifi, ok := b.Instrs[len(b.Instrs)-1].(*ssa.If)
		if !ok {
			continue
		}
		bo, ok := ifi.Cond.(*ssa.BinOp)
		if !ok || bo.Op != token.EQL {
			continue
		}
		if k, ok := bo.Y.(*ssa.Const); !ok || !k.IsNil() {
			continue
		}
		fromResult := arithDerives(bo.X, func(v ssa.Value) bool {
			ld, ok := v.(*ssa.UnOp)
			if !ok {
				return false
			}
			fa, ok := ld.X.(*ssa.FieldAddr)
			return ok && core.FieldName(fa) == "resumeAt"
		})
		if !fromResult {
			continue
		}
		prev := false
		for _, call := range calls {
			if call.Block() == b || call.Block().Dominates(b) {
				prev = true
			}
		}
		if prev {
			guards = append(guards, b.Succs[0])
		}
	}
	nRed := 0
	for i, call := range calls {
		key := fmt.Sprintf("splitInlineBox | layout of a child #%d", i+1)
		if !reduced(call.Call.Args[3]) {
			r.OK(key, p.Pos(call.Pos()), "full available width")
			continue
		}
		nRed++
		ok := false
		for _, g := range guards {
			if g == call.Block() || g.Dominates(call.Block()) {
				ok = true
			}
		}
		r.Cond(ok, key, p.Pos(call.Pos()), "reduced width, after a complete layout of the child", "the width is reduced by the end spacing of the box although no earlier layout of the child established that it ends on this line: a child that continues on the next line is broken earlier than necessary")
	}
	if nRed == 0 {
		r.Fail("splitInlineBox | end spacing reserved", p.Pos(fn.Pos()), "no layout of the last child reserves the end padding/border/margin of the box: the box's end overflows the line")
	}
}

// c11DeadArithmetic (R15): no arithmetic result of the layout and text packages is dropped.
func c11DeadArithmetic(c *core.Check) {
	r := c.Rule("R15", "no arithmetic result of html/layout, html/boxes and text is unused: an update of a by-value parameter (positionX += dx in a helper) is lost for the caller, which goes on placing boxes at the old position", 225)
	deadArithmeticRule(c, r, map[string]string{
		"html/layout.inlineOutOfFlowLayout | maxX - _ #1": "redundant, not lost: splitInlineBox subtracts the margin width of every float placed by this call from its own maxX right after the call (the same quantity, for right floats)",
	}, "html/layout", "html/boxes", "text", "text/draw")
}
