package props

import (
	"go/ast"
	"go/token"
	"sort"
	"strings"

	"wrverif/core"
)

// c01AtomicInlines: sibling agreement on the three atomic inline container classes.  InlineBlock, InlineFlex and
// InlineGrid boxes are laid out as one atomic inline (layout), wrapped in an in-tree stacking context (dispatch) and
// drawn through that context (drawInlineLevel, which panics on any other box).  A disjunction of box-class tests
// that names InlineBlockT and one of the other two but not the third treats one class differently from its
// siblings: the box then reaches a consumer that does not expect it.
func c01AtomicInlines(c *core.Check) {
	p := c.Prog
	r := c.Rule("R15", "the atomic inline containers are treated alike: in html/layout and html/document every disjunction of box-class tests on one box that names InlineBlockT together with InlineFlexT or InlineGridT names all three (a class left out of the stacking dispatch reaches the panicking default of drawInlineLevel); in html/boxes every disjunction of exact box-type comparisons that accepts TableT accepts InlineTableT", 4)
	n := 0
	for _, rel := range []string{"html/layout", "html/document"} {
		pk := p.ByPath[rel]
		if pk == nil {
			r.Anchor("package " + rel)
			continue
		}
		for _, f := range pk.Syntax {
			file := p.Fset.Position(f.Pos()).Filename
			if strings.HasSuffix(file, "_test.go") {
				continue
			}
			var fnName string
			ast.Inspect(f, func(nd ast.Node) bool {
				if fd, ok := nd.(*ast.FuncDecl); ok {
					fnName = fd.Name.Name
				}
				be, ok := nd.(*ast.BinaryExpr)
				if !ok || be.Op != token.LOR {
					return true
				}
				// flatten the chain
				var leaves []ast.Expr
				var flat func(e ast.Expr)
				flat = func(e ast.Expr) {
					e = ast.Unparen(e)
					if b, ok := e.(*ast.BinaryExpr); ok && b.Op == token.LOR {
						flat(b.X)
						flat(b.Y)
						return
					}
					leaves = append(leaves, e)
				}
				flat(be)
				classes := map[string]map[string]bool{} // tested value -> class names
				for _, l := range leaves {
					call, ok := l.(*ast.CallExpr)
					if !ok || len(call.Args) != 1 {
						continue
					}
					sel, ok := call.Fun.(*ast.SelectorExpr)
					if !ok || sel.Sel.Name != "IsInstance" {
						continue
					}
					name := ""
					switch x := sel.X.(type) {
					case *ast.SelectorExpr:
						name = x.Sel.Name
					case *ast.Ident:
						name = x.Name
					}
					arg := p.NodeText(call.Args[0])
					if classes[arg] == nil {
						classes[arg] = map[string]bool{}
					}
					classes[arg][name] = true
				}
				for arg, set := range classes {
					if !set["InlineBlockT"] || !(set["InlineFlexT"] || set["InlineGridT"]) {
						continue
					}
					n++
					var names []string
					for k := range set {
						names = append(names, k)
					}
					sort.Strings(names)
					all := set["InlineFlexT"] && set["InlineGridT"]
					r.Cond(all, rel+"."+fnName+" | box classes tested on "+arg, p.Pos(be.Pos()), "InlineBlockT, InlineFlexT and InlineGridT together",
						"the disjunction tests "+strings.Join(names, ", ")+" only: the missing atomic inline class takes another path than its siblings (`display: inline-grid` was not wrapped in a stacking context and drawInlineLevel panicked with \"unexpected box InlineGridBox\")")
				}
				return false // the chain was handled as a whole
			})
		}
	}
	if n == 0 {
		r.Anchor("disjunctions of InlineBlockT / InlineFlexT / InlineGridT tests")
	}
	// the same for exact-type comparisons of box types: an inline table is a table wherever a table is a proper parent
	m := 0
	if pk := p.ByPath["html/boxes"]; pk != nil {
		for _, f := range pk.Syntax {
			if strings.HasSuffix(p.Fset.Position(f.Pos()).Filename, "_test.go") {
				continue
			}
			var fnName string
			ast.Inspect(f, func(nd ast.Node) bool {
				if fd, ok := nd.(*ast.FuncDecl); ok {
					fnName = fd.Name.Name
				}
				be, ok := nd.(*ast.BinaryExpr)
				if !ok || be.Op != token.LOR {
					return true
				}
				var leaves []ast.Expr
				var flat func(e ast.Expr)
				flat = func(e ast.Expr) {
					e = ast.Unparen(e)
					if b, ok := e.(*ast.BinaryExpr); ok && b.Op == token.LOR {
						flat(b.X)
						flat(b.Y)
						return
					}
					leaves = append(leaves, e)
				}
				flat(be)
				set := map[string]bool{}
				for _, l := range leaves {
					if eq, ok := l.(*ast.BinaryExpr); ok && eq.Op == token.EQL {
						if id, ok := eq.Y.(*ast.Ident); ok {
							set[id.Name] = true
						}
					}
				}
				if set["TableT"] {
					m++
					r.Cond(set["InlineTableT"], "html/boxes."+fnName+" | "+p.NodeText(be), p.Pos(be.Pos()), "InlineTableT beside TableT", "the comparison accepts TableT but not InlineTableT: a table-internal box inside an inline table is wrapped once more and wrapTable meets a box it has no list for (nil pointer dereference)")
				}
				return false
			})
		}
	}
	if m == 0 {
		r.Anchor("html/boxes: equality tests naming TableT")
	}
}
