package props

import (
	"fmt"
	"go/token"
	"sort"
	"strings"

	"golang.org/x/tools/go/ssa"

	"wrverif/core"
)

func init() { register("C10", c10) }

// which dimension of the containing block each used value is a percentage of (CSS 2.1 §8.3, §8.4, §9.3.2, §10.2, §10.4, §10.5, §10.7)
var c10Axis = map[string]string{
	"MarginLeft": "width", "MarginRight": "width", "PaddingLeft": "width", "PaddingRight": "width",
	"Width": "width", "MinWidth": "width", "MaxWidth": "width", "Left": "width", "Right": "width",
	// vertical margins and paddings refer to the WIDTH of the containing block (except for page boxes)
	"MarginTop": "width*", "MarginBottom": "width*", "PaddingTop": "width*", "PaddingBottom": "width*",
	"Height": "height", "MinHeight": "height", "MaxHeight": "height", "Top": "height", "Bottom": "height",
	"TextIndent": "width",
}

func c10(c *core.Check) {
	c.Explain = "Thin: structural necessary conditions of CSS 2.1 block sizing, decided on the SSA form: (R1) every used value computed by resolveOnePercentage is stored in the box field of the property it was read from, under that property's id, and is a percentage of the right dimension of the containing block (vertical margins and paddings refer to the width, except for page boxes); (R2) the min/max wrappers clamp to max first and min second (min wins), re-run the wrapped function after each clamp and only touch the fields of their own axis; (R3) the box-sizing adjustment subtracts padding and border for border-box, padding only for padding-box and nothing for content-box, per axis. The width equation (10.3.3), auto margins, margin collapsing and auto heights are numerical relations this family does not decide. Also decided: (R10) boolean conditions over box edges test each kind of edge on the same sides."
	p := c.Prog
	r1 := c.Rule("R1", "each `box.F = resolveOnePercentage(style.GetG(), P_H, ref, …)` has F = G = H and ref derived from the containing block's width for horizontal properties and for vertical margins/paddings (height only under the page-box test), from its height for top/bottom/heights", 20)
	rop := p.Fn("html/layout", "resolveOnePercentage")
	if rop == nil {
		r1.Anchor("html/layout.resolveOnePercentage")
	} else {
		propName := map[int64]string{}
		for v, k := range p.ConstsOfType("css/properties", "KnownProp") {
			propName[v] = k.Name()
		}
		pageT := int64(-1)
		for v, k := range p.ConstsOfType("html/boxes", "BoxType") {
			if k.Name() == "PageT" {
				pageT = v
			}
		}
		n := 0
		for _, fn := range p.FuncsOfPkg("html/layout") {
			core.Instrs(fn, func(in ssa.Instruction) {
				call, ok := in.(*ssa.Call)
				if !ok || call.Call.StaticCallee() != rop || len(call.Call.Args) != 4 {
					return
				}
				n++
				// F: the field the result is stored in
				field := ""
				if call.Referrers() != nil {
					for _, r := range *call.Referrers() {
						if st, ok := r.(*ssa.Store); ok && st.Val == ssa.Value(call) {
							if fa, ok := st.Addr.(*ssa.FieldAddr); ok {
								field = core.FieldName(fa)
							}
						}
					}
				}
				key := core.FuncName(fn) + " | " + p.StmtTextAt(fn, call.Pos())
				pos := p.Pos(call.Pos())
				if field == "" {
					r1.Skip(key, pos, "the result is not stored directly into a box field (used as a local value)")
					return
				}
				// G: accessor
				getter := ""
				if g, ok := call.Call.Args[0].(*ssa.Call); ok {
					if g.Call.IsInvoke() {
						getter = g.Call.Method.Name()
					} else if cal := g.Call.StaticCallee(); cal != nil {
						getter = cal.Name()
					}
				}
				// H: property id
				hname := ""
				if k, ok := core.ConstInt(call.Call.Args[1]); ok {
					hname = propName[k]
				}
				if getter != "Get"+field || hname != "P"+field {
					r1.Fail(key, pos, fmt.Sprintf("stored in box.%s but read with %s under the id %s", field, getter, hname))
					return
				}
				want, known := c10Axis[field]
				if !known {
					r1.Unknown(key, pos, "no CSS reference dimension tabled for box."+field)
					return
				}
				axes, pageOnly := c10RefAxes(fn, call.Call.Args[2], pageT)
				var got []string
				for a := range axes {
					got = append(got, a)
				}
				sort.Strings(got)
				gs := strings.Join(got, "+")
				ok2 := false
				switch want {
				case "width":
					ok2 = gs == "width"
				case "width*":
					ok2 = gs == "width" || (gs == "height+width" && pageOnly)
				case "height":
					// min/max-height resolve against constants when the containing block's height is auto
					ok2 = gs == "height" || gs == "const"
				}
				r1.Cond(ok2, key, pos, "percentage of the containing block's "+strings.TrimSuffix(want, "*")+" ("+gs+")", fmt.Sprintf("box.%s is a percentage of the containing block's %s; the reference passed derives from its %s (height only for page boxes: %v)", field, strings.TrimSuffix(want, "*"), gs, pageOnly))
			})
		}
		if n < 21 {
			r1.Unknown("resolveOnePercentage call sites", "-", fmt.Sprintf("%d call sites found, 21 expected", n))
		}
	}
	c10MinMax(c)
	c10BoxSizing(c)
	c10WidthEquation(c)
	c10CollapseMargin(c)
	c10CollapseThrough(c)
	c10Provenance(c)
	c10Direction(c)
	c10BoxSizingStores(c)
	c10Rerun(c)
	c10SavedBeforeFirstRun(c)
	c10LastInFlowChild(c)
	r4 := c.Rule("R4", "sibling symmetry in block layout code: two assignments of one block that differ by a side (Top/Bottom, Left/Right) on the left and have the same shape on the right mirror every side name of that axis (a half-mirrored pair is a copy-paste slip between the two sides of a box)", 5)
	sideSymmetryRule(c, r4, "html/layout", map[string]bool{"blocks.go": true, "percentages.go": true, "min_max.go": true, "absolute.go": true, "float.go": true, "replaced.go": true, "preferred.go": true, "tables.go": true, "flex.go": true, "pages.go": true, "backgrounds.go": true, "columns.go": true, "grid.go": true}, 6)
	r5 := c.Rule("R5", "box-edge sums: an additive expression over margins, paddings and border widths mentions each kind of edge with the same sides (both sides of an axis for all of them, or one side for all of them): a sum with the padding of both sides and twice the same border is a copy-paste slip", 44)
	sideSumRule(c, r5, "html/layout", map[string]bool{"blocks.go": true, "percentages.go": true, "min_max.go": true, "absolute.go": true, "float.go": true, "replaced.go": true, "preferred.go": true, "tables.go": true, "flex.go": true, "pages.go": true, "backgrounds.go": true, "columns.go": true, "grid.go": true}, 30)
	sideSumRule(c, r5, "html/boxes", nil, 3)
	r10 := c.Rule("R10", "box-edge conditions: a boolean condition that tests several kinds of box edges (border, padding, margin) tests each kind on the same sides — the border and the padding that keep a margin from collapsing are those of the margin's own side (CSS 2.1 §8.3.1)", 1)
	sideCondRule(c, r10, "html/layout", nil, 4)
	r11 := c.Rule("R11", "two-element assignments between values named after the sides of a box (margins saved and restored, left/right, top/bottom) are not crossed", 6)
	sideTupleRule(c, r11, "html/layout", 8)
	r6 := c.Rule("R6", "no call passes two same-typed arguments under each other's parameter names (swapped arguments): every pair of arguments named after the callee's parameters is aligned with them", 94)
	argNameRule(c, r6, "html/layout", map[string]bool{"blocks.go": true, "percentages.go": true, "min_max.go": true, "absolute.go": true, "float.go": true, "replaced.go": true, "preferred.go": true, "tables.go": true, "flex.go": true, "grid.go": true, "layout.go": true, "backgrounds.go": true}, 90)
}

// c10RefAxes traces the reference length back to the components of the containing-block parameter: "width" (index 0),
// "height" (index 1), "const". pageOnly reports that every height source flows in only under BoxType.IsInstance(PageT, …).
func c10RefAxes(fn *ssa.Function, v ssa.Value, pageT int64) (map[string]bool, bool) {
	out := map[string]bool{}
	pageOnly := true
	seen := map[ssa.Value]bool{}
	var walk func(v ssa.Value)
	walk = func(v ssa.Value) {
		if seen[v] {
			return
		}
		seen[v] = true
		switch x := v.(type) {
		case *ssa.Const:
			out["const"] = true
		case *ssa.Call:
			if x.Call.IsInvoke() && x.Call.Method.Name() == "V" {
				walk(x.Call.Value)
				return
			}
			if callee := x.Call.StaticCallee(); callee != nil && callee.Name() == "V" && len(x.Call.Args) == 1 {
				walk(x.Call.Args[0])
				return
			}
			out["?"+core.CalleeName(x)] = true
		case *ssa.ChangeType:
			walk(x.X)
		case *ssa.MakeInterface:
			walk(x.X)
		case *ssa.Convert:
			walk(x.X)
		case *ssa.UnOp:
			if ia, ok := x.X.(*ssa.IndexAddr); ok {
				if k, ok := core.ConstInt(ia.Index); ok {
					if al, ok := ia.X.(*ssa.Alloc); ok {
						if paramSpill(al) != nil {
							if k == 0 {
								out["width"] = true
							} else {
								out["height"] = true
							}
							return
						}
					}
				}
			}
			if fa, ok := x.X.(*ssa.FieldAddr); ok {
				// the used size of another box (the table for its columns, the line's container for text-indent)
				switch core.FieldName(fa) {
				case "Width":
					out["width"] = true
					return
				case "Height":
					out["height"] = true
					return
				}
			}
			if g, ok := x.X.(*ssa.Global); ok && g.Name() == "Inf" {
				out["const"] = true
				return
			}
			out["?load"] = true
		case *ssa.Extract:
			// w, h := containingBlock.ContainingBlock()
			if call, ok := x.Tuple.(*ssa.Call); ok && (call.Call.IsInvoke() && call.Call.Method.Name() == "ContainingBlock") {
				if x.Index == 0 {
					out["width"] = true
				} else {
					out["height"] = true
				}
				return
			}
			out["?extract"] = true
		case *ssa.Phi:
			for i, e := range x.Edges {
				before := out["height"]
				walk(e)
				if out["height"] && !before {
					// the height flows in through this edge: only under the page test
					pred := x.Block().Preds[i]
					okPage := false
					for _, a := range core.CondAtoms(fn) {
						call, isCall := a.(*ssa.Call)
						if !isCall || call.Call.StaticCallee() == nil || call.Call.StaticCallee().Name() != "IsInstance" || len(call.Call.Args) != 2 {
							continue
						}
						if k, ok := core.ConstInt(call.Call.Args[0]); !ok || k != pageT {
							continue
						}
						if !core.ForwardReach(fn.Blocks[0], map[ssa.Value]bool{a: false}, nil)[pred] {
							okPage = true
						}
					}
					if !okPage {
						pageOnly = false
					}
				}
			}
		default:
			out["?"+v.Name()] = true
		}
	}
	walk(v)
	if !out["height"] {
		pageOnly = false
	}
	return out, pageOnly
}

// paramSpill: the local variable only holds a parameter (go/ssa spills indexed array parameters).
func paramSpill(al *ssa.Alloc) *ssa.Parameter {
	if al.Referrers() == nil {
		return nil
	}
	var par *ssa.Parameter
	n := 0
	for _, r := range *al.Referrers() {
		if st, ok := r.(*ssa.Store); ok && st.Addr == ssa.Value(al) {
			n++
			par, _ = st.Val.(*ssa.Parameter)
		}
	}
	if n == 1 {
		return par
	}
	return nil
}

// ---- R2 min/max wrappers
func c10MinMax(c *core.Check) {
	p := c.Prog
	r := c.Rule("R2", "the min/max wrappers: the max clamp is tested before the min clamp (so min wins), each clamp re-runs the wrapped function, and each wrapper writes only the size and the two margins of its own axis", 8)
	for _, w := range []struct{ name, size, max, min, m1, m2 string }{
		{"handleMinMaxWidth$1", "Width", "MaxWidth", "MinWidth", "MarginLeft", "MarginRight"},
		{"handleMinMaxHeight$1", "Height", "MaxHeight", "MinHeight", "MarginTop", "MarginBottom"},
	} {
		fn := p.Lookup("html/layout." + w.name)
		if fn == nil {
			r.Anchor("html/layout." + w.name)
			continue
		}
		// fields written
		written, restored := map[string]bool{}, map[string]bool{}
		// the first run of the wrapped function: a store that puts back the value a field had before it is a restore,
		// not a write of the wrapper's own (rule R15 requires such restores)
		var firstCall ssa.Instruction
		core.Instrs(fn, func(in ssa.Instruction) {
			if call, ok := in.(*ssa.Call); ok && firstCall == nil && call.Call.StaticCallee() == nil && !call.Call.IsInvoke() {
				if _, isBuiltin := call.Call.Value.(*ssa.Builtin); !isBuiltin {
					firstCall = in
				}
			}
		})
		core.Instrs(fn, func(in ssa.Instruction) {
			if st, ok := in.(*ssa.Store); ok {
				if fa, ok := st.Addr.(*ssa.FieldAddr); ok {
					if ld, ok := st.Val.(*ssa.UnOp); ok && ld.Op == token.MUL && firstCall != nil {
						if fa2, ok := ld.X.(*ssa.FieldAddr); ok && core.FieldName(fa2) == core.FieldName(fa) && ld.Block() == firstCall.Block() && ld.Block().Dominates(st.Block()) && ld.Pos() < firstCall.Pos() {
							restored[core.FieldName(fa)] = true
							return
						}
					}
					written[core.FieldName(fa)] = true
				}
			}
		})
		var ws []string
		for f := range written {
			ws = append(ws, f)
		}
		sort.Strings(ws)
		want := []string{w.size}
		r.Cond(strings.Join(ws, " ") == strings.Join(want, " ") && restored[w.m1] && restored[w.m2], w.name+" | fields written", p.Pos(fn.Pos()), strings.Join(ws, " ")+"; restored before a re-run: "+strings.Join(strKeys(restored), " "), fmt.Sprintf("writes %v of its own and restores %v; expected to write exactly %v and to restore at least %s and %s", ws, strKeys(restored), want, w.m1, w.m2))
		// the two comparisons: size > max, size < min; which field each side loads
		fieldOf := func(v ssa.Value) string {
			for i := 0; i < 6; i++ {
				switch x := v.(type) {
				case *ssa.Call:
					if x.Call.IsInvoke() && x.Call.Method.Name() == "V" {
						v = x.Call.Value
						continue
					}
					if cal := x.Call.StaticCallee(); cal != nil && cal.Name() == "V" && len(x.Call.Args) == 1 {
						v = x.Call.Args[0]
						continue
					}
				case *ssa.MakeInterface:
					v = x.X
					continue
				case *ssa.ChangeType:
					v = x.X
					continue
				case *ssa.UnOp:
					if fa, ok := x.X.(*ssa.FieldAddr); ok {
						return core.FieldName(fa)
					}
				}
				break
			}
			return ""
		}
		var maxBlk, minBlk *ssa.BasicBlock
		for _, a := range core.CondAtoms(fn) {
			bo, ok := a.(*ssa.BinOp)
			if !ok {
				continue
			}
			l, rr := fieldOf(bo.X), fieldOf(bo.Y)
			blk := bo.Block()
			switch {
			case bo.Op == token.GTR && l == w.size && rr == w.max, bo.Op == token.LSS && l == w.max && rr == w.size:
				maxBlk = blk
			case bo.Op == token.LSS && l == w.size && rr == w.min, bo.Op == token.GTR && l == w.min && rr == w.size:
				minBlk = blk
			}
		}
		if maxBlk == nil || minBlk == nil {
			r.Fail(w.name+" | max clamp before min clamp", p.Pos(fn.Pos()), fmt.Sprintf("the tests %s > %s and %s < %s were not both found", w.size, w.max, w.size, w.min))
			continue
		}
		r.Cond(maxBlk != minBlk && maxBlk.Dominates(minBlk), w.name+" | max clamp before min clamp", p.Pos(fn.Pos()), "the max test dominates the min test", "the min clamp is applied before the max clamp: when min > max the result would be max instead of min")
		// min wins: the min test is also made after the max clamp was applied (it is reachable from the clamping branch,
		// not an alternative to it)
		{
			then := maxBlk.Succs[0]
			seen := map[*ssa.BasicBlock]bool{then: true}
			work := []*ssa.BasicBlock{then}
			reached := then == minBlk
			for len(work) > 0 && !reached {
				b := work[len(work)-1]
				work = work[:len(work)-1]
				for _, sc := range b.Succs {
					if sc == minBlk {
						reached = true
					}
					if !seen[sc] {
						seen[sc] = true
						work = append(work, sc)
					}
				}
			}
			r.Cond(reached, w.name+" | min test follows the max clamp", p.Pos(fn.Pos()), "the min test is reached after the clamp to the maximum", "the min clamp is an alternative (`else if`) of the max clamp: with min > max the size stays at max, CSS 2.1 §10.4 gives min")
		}
		// each clamp (the true branch of each test) re-runs the wrapped function and assigns the right bound
		for _, cl := range []struct {
			blk   *ssa.BasicBlock
			bound string
		}{{maxBlk, w.max}, {minBlk, w.min}} {
			then := cl.blk.Succs[0]
			calls, assigns := false, false
			for _, in := range then.Instrs {
				if call, ok := in.(*ssa.Call); ok && call.Call.StaticCallee() == nil && !call.Call.IsInvoke() {
					if _, isBuiltin := call.Call.Value.(*ssa.Builtin); !isBuiltin {
						calls = true
					}
				}
				if st, ok := in.(*ssa.Store); ok {
					if fa, ok := st.Addr.(*ssa.FieldAddr); ok && core.FieldName(fa) == w.size && fieldOf(st.Val) == cl.bound {
						assigns = true
					}
				}
			}
			r.Cond(calls && assigns, fmt.Sprintf("%s | clamp to %s", w.name, cl.bound), p.Pos(then.Instrs[0].Pos()), "assigns the bound and re-runs the wrapped function", fmt.Sprintf("assigns %s = %s: %v; re-runs the wrapped function: %v", w.size, cl.bound, assigns, calls))
		}
	}
}

// ---- R3 box-sizing
func c10BoxSizing(c *core.Check) {
	p := c.Prog
	r := c.Rule("R3", "resolvePercentages: the box-sizing adjustment of an axis depends on the paddings and border widths of that axis for border-box, on its paddings only for padding-box, and on nothing for content-box", 4)
	fn := p.Fn("html/layout", "resolvePercentages")
	if fn == nil {
		r.Anchor("html/layout.resolvePercentages")
		return
	}
	// the deltas: phis compared with 0 by `delta > 0`
	var deltas []*ssa.Phi
	for _, a := range core.CondAtoms(fn) {
		if bo, ok := a.(*ssa.BinOp); ok && bo.Op == token.GTR {
			if phi, ok := bo.X.(*ssa.Phi); ok {
				if z, ok := core.ConstFloat(bo.Y); ok && z == 0 {
					deltas = append(deltas, phi)
				}
			}
		}
	}
	if len(deltas) != 2 {
		r.Unknown("resolvePercentages | deltas", p.Pos(fn.Pos()), fmt.Sprintf("%d `delta > 0` tests on merged values found, 2 expected", len(deltas)))
		return
	}
	// keyword atoms on GetBoxSizing
	kwAtoms := map[string]ssa.Value{}
	for _, a := range core.CondAtoms(fn) {
		if bo, ok := a.(*ssa.BinOp); ok && bo.Op == token.EQL {
			if s, ok := core.ConstStr(bo.Y); ok {
				kwAtoms[s] = a
			}
		}
	}
	fieldsOf := func(v ssa.Value) []string {
		set := map[string]bool{}
		seen := map[ssa.Value]bool{}
		var walk func(v ssa.Value)
		walk = func(v ssa.Value) {
			if v == nil || seen[v] {
				return
			}
			seen[v] = true
			switch x := v.(type) {
			case *ssa.BinOp:
				walk(x.X)
				walk(x.Y)
			case *ssa.Call:
				if x.Call.IsInvoke() {
					walk(x.Call.Value)
				}
				for _, a := range x.Call.Args {
					walk(a)
				}
			case *ssa.UnOp:
				if fa, ok := x.X.(*ssa.FieldAddr); ok {
					set[core.FieldName(fa)] = true
					return
				}
				walk(x.X)
			case *ssa.ChangeType:
				walk(x.X)
			case *ssa.Convert:
				walk(x.X)
			case *ssa.MakeInterface:
				walk(x.X)
			}
		}
		walk(v)
		var out []string
		for f := range set {
			out = append(out, f)
		}
		sort.Strings(out)
		return out
	}
	want := map[string]map[string][]string{
		"horizontal": {
			"border-box":  {"BorderLeftWidth", "BorderRightWidth", "PaddingLeft", "PaddingRight"},
			"padding-box": {"PaddingLeft", "PaddingRight"},
			"content-box": {},
		},
		"vertical": {
			"border-box":  {"BorderBottomWidth", "BorderTopWidth", "PaddingBottom", "PaddingTop"},
			"padding-box": {"PaddingBottom", "PaddingTop"},
			"content-box": {},
		},
	}
	for _, phi := range deltas {
		axis := "horizontal"
		if strings.Contains(strings.ToLower(phi.Comment), "vertical") {
			axis = "vertical"
		} else if !strings.Contains(strings.ToLower(phi.Comment), "horizontal") {
			// decide by the fields of the border-box edge
			for _, e := range phi.Edges {
				for _, f := range fieldsOf(e) {
					if f == "PaddingTop" {
						axis = "vertical"
					}
				}
			}
		}
		for kw, fields := range want[axis] {
			atom := kwAtoms[kw]
			key := fmt.Sprintf("resolvePercentages | %s delta for %s", axis, kw)
			if atom == nil {
				r.Fail(key, p.Pos(fn.Pos()), "no case for this box-sizing keyword")
				continue
			}
			// the edge taken when this keyword matches
			assign := map[ssa.Value]bool{}
			for k2, a2 := range kwAtoms {
				assign[a2] = k2 == kw
			}
			reach := core.ForwardReach(fn.Blocks[0], assign, nil)
			var got []string
			nEdges := 0
			for i, e := range phi.Edges {
				if reach[phi.Block().Preds[i]] {
					nEdges++
					got = fieldsOf(e)
				}
			}
			if nEdges != 1 {
				r.Unknown(key, p.Pos(phi.Pos()), fmt.Sprintf("%d incoming values are possible for this keyword", nEdges))
				continue
			}
			r.Cond(strings.Join(got, " ") == strings.Join(fields, " "), key, p.Pos(phi.Pos()), "depends on {"+strings.Join(got, " ")+"}", fmt.Sprintf("depends on %v, CSS gives %v", got, fields))
		}
	}
}
