package props

import (
	"fmt"
	"go/token"

	"golang.org/x/tools/go/ssa"

	"wrverif/core"
)

// sameListSource: two values are the same list: the same SSA value, or two loads of the same address (the same
// variable, or the same field of the same value).
func sameListSource(a, b ssa.Value) bool {
	if a == b {
		return true
	}
	la, ok1 := a.(*ssa.UnOp)
	lb, ok2 := b.(*ssa.UnOp)
	if !ok1 || !ok2 || la.Op != token.MUL || lb.Op != token.MUL {
		return false
	}
	if la.X == lb.X {
		return true
	}
	fa, ok1 := la.X.(*ssa.FieldAddr)
	fb, ok2 := lb.X.(*ssa.FieldAddr)
	return ok1 && ok2 && fa.Field == fb.Field && fa.X == fb.X
}

// c02PrefixAppend (R12): appending to a prefix `s[:i]` of a list writes into the array of s from index i on.  The
// insertion idiom `append(s[:i], append([]T{x}, s[i:]...)...)` copies the tail first; `append(append(s[:i], x),
// s[i:]...)` overwrites s[i] with x and then reads it back as the tail: the element that was at i is lost and x is
// there twice (a stacking context drawn twice, its sibling never).  For every append whose base is a two-index
// prefix of a list, in the document, layout, box and tree packages: no append or copy executed after it takes a
// suffix `s[j:]` of the same list as an argument.
func c02PrefixAppend(c *core.Check) {
	p := c.Prog
	r := c.Rule("R12", "no element is lost by appending to a prefix: for every append(s[:i], …) in html/document, html/layout, html/boxes and html/tree (s[:i] a two-index slice, which shares the array of s), no append or copy executed after it reads a suffix s[j:] of the same list (the tail must be copied before the prefix is appended to)", 2)
	n := 0
	for _, pkg := range []string{"html/document", "html/layout", "html/boxes", "html/tree"} {
		for _, fn := range p.FuncsOfPkg(pkg) {
			fn := fn
			k := 0
			core.Instrs(fn, func(in ssa.Instruction) {
				call, ok := in.(*ssa.Call)
				if !ok {
					return
				}
				b, ok := call.Call.Value.(*ssa.Builtin)
				if !ok || b.Name() != "append" || len(call.Call.Args) != 2 {
					return
				}
				base, ok := call.Call.Args[0].(*ssa.Slice)
				if !ok || base.High == nil || base.Max != nil {
					return
				}
				k++
				n++
				key := fmt.Sprintf("%s | append(s[:i], …) #%d", core.FuncName(fn), k)
				bad := ""
				readsSuffix := func(in2 ssa.Instruction) bool {
					c2, ok := in2.(*ssa.Call)
					if !ok {
						return false
					}
					b2, ok := c2.Call.Value.(*ssa.Builtin)
					if !ok || (b2.Name() != "append" && b2.Name() != "copy") {
						return false
					}
					for _, a := range c2.Call.Args {
						if sl, ok := a.(*ssa.Slice); ok && sl.Low != nil && sameListSource(sl.X, base.X) {
							return true
						}
					}
					return false
				}
				// "after": later in the same block, or in a block this one dominates inside the same loop (reaching the
				// site again through a back edge is the next iteration, which works on the new list)
				after := false
				for _, in2 := range call.Block().Instrs {
					if in2 == ssa.Instruction(call) {
						after = true
						continue
					}
					if after && readsSuffix(in2) {
						bad = p.Pos(in2.Pos())
					}
				}
				for _, b2 := range fn.Blocks {
					if b2 != call.Block() && call.Block().Dominates(b2) && core.InnermostLoop(fn, b2) == core.InnermostLoop(fn, call.Block()) {
						for _, in2 := range b2.Instrs {
							if readsSuffix(in2) {
								bad = p.Pos(in2.Pos())
							}
						}
					}
				}
				if bad != "" {
					r.Fail(key, p.Pos(call.Pos()), "the tail of the same list is read at "+bad+" after this append wrote over its first elements: the element at the insertion point is lost and the inserted one is there twice")
					return
				}
				r.OK(key, p.Pos(call.Pos()), "no later append or copy reads a suffix of the same list")
			})
		}
	}
	if n == 0 {
		r.Anchor("appends to a two-index prefix of a list")
	}
}
