package props

import (
	"fmt"
	"go/constant"
	"go/token"
	"go/types"
	"math/big"
	"strings"

	"golang.org/x/tools/go/ssa"

	"wrverif/core"
)

// c18ViewBox folds preserveAspectRatio.resolveTransforms (SVG 1.1 §7.8, §7.11: the viewBox is scaled to the viewport,
// uniformly by the smaller (meet) or larger (slice) factor unless align is none, aligned on min/mid/max of each axis,
// and its origin is brought to the viewport's origin).
func c18ViewBox(c *core.Check) {
	p := c.Prog
	r := c.Rule("R8", "viewBox and preserveAspectRatio: resolveTransforms, folded for none / meet / slice × which axis factor is larger × the nine alignments, scales each axis by viewport/viewBox (the common smaller or larger factor unless none) and translates each axis by align·(viewport − viewBox·scale) − viewBox origin·(that axis' scale), with align 0, 1/2, 1 for min, mid, max", 40)
	fn := p.Method("svg", "preserveAspectRatio", "resolveTransforms")
	pk := p.ByPath["svg"]
	if fn == nil || pk == nil || len(fn.Params) != 5 {
		r.Anchor("svg.preserveAspectRatio.resolveTransforms")
		return
	}
	prT := fn.Params[0].Type()
	rectT := fn.Params[3].Type().(*types.Pointer).Elem()
	sym := core.SymR
	w, h, vx, vy, vw, vh := sym("w"), sym("h"), sym("vx"), sym("vy"), sym("vw"), sym("vh")
	half := core.PolyR(core.PolyConst(big.NewRat(1, 2)))
	alignF := map[string]core.RatP{"min": core.NumR(0), "mid": half, "max": core.NumR(1)}
	type mode struct {
		name        string
		none, slice bool
	}
	for _, md := range []mode{{"none", true, false}, {"meet", false, false}, {"slice", false, true}} {
		for _, xLarger := range []bool{true, false} {
			if md.none && !xLarger {
				continue
			}
			for _, xa := range []string{"min", "mid", "max"} {
				for _, ya := range []string{"min", "mid", "max"} {
					key := fmt.Sprintf("svg.resolveTransforms | %s x%s y%s", md.name, xa, ya)
					if !md.none {
						key += fmt.Sprintf(", width factor larger = %v", xLarger)
					}
					recv := core.StructAV(prT, map[string]core.AV{"xPosition": core.StrV(xa), "yPosition": core.StrV(ya), "none": core.BoolV(md.none), "slice": core.BoolV(md.slice)})
					rect := core.StructAV(rectT, map[string]core.AV{"X": core.SymP("vx"), "Y": core.SymP("vy"), "Width": core.SymP("vw"), "Height": core.SymP("vh")})
					f := &core.Folder{MaxDepth: 0}
					f.Call = func(_ *core.Folder, call *ssa.Call, args []core.AV) (core.AV, bool) {
						cal := call.Call.StaticCallee()
						if cal == nil || len(args) != 2 {
							return nil, false
						}
						// args are (scaleX, scaleY) in some order: pick by scenario
						pick := func(larger bool) core.AV {
							ax, okx := core.ToRat(args[0])
							sx0 := w.Div(vw)
							firstIsX := okx && ax.Equal(sx0)
							if larger == (xLarger == firstIsX) {
								return args[0]
							}
							return args[1]
						}
						switch cal.Name() {
						case "MaxF", "Max", "max":
							return pick(true), true
						case "MinF", "Min", "min":
							return pick(false), true
						}
						return nil, false
					}
					f.Cmp = func(op token.Token, x, y core.AV) (bool, bool) {
						_, xp := x.(core.Ptr)
						_, yp := y.(core.Ptr)
						_, xn := x.(core.NilV)
						_, yn := y.(core.NilV)
						if (xp && yn) || (xn && yp) {
							return op == token.NEQ, true
						}
						if xn && yn {
							return op == token.EQL, true
						}
						// sizes of the viewBox are not zero
						if py, ok := y.(core.Poly); ok && len(py.T) == 0 {
							switch op {
							case token.NEQ:
								return true, true
							case token.EQL:
								return false, true
							}
						}
						return false, false
					}
					res, err := f.Fold(fn, []core.AV{recv, core.SymP("w"), core.SymP("h"), core.Ptr{C: &core.Cell{V: rect}}, core.NilV{}})
					if err != nil || len(res) != 4 {
						r.Unknown(key, p.Pos(fn.Pos()), fmt.Sprintf("could not be folded: %v", err))
						continue
					}
					sx, sy := w.Div(vw), h.Div(vh)
					if !md.none {
						s := sy
						if md.slice == xLarger {
							s = sx
						}
						sx, sy = s, s
					}
					want := []core.RatP{sx, sy,
						alignF[xa].Mul(w.Add(vw.Mul(sx).Neg())).Add(vx.Mul(sx).Neg()),
						alignF[ya].Mul(h.Add(vh.Mul(sy).Neg())).Add(vy.Mul(sy).Neg())}
					names := []string{"scaleX", "scaleY", "translateX", "translateY"}
					var diffs []string
					for i := range want {
						g, ok := core.ToRat(res[i])
						if !ok || !g.Equal(want[i]) {
							diffs = append(diffs, fmt.Sprintf("%s = %s, SVG gives %s", names[i], core.AVString(res[i]), want[i].String()))
						}
					}
					r.Cond(len(diffs) == 0, key, p.Pos(fn.Pos()), "scale and translation as SVG 1.1 §7.8", strings.Join(diffs, "; "))
				}
			}
		}
	}
}

// c18ImplicitViewBox: a root <svg> without viewBox gets the implicit viewBox (0, 0, width, height) only when both
// its width and its height are absolute; a percentage in either of them resolves against the very size the viewBox
// is meant to define, and the implicit box would have a zero side.
func c18ImplicitViewBox(c *core.Check) {
	p := c.Prog
	r := c.Rule("R10", "the implicit viewBox of a root svg needs both sizes: in svg.draw the rectangle built from the displayed width and height is reachable only when the width's unit and the height's unit were both found different from the percentage unit (with `||` a root `<svg width=\"100%\" height=\"50\">` gets a viewBox of zero width)", 1)
	var fn *ssa.Function
	for _, f := range p.FuncsOfPkg("svg") {
		if f.Name() == "draw" && f.Signature.Recv() != nil && strings.HasSuffix(f.Signature.Recv().Type().String(), "svg.svg") {
			fn = f
		}
	}
	if fn == nil {
		r.Anchor("svg.svg.draw")
		return
	}
	var perc int64
	percOK := false
	if pk := p.ByPath["svg"]; pk != nil {
		if cst, ok := pk.Types.Scope().Lookup("Perc").(*types.Const); ok {
			perc, percOK = constant.Int64Val(cst.Val())
		}
	}
	if !percOK {
		r.Anchor("svg.Perc")
		return
	}
	var atoms []ssa.Value
	for _, a := range core.CondAtoms(fn) {
		bo, ok := a.(*ssa.BinOp)
		if !ok || (bo.Op != token.NEQ && bo.Op != token.EQL) {
			continue
		}
		// a unit compared with the percentage unit (not with 0, the unit of a missing attribute)
		isPerc := func(v ssa.Value) bool {
			n, ok := core.ConstInt(v)
			return ok && percOK && n == perc
		}
		if (core.IsFieldNamed(bo.X, "U") && isPerc(bo.Y)) || (core.IsFieldNamed(bo.Y, "U") && isPerc(bo.X)) {
			atoms = append(atoms, a)
		}
	}
	// the allocation of the implicit rectangle: a Rectangle literal whose address is stored into the viewbox variable
	n := 0
	core.Instrs(fn, func(in ssa.Instruction) {
		al, ok := in.(*ssa.Alloc)
		if !ok || !strings.HasSuffix(al.Type().String(), "svg.Rectangle") || !al.Heap {
			return
		}
		if core.InnermostLoop(fn, al.Block()) != nil {
			return
		}
		n++
		if len(atoms) < 2 {
			r.Fail("svg.svg.draw | implicit viewBox", p.Pos(al.Pos()), fmt.Sprintf("%d test(s) of a unit against the percentage unit found, 2 expected", len(atoms)))
			return
		}
		ok2, _ := core.GuardedBy(fn, al.Block(), atoms, func(m map[ssa.Value]bool) bool {
			for a, v := range m {
				bo := a.(*ssa.BinOp)
				if v != (bo.Op == token.NEQ) {
					return false
				}
			}
			return true
		})
		r.Cond(ok2, "svg.svg.draw | implicit viewBox", p.Pos(al.Pos()), "built only when neither size is a percentage", "the implicit viewBox is built although one of the two sizes is a percentage: that side resolves to 0 and user space is scaled and translated by a box of zero width or height")
	})
	if n == 0 {
		r.Anchor("svg.svg.draw: viewbox = &Rectangle{Width: w, Height: h}")
	}
}
