package props

import (
	"fmt"
	"go/token"
	"go/types"
	"math/big"
	"strings"

	"golang.org/x/tools/go/ssa"

	"wrverif/core"
)

// canvasOp is one recorded call on the abstract canvas.
type canvasOp struct {
	name string
	args []core.Poly
}

type pt [2]core.Poly

func (a pt) eq(b pt) bool   { return a[0].Equal(b[0]) && a[1].Equal(b[1]) }
func (a pt) String() string { return "(" + a[0].String() + ", " + a[1].String() + ")" }

// onSegment reports whether c = a + t·(b − a) with a constant 0 < t < 1, on both coordinates.
func onSegment(a, b, c pt) bool {
	_, ok := segmentFraction(a, b, c)
	return ok
}

// segmentFraction: c = a + t·(b − a) with a constant 0 < t < 1; returns t.
func segmentFraction(a, b, c pt) (*big.Rat, bool) {
	var t *big.Rat
	eps := big.NewRat(1, 1000000)
	for i := 0; i < 2; i++ {
		e := b[i].Add(a[i].Neg())
		d := c[i].Add(a[i].Neg())
		if len(e.T) == 0 {
			if len(d.T) != 0 {
				return nil, false
			}
			continue
		}
		if t == nil {
			for mono, ce := range e.T {
				cd, ok := d.T[mono]
				if !ok {
					return nil, false
				}
				t = new(big.Rat).Quo(cd, ce)
				break
			}
		}
		if !d.Near(e.Mul(core.PolyConst(t)), eps) {
			return nil, false
		}
	}
	return t, t != nil && t.Sign() > 0 && t.Cmp(big.NewRat(1, 1)) < 0
}

// shapeSeg is one expected segment of a closed outline: to the next on-curve point, straight or around a corner.
type shapeSeg struct {
	to     pt
	corner *pt // nil for a straight edge
}

// matchOutline checks the recorded operations against the closed outline cycle (any starting point, either direction).
func matchOutline(ops []canvasOp, pts []pt, corners []*pt) string {
	if len(ops) == 0 || ops[0].name != "MoveTo" || len(ops[0].args) != 2 {
		return "the outline does not start with MoveTo"
	}
	n := len(pts)
	cur := pt{ops[0].args[0], ops[0].args[1]}
	start := -1
	for i, q := range pts {
		if q.eq(cur) {
			start = i
		}
	}
	if start < 0 {
		return "the outline starts at " + cur.String() + ", which is not one of its " + fmt.Sprint(n) + " on-curve points"
	}
	idx, dir, done := start, 0, 0
	for _, op := range ops[1:] {
		var end pt
		switch op.name {
		case "LineTo":
			if len(op.args) != 2 {
				return "LineTo with unknown arguments"
			}
			end = pt{op.args[0], op.args[1]}
			if end.eq(pts[idx]) {
				// zero-length segment: a degenerate straight edge of the outline (clamped radius), or the closing one
				if dir != 0 {
					next := (idx + dir + n) % n
					ci := idx
					if dir < 0 {
						ci = next
					}
					if done < n && corners[ci] == nil && pts[next].eq(pts[idx]) {
						idx = next
						done++
					}
				}
				continue
			}
		case "CubicTo":
			if len(op.args) != 6 {
				return "CubicTo with unknown arguments"
			}
			end = pt{op.args[4], op.args[5]}
		case "ClosePath":
			continue
		default:
			return "unexpected canvas operation " + op.name
		}
		if dir == 0 {
			switch {
			case end.eq(pts[(idx+1)%n]):
				dir = 1
			case end.eq(pts[(idx+n-1)%n]):
				dir = -1
			default:
				return fmt.Sprintf("segment from %s goes to %s, not to a neighbouring point of the outline", pts[idx], end)
			}
		}
		next := (idx + dir + n) % n
		for k := 0; k < n && !end.eq(pts[next]) && pts[next].eq(pts[idx]); k++ {
			// a degenerate straight edge may be left out
			ci := idx
			if dir < 0 {
				ci = next
			}
			if corners[ci] != nil {
				break
			}
			idx, done = next, done+1
			next = (idx + dir + n) % n
		}
		if !end.eq(pts[next]) {
			return fmt.Sprintf("segment from %s goes to %s, the outline continues at %s", pts[idx], end, pts[next])
		}
		// the corner between idx and next is stored at the lower index in forward direction
		ci := idx
		if dir < 0 {
			ci = next
		}
		corner := corners[ci]
		if corner == nil {
			if op.name != "LineTo" {
				return fmt.Sprintf("the straight edge %s – %s is drawn with %s", pts[idx], end, op.name)
			}
		} else {
			if op.name != "CubicTo" {
				return fmt.Sprintf("the quarter arc %s – %s is drawn with %s", pts[idx], end, op.name)
			}
			cp1 := pt{op.args[0], op.args[1]}
			cp2 := pt{op.args[2], op.args[3]}
			if !onSegment(pts[idx], *corner, cp1) {
				return fmt.Sprintf("first control point %s of the arc %s – %s is not on the tangent towards the corner %s", cp1, pts[idx], end, *corner)
			}
			if !onSegment(end, *corner, cp2) {
				return fmt.Sprintf("second control point %s of the arc %s – %s is not on the tangent towards the corner %s", cp2, pts[idx], end, *corner)
			}
			// a quarter of an ellipse: both control points at the same fraction of the way to the corner
			t1, _ := segmentFraction(pts[idx], *corner, cp1)
			t2, _ := segmentFraction(end, *corner, cp2)
			if d := new(big.Rat).Sub(t1, t2); d.Abs(d).Cmp(big.NewRat(1, 100000)) > 0 {
				f1, _ := t1.Float64()
				f2, _ := t2.Float64()
				return fmt.Sprintf("the control points of the arc %s – %s are at %.4f and %.4f of the way to the corner: a quarter ellipse has them at the same fraction (0.5523)", pts[idx], end, f1, f2)
			}
		}
		idx = next
		done++
	}
	if done != n {
		return fmt.Sprintf("%d of the %d segments of the outline are drawn", done, n)
	}
	return ""
}

// c18Shapes folds the draw methods of rect and ellipse/circle with a recording canvas.
func c18Shapes(c *core.Check) {
	p := c.Prog
	r := c.Rule("R6", "rect and ellipse/circle outlines: every on-curve point of the drawn outline is the one SVG defines (quadrant points of the ellipse; the eight points x+rx, x+width−rx … of the rounded rectangle with rx, ry clamped to half the size; Rectangle(x, y, width, height) without radii), edges are straight, and each quarter arc is a cubic whose control points lie on the tangents between its end points and the outer corner, both at the same fraction of the way", 5)
	sym := core.SymP
	run := func(fn *ssa.Function, recvFields map[string]core.AV, attrFields map[string]core.AV, cmp func(op token.Token, x, y core.AV) (bool, bool)) ([]canvasOp, error) {
		var ops []canvasOp
		f := &core.Folder{MaxDepth: 0, Cmp: cmp}
		f.Call = func(_ *core.Folder, call *ssa.Call, args []core.AV) (core.AV, bool) {
			callee := call.Call.StaticCallee()
			if callee != nil && callee.Name() == "point" && len(args) == 3 {
				var out []core.AV
				for _, a := range args[1:] {
					if s, ok := a.(core.StrV); ok {
						out = append(out, sym(string(s)))
					} else {
						out = append(out, core.TopV{Why: "point of unknown value"})
					}
				}
				return core.Agg{E: out}, true
			}
			return nil, false
		}
		f.Invoke = func(_ *core.Folder, call *ssa.Call, recv core.AV, args []core.AV) (core.AV, bool) {
			op := canvasOp{name: call.Call.Method.Name()}
			for _, a := range args {
				if pl, ok := a.(core.Poly); ok {
					op.args = append(op.args, pl)
				}
			}
			if len(op.args) != len(args) {
				op.args = nil
			}
			ops = append(ops, op)
			return core.NilV{}, true
		}
		args := make([]core.AV, len(fn.Params))
		for i, par := range fn.Params {
			args[i] = core.TopV{Why: par.Name()}
		}
		recvT := fn.Params[0].Type()
		args[0] = core.StructAV(recvT, recvFields)
		if attrFields != nil {
			at := fn.Params[2].Type().(*types.Pointer).Elem()
			var boxT types.Type
			st := at.Underlying().(*types.Struct)
			for i := 0; i < st.NumFields(); i++ {
				if st.Field(i).Name() == "box" {
					boxT = st.Field(i).Type()
				}
			}
			if boxT == nil {
				return nil, fmt.Errorf("attributes has no box field")
			}
			args[2] = core.Ptr{C: &core.Cell{V: core.StructAV(at, map[string]core.AV{"box": core.StructAV(boxT, attrFields)})}}
		}
		_, err := f.Fold(fn, args)
		return ops, err
	}
	name := func(s string) core.AV { return core.StrV(s) }

	// ellipse
	if fn := p.Method("svg", "ellipse", "draw"); fn == nil {
		r.Anchor("svg.ellipse.draw")
	} else {
		ops, err := run(fn, map[string]core.AV{"rx": name("rx"), "ry": name("ry"), "cx": name("cx"), "cy": name("cy")}, nil,
			func(op token.Token, x, y core.AV) (bool, bool) { // radii are not zero
				return op == token.NEQ || op == token.GTR || op == token.GEQ, true
			})
		msg := ""
		if err != nil {
			msg = "could not be folded: " + err.Error()
		} else {
			cx, cy, rx, ry := sym("cx"), sym("cy"), sym("rx"), sym("ry")
			pts := []pt{{cx.Add(rx), cy}, {cx, cy.Add(ry)}, {cx.Add(rx.Neg()), cy}, {cx, cy.Add(ry.Neg())}}
			cs := []*pt{{cx.Add(rx), cy.Add(ry)}, {cx.Add(rx.Neg()), cy.Add(ry)}, {cx.Add(rx.Neg()), cy.Add(ry.Neg())}, {cx.Add(rx), cy.Add(ry.Neg())}}
			msg = matchOutline(ops, pts, cs)
		}
		r.Cond(msg == "", "svg.ellipse.draw | rx, ry > 0", p.Pos(fn.Pos()), "four quarter arcs through (cx±rx, cy), (cx, cy±ry)", msg)
		// zero radius: nothing is drawn
		ops, err = run(fn, map[string]core.AV{"rx": name("rx"), "ry": name("ry"), "cx": name("cx"), "cy": name("cy")}, nil,
			func(op token.Token, x, y core.AV) (bool, bool) {
				return op == token.EQL || op == token.LEQ || op == token.GEQ, true
			})
		r.Cond(err == nil && len(ops) == 0, "svg.ellipse.draw | rx == 0", p.Pos(fn.Pos()), "nothing drawn", fmt.Sprintf("%d canvas operations for a zero radius (error: %v): a zero radius disables rendering", len(ops), err))
	}

	// rect
	if fn := p.Method("svg", "rect", "draw"); fn == nil {
		r.Anchor("svg.rect.draw")
	} else {
		recv := map[string]core.AV{"rx": name("rx"), "ry": name("ry")}
		attrs := map[string]core.AV{"x": name("x"), "y": name("y"), "width": name("w"), "height": name("h")}
		isSym := func(v core.AV, s string) bool {
			pl, ok := v.(core.Poly)
			return ok && pl.Equal(sym(s))
		}
		isZero := func(v core.AV) bool {
			pl, ok := v.(core.Poly)
			return ok && len(pl.T) == 0
		}
		half := core.PolyConst(big.NewRat(1, 2))
		for _, sc := range []struct {
			name           string
			round          bool
			clampX, clampY bool
			empty          bool
		}{
			{"no radius", false, false, false, false},
			{"rx, ry within half the size", true, false, false, false},
			{"rx > width/2", true, true, false, false},
			{"ry > height/2", true, false, true, false},
			{"width <= 0", false, false, false, true},
		} {
			sc := sc
			undecided := ""
			cmp := func(op token.Token, a, b core.AV) (bool, bool) {
				truth := func(lessOrEqualHolds, equalHolds bool) (bool, bool) {
					switch op {
					case token.LEQ:
						return lessOrEqualHolds, true
					case token.GTR:
						return !lessOrEqualHolds, true
					case token.EQL:
						return equalHolds, true
					case token.NEQ:
						return !equalHolds, true
					case token.LSS:
						return lessOrEqualHolds && !equalHolds, true
					case token.GEQ:
						return !lessOrEqualHolds || equalHolds, true
					}
					return false, false
				}
				switch {
				case (isSym(a, "w") || isSym(a, "h")) && isZero(b): // size <= 0
					return truth(sc.empty, false)
				case (isSym(a, "rx") || isSym(a, "ry")) && isZero(b): // radius == 0
					return truth(!sc.round, !sc.round)
				case isSym(a, "rx"):
					if pb, ok := b.(core.Poly); ok && pb.Equal(sym("w").Mul(half)) {
						return truth(!sc.clampX, false)
					}
				case isSym(a, "ry"):
					if pb, ok := b.(core.Poly); ok && pb.Equal(sym("h").Mul(half)) {
						return truth(!sc.clampY, false)
					}
				}
				undecided = fmt.Sprintf("comparison %s %s %s", core.AVString(a), op, core.AVString(b))
				return false, false
			}
			ops, err := run(fn, recv, attrs, cmp)
			key := "svg.rect.draw | " + sc.name
			if err != nil {
				r.Cond(false, key, p.Pos(fn.Pos()), "", fmt.Sprintf("could not be folded: %v (%s)", err, undecided))
				continue
			}
			x, y, w, h := sym("x"), sym("y"), sym("w"), sym("h")
			switch {
			case sc.empty:
				r.Cond(len(ops) == 0, key, p.Pos(fn.Pos()), "nothing drawn", fmt.Sprintf("%d canvas operations for an empty rectangle", len(ops)))
			case !sc.round:
				ok := len(ops) == 1 && ops[0].name == "Rectangle" && len(ops[0].args) == 4 &&
					ops[0].args[0].Equal(x) && ops[0].args[1].Equal(y) && ops[0].args[2].Equal(w) && ops[0].args[3].Equal(h)
				var got []string
				for _, o := range ops {
					var as []string
					for _, a := range o.args {
						as = append(as, a.String())
					}
					got = append(got, o.name+"("+strings.Join(as, ", ")+")")
				}
				r.Cond(ok, key, p.Pos(fn.Pos()), "Rectangle(x, y, width, height)", "draws "+strings.Join(got, " ")+", SVG gives Rectangle(x, y, w, h)")
			default:
				rx, ry := sym("rx"), sym("ry")
				if sc.clampX {
					rx = w.Mul(half)
				}
				if sc.clampY {
					ry = h.Mul(half)
				}
				x2, y2 := x.Add(w), y.Add(h)
				pts := []pt{
					{x.Add(rx), y}, {x2.Add(rx.Neg()), y},
					{x2, y.Add(ry)}, {x2, y2.Add(ry.Neg())},
					{x2.Add(rx.Neg()), y2}, {x.Add(rx), y2},
					{x, y2.Add(ry.Neg())}, {x, y.Add(ry)},
				}
				cs := []*pt{nil, {x2, y}, nil, {x2, y2}, nil, {x, y2}, nil, {x, y}}
				msg := matchOutline(ops, pts, cs)
				r.Cond(msg == "", key, p.Pos(fn.Pos()), "rounded rectangle outline", msg)
			}
		}
	}
}
