package props

import (
	"fmt"
	"go/token"
	"go/types"
	"math/big"
	"sort"
	"strings"

	"golang.org/x/tools/go/ssa"

	"wrverif/core"
)

// c10WidthEquation folds blockLevelWidth_ symbolically for every combination of `auto` among width, margin-left and
// margin-right and for both outcomes of the over-constraint test, and compares the resulting used values, as
// polynomials in the inputs, with CSS 2.1 §10.3.3 (as implemented by the reference: margin-right is not rewritten
// for an over-constrained box in ltr).
func c10WidthEquation(c *core.Check) {
	p := c.Prog
	r := c.Rule("R7", "blockLevelWidth_, folded symbolically for the 8 combinations of `auto` among width, margin-left and margin-right and both outcomes of the over-constraint test: the quantity compared with the containing block's width is paddings + borders + width + the non-auto margins; an auto width becomes cb − paddings − borders − margins (auto margins 0); auto margins become 0 when the box overflows, share the remaining space equally when both are auto, or take it when one is; nothing else changes", 10)
	fn := p.Fn("html/layout", "blockLevelWidth_")
	pk := p.ByPath["html/boxes"]
	if fn == nil || pk == nil {
		r.Anchor("html/layout.blockLevelWidth_")
		return
	}
	bfObj := pk.Types.Scope().Lookup("BoxFields")
	if bfObj == nil {
		r.Anchor("html/boxes.BoxFields")
		return
	}
	bfT := bfObj.Type()
	st := bfT.Underlying().(*types.Struct)
	fieldIdx := map[string]int{}
	for i := 0; i < st.NumFields(); i++ {
		fieldIdx[st.Field(i).Name()] = i
	}
	for _, f := range []string{"MarginLeft", "MarginRight", "Width", "PaddingLeft", "PaddingRight", "BorderLeftWidth", "BorderRightWidth", "PositionX", "IsColumn"} {
		if _, ok := fieldIdx[f]; !ok {
			r.Anchor("html/boxes.BoxFields." + f)
			return
		}
	}
	auto := core.BoolV(true) // pr.AutoF is the constant special(true) boxed in a MaybeFloat
	sym := core.SymP
	pB := sym("pL").Add(sym("pR")).Add(sym("bL")).Add(sym("bR"))
	cb := sym("cb")
	half := core.PolyConst(big.NewRat(1, 2))
	for mask := 0; mask < 8; mask++ {
		wAuto, lAuto, rAuto := mask&1 != 0, mask&2 != 0, mask&4 != 0
		for _, overflow := range []bool{false, true} {
			if wAuto && overflow {
				continue // the over-constraint test is not made for an auto width
			}
			name := fmt.Sprintf("width %s, margin-left %s, margin-right %s", autoS(wAuto), autoS(lAuto), autoS(rAuto))
			if !wAuto {
				name += fmt.Sprintf(", overflows: %v", overflow)
			}
			key := "blockLevelWidth_ | " + name
			// the box
			agg := core.ZeroOf(bfT).(core.Agg)
			set := func(field string, v core.AV) { agg.E[fieldIdx[field]] = v }
			val := func(isAuto bool, s string) core.AV {
				if isAuto {
					return auto
				}
				return sym(s)
			}
			set("MarginLeft", val(lAuto, "mL"))
			set("MarginRight", val(rAuto, "mR"))
			set("Width", val(wAuto, "w"))
			set("PaddingLeft", sym("pL"))
			set("PaddingRight", sym("pR"))
			set("BorderLeftWidth", sym("bL"))
			set("BorderRightWidth", sym("bR"))
			set("PositionX", sym("x"))
			set("IsColumn", core.BoolV(false))
			cell := &core.Cell{V: agg}
			boxPtr := core.Ptr{C: cell}
			// expected quantity compared with cb
			total := pB.Add(sym("w"))
			if !lAuto {
				total = total.Add(sym("mL"))
			}
			if !rAuto {
				total = total.Add(sym("mR"))
			}
			var cmpSeen []string
			badV := ""
			f := &core.Folder{MaxDepth: 2}
			f.Invoke = func(_ *core.Folder, call *ssa.Call, recv core.AV, args []core.AV) (core.AV, bool) {
				switch call.Call.Method.Name() {
				case "Box":
					return boxPtr, true
				case "V":
					if pv, ok := recv.(core.Poly); ok {
						return pv, true
					}
					badV = "V() is taken of an auto value at " + p.Pos(call.Pos())
					return core.TopV{Why: "V() of auto"}, true
				}
				return nil, false
			}
			f.Call = func(_ *core.Folder, call *ssa.Call, args []core.AV) (core.AV, bool) {
				if cal := call.Call.StaticCallee(); cal != nil && cal.Name() == "V" && len(args) == 1 {
					if pv, ok := args[0].(core.Poly); ok {
						return pv, true
					}
					badV = "V() is taken of an auto value at " + p.Pos(call.Pos())
					return core.TopV{Why: "V() of auto"}, true
				}
				return nil, false
			}
			f.Assert = func(x *ssa.TypeAssert, v core.AV) (core.AV, bool, bool) {
				if n, ok := x.AssertedType.(*types.Named); ok && n.Obj().Name() == "block" {
					return v, true, true
				}
				return core.NilV{}, false, true
			}
			f.Cmp = func(op token.Token, x, y core.AV) (bool, bool) {
				_, xa := x.(core.BoolV)
				_, ya := y.(core.BoolV)
				if xa || ya {
					eq := xa && ya
					switch op {
					case token.EQL:
						return eq, true
					case token.NEQ:
						return !eq, true
					}
					return false, false
				}
				px, ok1 := x.(core.Poly)
				py, ok2 := y.(core.Poly)
				if ok1 && ok2 && op == token.GTR {
					cmpSeen = append(cmpSeen, px.String()+" > "+py.String())
					if !px.Equal(total) || !py.Equal(cb) {
						cmpSeen = append(cmpSeen, "EXPECTED "+total.String()+" > "+cb.String())
					}
					return overflow, true
				}
				return false, false
			}
			// containing block: block{X, Y, Width, Height}
			blk := core.Agg{E: []core.AV{sym("cbx"), sym("cby"), cb, sym("cbh")}}
			_, err := f.Fold(fn, []core.AV{boxPtr, core.NilV{}, blk})
			if err != nil {
				r.Unknown(key, p.Pos(fn.Pos()), "the function could not be folded for this case: "+err.Error())
				continue
			}
			if badV != "" {
				r.Fail(key, p.Pos(fn.Pos()), badV)
				continue
			}
			out := cell.V.(core.Agg)
			got := func(field string) core.AV { return out.E[fieldIdx[field]] }
			// expectations
			mLin, mRin := val(lAuto, "mL"), val(rAuto, "mR")
			zero := core.Num(0)
			var eL, eR, eW core.AV
			switch {
			case wAuto:
				eL, eR = mLin, mRin
				if lAuto {
					eL = zero
				}
				if rAuto {
					eR = zero
				}
				eW = cb.Add(pB.Neg()).Add(eL.(core.Poly).Neg()).Add(eR.(core.Poly).Neg())
			case overflow:
				eL, eR, eW = mLin, mRin, sym("w")
				if lAuto {
					eL = zero
				}
				if rAuto {
					eR = zero
				}
			default:
				rest := cb.Add(pB.Neg()).Add(sym("w").Neg())
				eL, eR, eW = mLin, mRin, sym("w")
				switch {
				case lAuto && rAuto:
					eL, eR = rest.Mul(half), rest.Mul(half)
				case lAuto:
					eL = rest.Add(sym("mR").Neg())
				case rAuto:
					eR = rest.Add(sym("mL").Neg())
				}
			}
			var diffs []string
			for _, chk := range []struct {
				field string
				want  core.AV
			}{{"MarginLeft", eL}, {"MarginRight", eR}, {"Width", eW}, {"PositionX", sym("x")}} {
				g := got(chk.field)
				if core.AVString(g) != core.AVString(chk.want) {
					diffs = append(diffs, fmt.Sprintf("%s = %s, CSS 2.1 10.3.3 gives %s", chk.field, core.AVString(g), core.AVString(chk.want)))
				}
			}
			if !wAuto {
				okCmp := len(cmpSeen) == 1
				if !okCmp {
					diffs = append(diffs, "over-constraint test: "+strings.Join(cmpSeen, "; "))
				}
			}
			r.Cond(len(diffs) == 0, key, p.Pos(fn.Pos()), "used values as specified", strings.Join(diffs, "; "))
		}
	}
}

func autoS(a bool) string {
	if a {
		return "auto"
	}
	return "given"
}

// c10CollapseMargin folds collapseMargin over three symbolic margins for every sign/order arrangement of the margins
// relative to each other and to 0 (the function only touches them through comparisons), and checks that the result is
// the largest positive margin plus the most negative one (CSS 2.1 §8.3.1).
func c10CollapseMargin(c *core.Check) {
	p := c.Prog
	r := c.Rule("R8", "collapseMargin, folded over three symbolic adjoining margins for all 343 arrangements of their order relative to each other and to zero, returns the largest positive margin plus the most negative one (0 when there is none of a sign)", 1)
	fn := p.Fn("html/layout", "collapseMargin")
	if fn == nil {
		r.Anchor("html/layout.collapseMargin")
		return
	}
	names := []string{"m1", "m2", "m3"}
	bad := ""
	n := 0
	for code := 0; code < 343 && bad == ""; code++ {
		rank := map[string]int64{}
		k := code
		for _, nm := range names {
			rank[nm] = int64(k%7) - 3
			k /= 7
		}
		rankOf := func(v core.AV) (int64, bool) {
			pv, ok := v.(core.Poly)
			if !ok {
				return 0, false
			}
			if cst, isC := pv.IsConst(); isC {
				if cst.Sign() == 0 {
					return 0, true
				}
				return 0, false
			}
			for _, nm := range names {
				if pv.Equal(core.SymP(nm)) {
					return rank[nm], true
				}
			}
			return 0, false
		}
		f := &core.Folder{MaxDepth: 1}
		f.Cmp = func(op token.Token, x, y core.AV) (bool, bool) {
			a, ok1 := rankOf(x)
			b, ok2 := rankOf(y)
			if !ok1 || !ok2 {
				return false, false
			}
			switch op {
			case token.LSS:
				return a < b, true
			case token.LEQ:
				return a <= b, true
			case token.GTR:
				return a > b, true
			case token.GEQ:
				return a >= b, true
			case token.EQL:
				return a == b, true
			case token.NEQ:
				return a != b, true
			}
			return false, false
		}
		f.Call = func(_ *core.Folder, call *ssa.Call, args []core.AV) (core.AV, bool) {
			if bi, ok := call.Call.Value.(*ssa.Builtin); ok && bi.Name() == "len" && len(args) == 1 {
				if pt, ok := args[0].(core.Ptr); ok {
					if ag, ok := pt.C.V.(core.Agg); ok {
						return core.Num(int64(len(ag.E))), true
					}
				}
			}
			return nil, false
		}
		list := core.Ptr{C: &core.Cell{V: core.Agg{E: []core.AV{core.SymP("m1"), core.SymP("m2"), core.SymP("m3")}}}}
		res, err := f.Fold(fn, []core.AV{list})
		if err != nil || len(res) != 1 {
			r.Unknown("collapseMargin | fold", p.Pos(fn.Pos()), fmt.Sprintf("could not be folded for ranks %v: %v", rank, err))
			return
		}
		n++
		// value of the result under the ranks
		pv, ok := res[0].(core.Poly)
		if !ok {
			bad = fmt.Sprintf("ranks %v: result %s", rank, core.AVString(res[0]))
			break
		}
		got := new(big.Rat)
		for mono, coef := range pv.T {
			val := big.NewRat(1, 1)
			if mono != "" {
				rk, known := rank[mono]
				if !known {
					bad = fmt.Sprintf("ranks %v: result %s is not a sum of margins", rank, pv.String())
					break
				}
				val = big.NewRat(rk, 1)
			}
			got.Add(got, new(big.Rat).Mul(coef, val))
		}
		var maxPos, minNeg int64
		for _, nm := range names {
			if rank[nm] > maxPos {
				maxPos = rank[nm]
			}
			if rank[nm] < minNeg {
				minNeg = rank[nm]
			}
		}
		if bad == "" && got.Cmp(big.NewRat(maxPos+minNeg, 1)) != 0 {
			bad = fmt.Sprintf("with the margins ordered as m1:%d m2:%d m3:%d (0 is zero) the result is %s, CSS 2.1 8.3.1 gives the largest positive plus the most negative", rank["m1"], rank["m2"], rank["m3"], pv.String())
		}
	}
	r.Cond(bad == "", "collapseMargin | all arrangements of three margins", p.Pos(fn.Pos()), fmt.Sprintf("%d arrangements folded", n), bad)
}

// c10CollapseThrough: the margins of a box collapse through it only when nothing separates them (CSS 2.1 §8.3.1).
func c10CollapseThrough(c *core.Check) {
	p := c.Prog
	r := c.Rule("R9", "blockContainerLayout lets the top and bottom margins of a box collapse through it only when its height is auto or 0, its min-height is 0, it has no top or bottom border, no top or bottom padding and no clearance (CSS 2.1 §8.3.1): each of these tests keeps control away from `collapsingThrough = true` when it fails", 5)
	fn := p.Fn("html/layout", "blockContainerLayout")
	if fn == nil {
		r.Anchor("html/layout.blockContainerLayout")
		return
	}
	// the block from which `true` flows into collapsingThrough
	var from *ssa.BasicBlock
	core.Instrs(fn, func(in ssa.Instruction) {
		phi, ok := in.(*ssa.Phi)
		if !ok || phi.Comment != "collapsingThrough" {
			return
		}
		for i, e := range phi.Edges {
			if k, ok := e.(*ssa.Const); ok && k.Value != nil && k.Value.String() == "true" {
				from = phi.Block().Preds[i]
			}
		}
	})
	if from == nil {
		r.Anchor("blockContainerLayout: the assignment collapsingThrough = true")
		return
	}
	fieldOf := func(v ssa.Value) string {
		for i := 0; i < 4; i++ {
			switch x := v.(type) {
			case *ssa.MakeInterface:
				v = x.X
				continue
			case *ssa.ChangeType:
				v = x.X
				continue
			case *ssa.UnOp:
				if fa, ok := x.X.(*ssa.FieldAddr); ok {
					return core.FieldName(fa)
				}
			}
			break
		}
		return ""
	}
	atomsOf := map[string][]ssa.Value{}
	var clearance []ssa.Value
	for _, a := range core.CondAtoms(fn) {
		bo, ok := a.(*ssa.BinOp)
		if !ok || bo.Op != token.EQL {
			continue
		}
		if f := fieldOf(bo.X); f != "" {
			atomsOf[f] = append(atomsOf[f], a)
		}
		if call, ok := bo.X.(*ssa.Call); ok && call.Call.StaticCallee() != nil && call.Call.StaticCallee().Name() == "getClearance" {
			clearance = append(clearance, a)
		}
	}
	check := func(name string, atoms []ssa.Value) {
		key := "blockContainerLayout | collapsing through requires " + name
		if len(atoms) == 0 {
			r.Fail(key, p.Pos(from.Instrs[0].Pos()), "no test of it found: margins collapse through a box that separates them")
			return
		}
		assign := map[ssa.Value]bool{}
		for _, a := range atoms {
			assign[a] = false
		}
		ok := !core.ForwardReach(fn.Blocks[0], assign, nil)[from]
		r.Cond(ok, key, p.Pos(from.Instrs[0].Pos()), "collapsingThrough = true is not reached when the test fails", "collapsingThrough = true is reached although the test fails: the margins collapse through a box that separates them")
	}
	check("height auto or 0", atomsOf["Height"])
	check("min-height 0", atomsOf["MinHeight"])
	check("no top border", atomsOf["BorderTopWidth"])
	check("no bottom border", atomsOf["BorderBottomWidth"])
	check("no top padding", atomsOf["PaddingTop"])
	check("no bottom padding", atomsOf["PaddingBottom"])
	check("no clearance", clearance)
}

// c10Provenance: two values whose origin matters in the margin code.
func c10Provenance(c *core.Check) {
	p := c.Prog
	r := c.Rule("R12", "values used by the margin logic have the origin CSS 2.1 gives them: clearance is computed against the collapsed margin (every getClearance call of the block layout receives a result of collapseMargin, the float layout a constant 0), and blockContainerLayout decides whether margins adjoin from the used height of the box (box.Height against auto), never from the computed `height` keyword (a percentage height that computes to auto is auto)", 3)
	gc := p.Fn("html/layout", "getClearance")
	if gc == nil {
		r.Anchor("html/layout.getClearance")
	} else {
		sites, _ := p.CallSitesOf(gc)
		sort.Slice(sites, func(i, j int) bool { return sites[i].Pos() < sites[j].Pos() })
		perFn := map[string]int{}
		for _, cs := range sites {
			arg := cs.Common().Args[2]
			// numbered per calling function, in source order (the order of the call graph's edges is not stable)
			perFn[core.FuncName(cs.Parent())]++
			key := fmt.Sprintf("%s | getClearance(…, %s) #%d", core.FuncName(cs.Parent()), exprName(arg), perFn[core.FuncName(cs.Parent())])
			if k, ok := arg.(*ssa.Const); ok {
				f, isF := core.ConstFloat(k)
				r.Cond(isF && f == 0, key, p.Pos(cs.Pos()), "no margin above (constant 0)", "a non-zero constant margin")
				continue
			}
			ok := core.DerivesFrom(arg, func(v ssa.Value) bool {
				call, isCall := v.(*ssa.Call)
				return isCall && call.Call.StaticCallee() != nil && call.Call.StaticCallee().Name() == "collapseMargin"
			})
			r.Cond(ok, key, p.Pos(cs.Pos()), "the collapsed margin", "the margin handed to getClearance is not a result of collapseMargin: the hypothetical position used for clearance and the position computed afterwards disagree when margins adjoin above the box")
		}
	}
	if fn := p.Fn("html/layout", "blockContainerLayout"); fn == nil {
		r.Anchor("html/layout.blockContainerLayout")
	} else {
		n := 0
		bad := ""
		core.Instrs(fn, func(in ssa.Instruction) {
			call, ok := in.(*ssa.Call)
			if !ok || !call.Call.IsInvoke() || call.Call.Method.Name() != "GetHeight" {
				return
			}
			n++
			bad = p.Pos(call.Pos())
		})
		r.Cond(n == 0, "html/layout.blockContainerLayout | used height decides", p.Pos(fn.Pos()), "the computed height is never consulted", "the computed `height` is read at "+bad+": a percentage height resolved to auto would be treated as a definite height by the margin logic")
	}
}

// c10Direction: the over-constrained case of CSS 2.1 §10.3.3 drops the margin of the *containing block's* end side:
// the direction read in blockLevelWidth_ is the one of the containing block, not the one of the box being sized.
func c10Direction(c *core.Check) {
	p := c.Prog
	r := c.Rule("R13", "the direction that decides which margin is recomputed in the over-constrained case is the containing block's: in blockLevelWidth_ every GetDirection() is called on the style of the value obtained from the containing-block parameter (the type switch on it), never on the style of the box being sized", 1)
	fn := p.Fn("html/layout", "blockLevelWidth_")
	if fn == nil || len(fn.Params) < 3 {
		r.Anchor("html/layout.blockLevelWidth_")
		return
	}
	cbParam := fn.Params[2]
	boxParam := fn.Params[0]
	n := 0
	core.Instrs(fn, func(in ssa.Instruction) {
		call, ok := in.(*ssa.Call)
		if !ok || !call.Call.IsInvoke() || call.Call.Method.Name() != "GetDirection" {
			return
		}
		n++
		fromCB := core.DerivesFrom(call.Call.Value, func(v ssa.Value) bool { return v == ssa.Value(cbParam) })
		fromBox := core.DerivesFrom(call.Call.Value, func(v ssa.Value) bool {
			if v == ssa.Value(boxParam) {
				return true
			}
			// box := box_.Box()
			if c2, ok := v.(*ssa.Call); ok && c2.Call.IsInvoke() && c2.Call.Method.Name() == "Box" && c2.Call.Value == ssa.Value(boxParam) {
				return true
			}
			return false
		})
		r.Cond(fromCB && !fromBox, "html/layout.blockLevelWidth_ | direction of the containing block", p.Pos(call.Pos()), "read from the containing block's style", "the direction is read from the box being sized: an ltr block inside an rtl parent keeps its left margin and lands at the wrong edge (x=10 instead of 80)")
	})
	if n == 0 {
		r.Anchor("blockLevelWidth_: GetDirection()")
	}
}
