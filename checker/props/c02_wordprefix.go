package props

import (
	"fmt"

	"golang.org/x/tools/go/ssa"

	"wrverif/core"
)

// c02WordPrefix (R14): to hyphenate, splitFirstLine cuts the next word out of the text of the second line at the
// boundaries the segmenter gives: secondLineText[startWord:stopWord].  What stands before the word,
// secondLineText[:startWord] (an opening parenthesis, a quote), belongs to the first line as soon as a part of the
// word does.  The text is cut at startWord to take what follows; the rule asks for the other side of the cut: a
// slice of the same text ending at the same index flows into the text of a layout created for a candidate first
// line.  ("aaa (extraordinary)" was laid out as "aaa ex-" / "xtraordin-" / "ary)": the parenthesis is lost and a
// letter is there twice.)
func c02WordPrefix(c *core.Check) {
	p := c.Prog
	r := c.Rule("R14", "both sides of the cut: in text.(*FontConfigurationPango).splitFirstLine, for the word cut out of a text at the index given by wordBoundaries (text[start:stop]), a slice of the same text that ends at that index (text[:start]) flows into the text given to createLayout for the hyphenated candidates", 1)
	fn := p.Method("text", "FontConfigurationPango", "splitFirstLine")
	if fn == nil {
		r.Anchor("text.(*FontConfigurationPango).splitFirstLine")
		return
	}
	fromBoundaries := func(v ssa.Value) bool {
		return v != nil && core.DerivesFrom(v, core.IsCallNamed("wordBoundaries"))
	}
	n := 0
	core.Instrs(fn, func(in ssa.Instruction) {
		s1, ok := in.(*ssa.Slice)
		if !ok || s1.Low == nil || !fromBoundaries(s1.Low) {
			return
		}
		n++
		key := fmt.Sprintf("text.(*FontConfigurationPango).splitFirstLine | text before the word #%d", n)
		found := false
		core.Instrs(fn, func(in2 ssa.Instruction) {
			s2, ok := in2.(*ssa.Slice)
			if !ok || s2.Low != nil || s2.High == nil || !(s2.X == s1.X || sameListSource(s2.X, s1.X)) {
				return
			}
			if !(s2.High == s1.Low || core.DerivesFrom(s2.High, func(v ssa.Value) bool { return v == s1.Low })) {
				return
			}
			// flows into a createLayout text
			core.Instrs(fn, func(in3 ssa.Instruction) {
				call, ok := in3.(*ssa.Call)
				if !ok || call.Call.StaticCallee() == nil || call.Call.StaticCallee().Name() != "createLayout" || len(call.Call.Args) == 0 {
					return
				}
				if core.DerivesFrom(call.Call.Args[0], func(v ssa.Value) bool { return v == ssa.Value(s2) }) {
					found = true
				}
			})
		})
		r.Cond(found, key, p.Pos(s1.Pos()), "the text before the word is part of the candidate lines", "the text is cut at the start of the word and what stands before the cut is used in no candidate line: the characters between the end of the first line and the word are lost")
	})
	if n == 0 {
		r.Unknown("text.(*FontConfigurationPango).splitFirstLine | text before the word", p.Pos(fn.Pos()), "no slice of a text at an index given by wordBoundaries")
	}
}
