package props

import (
	"fmt"
	"go/ast"
	"go/constant"
	"go/token"
	"go/types"
	"math/big"
	"sort"
	"strings"

	"golang.org/x/tools/go/ssa"

	"wrverif/core"
)

func init() { register("C04", c04) }

// CSS 2.1 Appendix F, column "Inherited?", restricted to longhand visual-media properties.
var css21Inherited = map[string]bool{
	"border-collapse": true, "border-spacing": true, "caption-side": true, "color": true, "direction": true,
	"empty-cells": true, "font-family": true, "font-size": true, "font-style": true, "font-weight": true,
	"letter-spacing": true, "line-height": true, "list-style-image": true, "list-style-position": true,
	"list-style-type": true, "orphans": true, "quotes": true, "text-indent": true, "text-transform": true,
	"visibility": true, "white-space": true, "widows": true, "word-spacing": true,
	// not inherited
	"background-attachment": false, "background-color": false, "background-image": false, "background-position": false,
	"background-repeat": false, "border-top-color": false, "border-right-color": false, "border-bottom-color": false,
	"border-left-color": false, "border-top-style": false, "border-right-style": false, "border-bottom-style": false,
	"border-left-style": false, "border-top-width": false, "border-right-width": false, "border-bottom-width": false,
	"border-left-width": false, "bottom": false, "clear": false, "clip": false, "content": false,
	"counter-increment": false, "counter-reset": false, "display": false, "float": false, "height": false, "left": false,
	"margin-top": false, "margin-right": false, "margin-bottom": false, "margin-left": false, "max-height": false,
	"max-width": false, "min-height": false, "min-width": false, "outline-color": false, "outline-style": false,
	"outline-width": false, "overflow": false, "padding-top": false, "padding-right": false, "padding-bottom": false,
	"padding-left": false, "position": false, "right": false, "table-layout": false, "top": false,
	"unicode-bidi": false, "vertical-align": false, "width": false, "z-index": false,
}

// CSS 2.1 Appendix F, column "Initial value", for keyword-valued properties
// (the literal's first string constant is compared).
var css21Initial = map[string]string{
	"caption-side": "top", "clear": "none", "direction": "ltr", "display": "inline", "empty-cells": "show",
	"float": "none", "position": "static", "table-layout": "auto", "unicode-bidi": "normal", "visibility": "visible",
	"border-top-style": "none", "border-right-style": "none", "border-bottom-style": "none", "border-left-style": "none",
	"border-collapse": "separate", "list-style-position": "outside", "overflow": "visible", "text-transform": "none",
	"white-space": "normal", "outline-style": "none", "background-attachment": "scroll", "background-repeat": "repeat",
	"bottom": "auto", "left": "auto", "right": "auto", "top": "auto", "height": "auto", "width": "auto",
	"line-height": "normal", "vertical-align": "baseline", "z-index": "auto", "font-style": "normal",
	"letter-spacing": "normal", "word-spacing": "normal", "list-style-type": "disc", "max-height": "none", "max-width": "none",
	"content": "normal",
}

func kebab(constName string) string {
	s := strings.TrimPrefix(constName, "P")
	var sb strings.Builder
	for i, r := range s {
		if r >= 'A' && r <= 'Z' {
			if i > 0 {
				sb.WriteByte('-')
			}
			sb.WriteRune(r + 32)
		} else {
			sb.WriteRune(r)
		}
	}
	return sb.String()
}

func firstStringConst(info *types.Info, e ast.Expr) (string, bool) {
	var out string
	found := false
	ast.Inspect(e, func(n ast.Node) bool {
		if found {
			return false
		}
		if ex, ok := n.(ast.Expr); ok {
			if s, ok := core.StrConst(info, ex); ok {
				out, found = s, true
				return false
			}
		}
		return true
	})
	return out, found
}

func c04(c *core.Check) {
	c04CacheOwnership(c)
	p := c.Prog
	c.Explain = "Structural necessary conditions of CSS defaulting, decided on the type-checked source: the per-property tables (ids, names, initial values, accessors, inherited set, validators, computers) agree with each other and with CSS 2.1 Appendix F; every value that can enter a style slot has the slot's type; the unit table holds the fixed CSS ratios and length_ covers every unit a validator can emit; the inherit/initial skeleton of cascadeValue and AnonymousStyle.Get; which font size each relative unit is multiplied by (polynomial folding of length_); the root never dereferences its missing parent. Does not decide pending var() paths, caching order or font metrics."
	c04ComputedUnits(c)
	c04LineHeight(c)
	c.Assume = []string{"float rounding is outside the abstraction", "properties later than CSS 2.1 are only required to be present in every table; their inheritance flag is not judged"}

	consts := p.ConstsOfType("css/properties", "KnownProp")
	nb := int64(-1)
	for v, k := range consts {
		if k.Name() == "NbProperties" {
			nb = v
		}
	}
	K := map[int64]string{} // value -> const name
	for v, k := range consts {
		if v >= 1 && v < nb {
			K[v] = k.Name()
		}
	}

	// ---- R1 table agreement
	r1 := c.Rule("R1", "the KnownProp constants 1..NbProperties-1 are exactly the keys of InitialValues and propsNames; PropsFromNames is the inverse of propsNames; names are the kebab-case of the constant; Inherited, InitialNotComputed, TableWrapperBoxProperties name known properties; Inherited agrees with CSS 2.1 Appendix F on the CSS 2.1 properties", 626)
	iv, err := p.Table("css/properties", "InitialValues")
	names, err2 := p.Table("css/properties", "propsNames")
	fromNames, err3 := p.Table("css/properties", "PropsFromNames")
	inh, err4 := p.Table("css/properties", "Inherited")
	if nb < 0 || err != nil || err2 != nil || err3 != nil || err4 != nil {
		r1.Anchor(fmt.Sprintf("css/properties tables: NbProperties=%d %v %v %v %v", nb, err, err2, err3, err4))
		return
	}
	pos := func(e ast.Node) string { return p.Pos(e.Pos()) }
	ivKeys := map[int64]core.TableEntry{}
	for _, e := range iv {
		if e.Key == nil {
			r1.Fail("InitialValues key", pos(e.KeyExpr), "non-constant key")
			continue
		}
		n, _ := constant.Int64Val(e.Key)
		if _, dup := ivKeys[n]; dup {
			r1.Fail("InitialValues duplicate "+K[n], pos(e.KeyExpr), "duplicate key")
		}
		ivKeys[n] = e
	}
	nameOf := map[int64]string{}
	for _, e := range names {
		n, _ := constant.Int64Val(e.Key)
		s, _ := core.StrConst(p.Info("css/properties"), e.Val)
		nameOf[n] = s
	}
	inv := map[string]int64{}
	for _, e := range fromNames {
		s := constant.StringVal(e.Key)
		if v := core.ConstOf(p.Info("css/properties"), e.Val); v != nil {
			n, _ := constant.Int64Val(v)
			inv[s] = n
		}
	}
	var vals []int64
	for v := range K {
		vals = append(vals, v)
	}
	sort.Slice(vals, func(i, j int) bool { return vals[i] < vals[j] })
	ivPos := p.Pos(p.VarInit("css/properties", "InitialValues").Pos())
	for _, v := range vals {
		cn := K[v]
		_, has := ivKeys[v]
		r1.Cond(has, "InitialValues has "+cn, ivPos, "key present", "no initial value: Get on a style with no declaration for this property yields nil and the generated accessor's type assertion panics")
		nm := nameOf[v]
		r1.Cond(nm != "" && nm == kebab(cn), "propsNames["+cn+"]", ivPos, fmt.Sprintf("%q", nm), fmt.Sprintf("name %q, expected %q", nm, kebab(cn)))
		r1.Cond(inv[nm] == v && nm != "", "PropsFromNames["+kebab(cn)+"]", ivPos, "maps back to "+cn, "does not map back to "+cn)
	}
	r1.Cond(len(ivKeys) == len(K), "InitialValues has no extra key", ivPos, fmt.Sprintf("%d keys", len(ivKeys)), fmt.Sprintf("%d keys for %d properties", len(ivKeys), len(K)))
	r1.Cond(len(inv) == len(K), "PropsFromNames has no extra key", ivPos, fmt.Sprintf("%d names", len(inv)), fmt.Sprintf("%d names for %d properties", len(inv), len(K)))
	inhSet := map[int64]bool{}
	for _, e := range inh {
		if e.Key == nil {
			continue
		}
		n, _ := constant.Int64Val(e.Key)
		inhSet[n] = true
		r1.Cond(K[n] != "", "Inherited member is a known property", pos(e.Val), K[n], "not a KnownProp in range")
	}
	for _, setName := range []string{"InitialNotComputed", "TableWrapperBoxProperties"} {
		t, err := p.Table("css/properties", setName)
		if err != nil {
			r1.Anchor("css/properties." + setName)
			continue
		}
		for _, e := range t {
			n := int64(-1)
			if e.Key != nil {
				n, _ = constant.Int64Val(e.Key)
			}
			r1.Cond(K[n] != "", setName+" member is a known property", pos(e.Val), K[n], "not a KnownProp in range")
		}
	}
	var css21Names []string
	for n := range css21Inherited {
		css21Names = append(css21Names, n)
	}
	sort.Strings(css21Names)
	for _, n := range css21Names {
		v, ok := inv[n]
		if !ok {
			continue // property not supported by this renderer (e.g. background-attachment exists, cursor does not)
		}
		want := css21Inherited[n]
		r1.Cond(inhSet[v] == want, "Inherited("+n+") = CSS 2.1 App. F", p.Pos(p.VarInit("css/properties", "Inherited").Pos()),
			fmt.Sprintf("inherited=%v", want), fmt.Sprintf("inherited=%v in the table, CSS 2.1 Appendix F says %v", inhSet[v], want))
	}

	// ---- R6 initial values = CSS 2.1
	r6 := c.Rule("R6", "for keyword-valued CSS 2.1 properties the InitialValues literal carries the Appendix F initial keyword", 31)
	var initNames []string
	for n := range css21Initial {
		initNames = append(initNames, n)
	}
	sort.Strings(initNames)
	for _, n := range initNames {
		v, ok := inv[n]
		if !ok {
			continue
		}
		e, ok := ivKeys[v]
		if !ok {
			continue // reported by R1
		}
		got, ok := firstStringConst(p.Info("css/properties"), e.Val)
		if !ok {
			// initial given by a named variable (zeroPixelsValue ...) : not keyword-valued here
			r6.Skip("InitialValues["+n+"]", pos(e.Val), "initial value is not written as a keyword literal")
			continue
		}
		r6.Cond(got == css21Initial[n], "InitialValues["+n+"]", pos(e.Val), fmt.Sprintf("%q", got), fmt.Sprintf("%q, CSS 2.1 Appendix F gives %q", got, css21Initial[n]))
	}

	// ---- R2 slot typing
	c04SlotTyping(c, K, ivKeys)

	// ---- R3 unit ratios
	c04Units(c)

	// ---- R4 enum arithmetic
	c04EnumArith(c, K, nameOf)

	// ---- R7 defaulting skeleton
	c04Skeleton(c)

	// ---- R8 relative units
	c04RelativeUnits(c)
	c04FontSizeArg(c)
	c04NoDeclarations(c)
	c04TwinComponents(c)

	// ---- R9 computed values are per element: a computer function never converts the declared value in place
	r9 := c.Rule("R9", "no computer function writes through the declared value it receives (it belongs to the stylesheet or to the initial values and is shared by every element the rule matches): otherwise the first element computed fixes the value of all the others", 34)
	{
		eng := core.NewEffectsEngine(p, func(fn *ssa.Function, in ssa.Instruction) bool {
			_, ok := c15WriteExempt[core.FuncName(fn)+" | "+p.StmtTextAt(fn, in.Pos())]
			return ok
		})
		if ctab, err := p.Table("html/tree", "tmp"); err != nil {
			r9.Anchor("html/tree computer table")
		} else {
			seen := map[*ssa.Function]bool{}
			for _, e := range ctab {
				f, ok := e.ValObj.(*types.Func)
				if !ok {
					continue
				}
				fn := p.SSA.FuncValue(f)
				if fn == nil || seen[fn] || len(fn.Params) != 3 {
					continue
				}
				seen[fn] = true
				ws := eng.WritesFrom(fn, func(v ssa.Value) bool { return v == ssa.Value(fn.Params[2]) })
				if len(ws) == 0 {
					r9.OK("computer "+fn.Name()+" does not write through its declared value", p.Pos(fn.Pos()), "no store, map update, copy or in-place append reaches memory derived from the _value parameter (callee summaries included)")
				}
				for _, w := range ws {
					r9.Fail(fmt.Sprintf("computer %s | %s", fn.Name(), p.StmtTextAt(fn, w.Instr.Pos())), p.Pos(w.Instr.Pos()), fmt.Sprintf("%s %s: every other element matched by the same rule then receives this element's computed value", w.What, w.Via))
				}
			}
		}
	}

	// ---- R5 root never dereferences its parent (H4)
	r5 := c.Rule("R5", "every method call through ComputedStyle.parentStyle (nil on the root element) is dominated by a test that it is not nil (`!= nil` or !isRootElement())", 4)
	parentNilGuard(c, r5)
}

// slotTypes computes T(P): the type asserted by Properties.GetP for each property value.
func slotTypes(p *core.Prog) map[int64]types.Type {
	out := map[int64]types.Type{}
	pk := p.ByPath["css/properties"]
	obj := pk.Types.Scope().Lookup("Properties")
	ms := p.SSA.MethodSets.MethodSet(obj.Type())
	for i := 0; i < ms.Len(); i++ {
		sel := ms.At(i)
		if !strings.HasPrefix(sel.Obj().Name(), "Get") {
			continue
		}
		fn := p.SSA.MethodValue(sel)
		if fn == nil {
			continue
		}
		var key int64 = -1
		var asserted types.Type
		core.Instrs(fn, func(in ssa.Instruction) {
			switch x := in.(type) {
			case *ssa.Lookup:
				if n, ok := core.ConstInt(x.Index); ok {
					key = n
				}
			case *ssa.TypeAssert:
				asserted = x.AssertedType
			}
		})
		if key >= 0 && asserted != nil {
			out[key] = asserted
		}
	}
	return out
}

func typeFits(t, slot types.Type) bool {
	if types.Identical(t, slot) {
		return true
	}
	if it, ok := slot.Underlying().(*types.Interface); ok {
		return types.Implements(t, it)
	}
	return false
}

func c04SlotTyping(c *core.Check, K map[int64]string, ivKeys map[int64]core.TableEntry) {
	p := c.Prog
	r2 := c.Rule("R2", "for every property P with accessor type T(P) (the type asserted by Properties.GetP): the InitialValues literal, every concrete type a validator of P can return (unless the computer of P asserts and converts it), every concrete type the computer of P can return, and AnonymousStyle's pre-seeded entries have type T(P); generated accessors of ComputedStyle/AnonymousStyle assert the same T(P)", 706)
	T := slotTypes(p)
	info := p.Info("css/properties")
	var vals []int64
	for v := range K {
		vals = append(vals, v)
	}
	sort.Slice(vals, func(i, j int) bool { return vals[i] < vals[j] })
	qual := func(t types.Type) string {
		return types.TypeString(t, func(pk *types.Package) string { return pk.Name() })
	}

	// validators / validatorsError / computers by property
	vtab, err1 := p.Table("css/validation", "validators")
	vetab, err2 := p.Table("css/validation", "validatorsError")
	ctab, err3 := p.Table("html/tree", "tmp")
	if err1 != nil || err2 != nil || err3 != nil {
		r2.Anchor(fmt.Sprintf("validators / validatorsError / computer table: %v %v %v", err1, err2, err3))
		return
	}
	funcOf := func(e core.TableEntry) *ssa.Function {
		if f, ok := e.ValObj.(*types.Func); ok {
			return p.SSA.FuncValue(f)
		}
		return nil
	}
	validatorsOf := map[int64][]*ssa.Function{}
	for _, tab := range [][]core.TableEntry{vtab, vetab} {
		for _, e := range tab {
			if e.Key == nil {
				continue
			}
			n, _ := constant.Int64Val(e.Key)
			if f := funcOf(e); f != nil {
				validatorsOf[n] = append(validatorsOf[n], f)
			} else {
				r2.Unknown("validator entry "+K[n], p.Pos(e.Val.Pos()), "table value is not a declared function")
			}
		}
	}
	computerOf := map[int64]*ssa.Function{}
	for _, e := range ctab {
		if e.Key == nil {
			continue
		}
		n, _ := constant.Int64Val(e.Key)
		if f := funcOf(e); f != nil {
			computerOf[n] = f
		} else {
			r2.Unknown("computer entry "+K[n], p.Pos(e.Val.Pos()), "table value is not a declared function")
		}
	}
	// the table named tmp must be what computerFunctions receives
	if initFn := p.Fn("html/tree", "init"); initFn != nil {
		ok := false
		g := p.Global("html/tree", "computerFunctions")
		gt := p.Global("html/tree", "tmp")
		for _, fn := range append([]*ssa.Function{initFn}, p.FuncsOfPkg("html/tree")...) {
			if !strings.HasPrefix(fn.Name(), "init") {
				continue
			}
			core.Instrs(fn, func(in ssa.Instruction) {
				if st, ok2 := in.(*ssa.Store); ok2 && st.Addr == g {
					if u, ok3 := st.Val.(*ssa.UnOp); ok3 && u.X == gt {
						ok = true
					}
				}
			})
		}
		r2.Cond(ok, "computerFunctions = tmp", p.Pos(initFn.Pos()), "init stores the literal table into computerFunctions", "computerFunctions is not filled from the analysed literal table")
	}

	// special validator for color handled in ValidateKnown
	colorFn := p.Fn("css/validation", "color")
	for _, v := range vals {
		cn := K[v]
		slot := T[v]
		if slot == nil {
			r2.Fail("accessor type of "+cn, "-", "no Properties.Get accessor with a type assertion for this property")
			continue
		}
		if e, ok := ivKeys[v]; ok {
			tv := info.Types[e.Val]
			r2.Cond(tv.Type != nil && typeFits(tv.Type, slot), "InitialValues["+cn+"] : "+qual(slot), p.Pos(e.Val.Pos()), "literal has type "+qual(tv.Type), fmt.Sprintf("literal has type %s, accessor asserts %s", qual(tv.Type), qual(slot)))
		}
		comp := computerOf[v]
		var accepted []types.Type
		if comp != nil && len(comp.Params) == 3 {
			accepted = core.AssertedTypes(comp, comp.Params[2])
			// follow one level of delegation: return other(computer, name, _value)
			core.Instrs(comp, func(in ssa.Instruction) {
				if call, ok := in.(*ssa.Call); ok {
					if callee := call.Common().StaticCallee(); callee != nil && len(callee.Params) == 3 && len(call.Call.Args) == 3 && call.Call.Args[2] == comp.Params[2] {
						accepted = append(accepted, core.AssertedTypes(callee, callee.Params[2])...)
					}
				}
			})
		}
		fns := validatorsOf[v]
		if cn == "PColor" && colorFn != nil {
			fns = []*ssa.Function{colorFn}
		}
		for _, vf := range fns {
			ts := core.ReturnTypes(vf, 0)
			key := fmt.Sprintf("validator %s of %s : %s", vf.Name(), cn, qual(slot))
			if len(ts.Unknown) > 0 {
				r2.Unknown(key, p.Pos(vf.Pos()), "cannot enumerate returned types: "+ts.Unknown[0])
				continue
			}
			var bad []string
			var tnames []string
			for _, t := range ts.Types {
				tnames = append(tnames, qual(t))
				if strings.HasSuffix(qual(t), "properties.DefaultValue") {
					continue // inherit / initial markers are resolved by cascadeValue before the slot is written
				}
				if typeFits(t, slot) {
					continue
				}
				okc := false
				for _, a := range accepted {
					if typeFits(t, a) {
						okc = true
					}
				}
				if !okc {
					bad = append(bad, qual(t))
				}
			}
			sort.Strings(tnames)
			sort.Strings(bad)
			r2.Cond(len(bad) == 0, key, p.Pos(vf.Pos()), "returns "+strings.Join(tnames, ", "),
				fmt.Sprintf("can return %s, which is neither the accessor type nor a type the property's computer function converts: the generated accessor's unchecked assertion panics", strings.Join(bad, ", ")))
		}
		if comp != nil {
			ts := core.ReturnTypes(comp, 0)
			key := fmt.Sprintf("computer %s of %s : %s", comp.Name(), cn, qual(slot))
			// a computer may return its input unchanged: that input has a validator type or the slot type
			var bad, tnames []string
			unknown := ""
			for _, u := range ts.Unknown {
				if strings.Contains(u, "parameter") || strings.Contains(u, "_value") {
					continue
				}
				unknown = u
			}
			for _, t := range ts.Types {
				tnames = append(tnames, qual(t))
				if !typeFits(t, slot) {
					bad = append(bad, qual(t))
				}
			}
			sort.Strings(tnames)
			if unknown != "" {
				r2.Unknown(key, p.Pos(comp.Pos()), "cannot enumerate returned types: "+unknown)
			} else {
				r2.Cond(len(bad) == 0, key, p.Pos(comp.Pos()), "returns "+strings.Join(tnames, ", "), "can return "+strings.Join(bad, ", ")+" into a slot read as "+qual(slot))
			}
		}
	}

	// generated accessors on the two style types assert the same type
	for _, tn := range []string{"ComputedStyle", "AnonymousStyle"} {
		obj := p.Obj("html/tree", tn)
		if obj == nil {
			r2.Anchor("html/tree." + tn)
			continue
		}
		ms := p.SSA.MethodSets.MethodSet(types.NewPointer(obj.Type()))
		n := 0
		for i := 0; i < ms.Len(); i++ {
			sel := ms.At(i)
			name := sel.Obj().Name()
			if !strings.HasPrefix(name, "Get") || name == "Get" {
				continue
			}
			fn := p.SSA.MethodValue(sel)
			if fn == nil || fn.Synthetic != "" {
				continue
			}
			var key int64 = -1
			var asserted types.Type
			core.Instrs(fn, func(in ssa.Instruction) {
				switch x := in.(type) {
				case *ssa.Call:
					if callee := x.Common().StaticCallee(); callee != nil && callee.Name() == "Key" && len(x.Call.Args) == 1 {
						if k, ok := core.ConstInt(x.Call.Args[0]); ok {
							key = k
						}
					}
				case *ssa.TypeAssert:
					asserted = x.AssertedType
				}
			})
			if key < 0 || asserted == nil {
				continue
			}
			n++
			r2.Cond(T[key] != nil && types.Identical(T[key], asserted), fmt.Sprintf("(*%s).%s asserts T(%s)", tn, name, K[key]), p.Pos(fn.Pos()),
				qual(asserted), fmt.Sprintf("asserts %s, Properties accessor asserts %v", qual(asserted), T[key]))
		}
		if n < len(K)-5 {
			r2.Fail(tn+" accessor coverage", "-", fmt.Sprintf("only %d typed accessors found for %d properties", n, len(K)))
		}
	}
	// AnonymousStyle pre-seeded entries
	if nas := p.Fn("html/tree", "newAnonymousStyle"); nas != nil {
		setFn := p.Method("html/tree", "propsCache", "Set")
		core.Instrs(nas, func(in ssa.Instruction) {
			call, ok := in.(*ssa.Call)
			if !ok || call.Common().StaticCallee() != setFn || len(call.Call.Args) != 3 {
				return
			}
			var key int64 = -1
			core.DerivesFrom(call.Call.Args[1], func(v ssa.Value) bool {
				if cc, ok := v.(*ssa.Call); ok && len(cc.Call.Args) == 1 {
					if k, ok := core.ConstInt(cc.Call.Args[0]); ok {
						key = k
					}
				}
				return false
			})
			ts := core.ConcreteTypes(call.Call.Args[2])
			okAll := key >= 0 && len(ts.Unknown) == 0
			var tn []string
			for _, t := range ts.Types {
				tn = append(tn, qual(t))
				if T[key] == nil || !typeFits(t, T[key]) {
					okAll = false
				}
			}
			r2.Cond(okAll, "newAnonymousStyle pre-seeds "+K[key], p.Pos(call.Pos()), "value type "+strings.Join(tn, ","), "value type "+strings.Join(tn, ",")+" does not fit the accessor type")
		})
	}
}

func ratOf(v constant.Value) *big.Rat {
	r, ok := new(big.Rat).SetString(v.ExactString())
	if !ok {
		return nil
	}
	return r
}

func c04Units(c *core.Check) {
	p := c.Prog
	r3 := c.Rule("R3", "LengthsToPixels = {px:1, pt:96/72, pc:16, in:96, cm:96/2.54, mm:96/25.4, q:96/101.6} (compared as exact rationals after rounding to float32, the table's element type); the absolute-unit cases of tree.length_ are exactly its keys; every unit in validation.LENGTHUNITS has a case in length_", 37)
	unitConsts := p.ConstsOfType("css/properties", "Unit")
	unitName := map[int64]string{}
	for v, k := range unitConsts {
		unitName[v] = k.Name()
	}
	want := map[string]*big.Rat{
		"Px": big.NewRat(1, 1), "Pt": big.NewRat(96, 72), "Pc": big.NewRat(16, 1), "In": big.NewRat(96, 1),
		"Cm": new(big.Rat).Quo(big.NewRat(96, 1), big.NewRat(254, 100)), "Mm": new(big.Rat).Quo(big.NewRat(96, 1), big.NewRat(254, 10)),
		"Q": new(big.Rat).Quo(big.NewRat(96, 1), big.NewRat(1016, 10)),
	}
	tab, err := p.Table("css/properties", "LengthsToPixels")
	if err != nil {
		r3.Anchor("css/properties.LengthsToPixels")
		return
	}
	info := p.Info("css/properties")
	f32 := func(r *big.Rat) float32 { f, _ := r.Float32(); return f }
	seen := map[string]bool{}
	for _, e := range tab {
		if e.Key == nil {
			r3.Fail("LengthsToPixels key", p.Pos(e.KeyExpr.Pos()), "non-constant key")
			continue
		}
		n, _ := constant.Int64Val(e.Key)
		un := unitName[n]
		seen[un] = true
		v := core.ConstOf(info, e.Val)
		w := want[un]
		if v == nil || w == nil {
			r3.Fail("LengthsToPixels["+un+"]", p.Pos(e.Val.Pos()), "unexpected unit or non-constant ratio")
			continue
		}
		got := ratOf(constant.ToFloat(v))
		r3.Cond(got != nil && f32(got) == f32(w), "LengthsToPixels["+un+"]", p.Pos(e.Val.Pos()), fmt.Sprintf("%s = %s px (float32 %v)", un, w.FloatString(6), f32(w)),
			fmt.Sprintf("%v px, CSS fixes 1%s = %s px", v, strings.ToLower(un), w.FloatString(6)))
	}
	for un := range want {
		r3.Cond(seen[un], "LengthsToPixels has "+un, p.Pos(p.VarInit("css/properties", "LengthsToPixels").Pos()), "present", "missing absolute unit")
	}
	// cases of length_
	lf := p.Fn("html/tree", "length_")
	if lf == nil {
		r3.Anchor("html/tree.length_")
		return
	}
	cases := map[string]bool{}
	for _, cv := range core.ComparedConsts(lf, func(v ssa.Value) bool {
		return core.IsFieldNamed(v, "Unit")
	}) {
		if n, ok := constant.Int64Val(cv); ok {
			cases[unitName[n]] = true
		}
	}
	lu, err := p.Table("css/validation", "LENGTHUNITS")
	if err != nil {
		r3.Anchor("css/validation.LENGTHUNITS")
		return
	}
	vinfo := p.Info("css/validation")
	for _, e := range lu {
		v := core.ConstOf(vinfo, e.Val)
		if v == nil {
			r3.Fail("LENGTHUNITS value", p.Pos(e.Val.Pos()), "non-constant unit")
			continue
		}
		n, _ := constant.Int64Val(v)
		un := unitName[n]
		r3.Cond(cases[un], "length_ handles unit "+un+" ("+constant.StringVal(e.Key)+")", p.Pos(lf.Pos()), "case present",
			"validators accept this unit but length_ has no case for it: the value would be kept unconverted like a percentage")
		lower := strings.ToLower(un)
		r3.Cond(constant.StringVal(e.Key) == lower, "LENGTHUNITS["+constant.StringVal(e.Key)+"] = "+un, p.Pos(e.Val.Pos()), "unit name matches its constant", "unit string mapped to the wrong unit constant "+un)
	}
	for un := range want {
		if un == "Px" {
			continue
		}
		r3.Cond(cases[un], "length_ converts absolute unit "+un, p.Pos(lf.Pos()), "case present", "no case")
	}
}

func c04EnumArith(c *core.Check, K map[int64]string, nameOf map[int64]string) {
	p := c.Prog
	r4 := c.Rule("R4", "the enum layout relied upon by arithmetic on property ids holds: PBorderBottomColor+5*side+{0..4} are the color/style/width/margin/padding of sides bottom,left,right,top; PMinX = PX+2 and PMaxX = PX+4 for width/height; border-*-width - 1 is the matching border-*-style; the text-decoration range holds exactly the text-decoration-* properties", 28)
	byName := map[string]int64{}
	for v, n := range nameOf {
		byName[n] = v
	}
	pos := "css/properties/properties.go"
	base, ok := byName["border-bottom-color"]
	if !ok {
		r4.Anchor("border-bottom-color")
		return
	}
	sides := []string{"bottom", "left", "right", "top"}
	parts := []string{"border-%s-color", "border-%s-style", "border-%s-width", "margin-%s", "padding-%s"}
	for si, s := range sides {
		for pi, pt := range parts {
			want := fmt.Sprintf(pt, s)
			got := nameOf[base+int64(5*si+pi)]
			r4.Cond(got == want, fmt.Sprintf("PBorderBottomColor+5*%d+%d", si, pi), pos, got, fmt.Sprintf("is %q, the side arithmetic expects %q", got, want))
		}
	}
	for _, d := range []string{"width", "height"} {
		b := byName[d]
		r4.Cond(nameOf[b+2] == "min-"+d, "P"+d+"+2", pos, nameOf[b+2], "expected min-"+d)
		r4.Cond(nameOf[b+4] == "max-"+d, "P"+d+"+4", pos, nameOf[b+4], "expected max-"+d)
	}
	for _, w := range []string{"border-top-width", "border-right-width", "border-bottom-width", "border-left-width", "column-rule-width", "outline-width"} {
		b, ok := byName[w]
		if !ok {
			continue
		}
		r4.Cond(nameOf[b-1] == strings.Replace(w, "-width", "-style", 1), w+" - 1", pos, nameOf[b-1], "expected "+strings.Replace(w, "-width", "-style", 1)+" (borderWidth reads the style at name-1)")
	}
	lo, hi := byName["text-decoration-line"], byName["text-decoration-style"]
	okRange := lo > 0 && hi >= lo
	for v := lo; okRange && v <= hi; v++ {
		if !strings.HasPrefix(nameOf[v], "text-decoration-") {
			okRange = false
		}
	}
	for n, v := range byName {
		if strings.HasPrefix(n, "text-decoration-") && (v < lo || v > hi) {
			okRange = false
		}
	}
	r4.Cond(okRange, "IsTextDecoration range", pos, fmt.Sprintf("[%d,%d] holds exactly text-decoration-*", lo, hi), "the range PTextDecorationLine..PTextDecorationStyle does not hold exactly the text-decoration-* properties")
	// the arithmetic sites themselves still use these offsets
	bw := p.Fn("html/tree", "borderWidth")
	if bw == nil {
		r4.Anchor("html/tree.borderWidth")
		return
	}
	found := false
	core.Instrs(bw, func(in ssa.Instruction) {
		if b, ok := in.(*ssa.BinOp); ok && b.Op == token.SUB {
			if n, ok := core.ConstInt(b.Y); ok && n == 1 && b.X == bw.Params[1] {
				found = true
			}
		}
	})
	r4.Cond(found, "borderWidth reads style at name-1", p.Pos(bw.Pos()), "name - 1 found", "the style lookup no longer uses name-1: the layout rule above is not what this function relies on (re-read)")
}

// requireGuard decides whether every forward path to site satisfies formula over named atoms.
// classify names an If-condition atom ("" = irrelevant). A name starting with "@" denotes a pure
// predicate: all atoms with that name share one truth value (two calls of isRootElement() on the
// same receiver agree). A leading "!" means the atom is the negation of the named predicate.
// Other names get an ordinal suffix (#2, #3...) when they repeat.
func requireGuard(fn *ssa.Function, site *ssa.BasicBlock, classify func(ssa.Value) string, formula func(map[string]bool) bool) (bool, string) {
	type member struct {
		atom ssa.Value
		neg  bool
	}
	groups := map[string][]member{}
	var order []string
	count := map[string]int{}
	for _, a := range core.CondAtomsReaching(fn, site) {
		n := classify(a)
		if n == "" {
			continue
		}
		neg := false
		if strings.HasPrefix(n, "!") {
			neg = true
			n = n[1:]
		}
		if !strings.HasPrefix(n, "@") {
			count[n]++
			if count[n] > 1 {
				n = fmt.Sprintf("%s#%d", n, count[n])
			}
		}
		if _, ok := groups[n]; !ok {
			order = append(order, n)
		}
		groups[n] = append(groups[n], member{a, neg})
	}
	if len(order) > 16 {
		return false, "too many guard atoms"
	}
	for mask := 0; mask < 1<<len(order); mask++ {
		env := map[string]bool{}
		assign := map[ssa.Value]bool{}
		for i, n := range order {
			v := mask&(1<<i) != 0
			env[strings.TrimPrefix(n, "@")] = v
			for _, m := range groups[n] {
				assign[m.atom] = v != m.neg
			}
		}
		if formula(env) {
			continue
		}
		if core.ForwardReach(fn.Blocks[0], assign, nil)[site] {
			var parts []string
			for k, v := range env {
				parts = append(parts, fmt.Sprintf("%s=%v", k, v))
			}
			sort.Strings(parts)
			return false, strings.Join(parts, " ")
		}
	}
	return true, ""
}

func isDefaultValueConst(v ssa.Value, want int64) bool {
	mi, ok := v.(*ssa.MakeInterface)
	if !ok {
		return false
	}
	k, ok := mi.X.(*ssa.Const)
	if !ok || !strings.HasSuffix(k.Type().String(), "properties.DefaultValue") {
		return false
	}
	n, ok := core.ConstInt(k)
	return ok && n == want
}

func c04Skeleton(c *core.Check) {
	p := c.Prog
	r7 := c.Rule("R7", "defaulting skeleton of (*ComputedStyle).cascadeValue and (*AnonymousStyle).Get: with no cascaded entry the value is Inherit iff Inherited.Has(key.KnownProp) || key.Var != \"\" and Initial otherwise; on the root Inherit becomes Initial; Initial is replaced by InitialValues[key.KnownProp]; Inherit by parentStyle.Get(key)", 8)
	cv := p.Method("html/tree", "ComputedStyle", "cascadeValue")
	if cv == nil {
		r7.Anchor("html/tree.(*ComputedStyle).cascadeValue")
		return
	}
	dv := p.ConstsOfType("css/properties", "DefaultValue")
	var inheritV, initialV int64 = -1, -1
	for v, k := range dv {
		switch k.Name() {
		case "Inherit":
			inheritV = v
		case "Initial":
			initialV = v
		}
	}
	if inheritV < 0 || initialV < 0 {
		r7.Anchor("css/properties.Inherit / Initial")
		return
	}
	hasFn := p.Method("css/properties", "SetK", "Has")
	inheritedG := p.Global("css/properties", "Inherited")
	initialValuesG := p.Global("css/properties", "InitialValues")
	isRoot := p.Method("html/tree", "ComputedStyle", "isRootElement")
	classify := func(fn *ssa.Function) func(a ssa.Value) string {
		return func(a ssa.Value) string {
			if call, ok := a.(*ssa.Call); ok {
				if call.Common().StaticCallee() == hasFn && len(call.Call.Args) == 2 {
					if u, ok := call.Call.Args[0].(*ssa.UnOp); ok && u.X == inheritedG {
						return "inherited"
					}
				}
				if call.Common().StaticCallee() == isRoot {
					return "@root"
				}
			}
			if ex, ok := a.(*ssa.Extract); ok && ex.Index == 1 {
				if l, ok := ex.Tuple.(*ssa.Lookup); ok && l.CommaOk {
					if mt, ok := l.X.Type().Underlying().(*types.Map); ok && strings.HasSuffix(mt.Elem().String(), "weigthedValue") {
						return "cascaded"
					}
				}
			}
			if b, ok := a.(*ssa.BinOp); ok && (b.Op == token.NEQ || b.Op == token.EQL) {
				if s, ok := core.ConstStr(b.Y); ok && s == "" {
					if core.DerivesFrom(b.X, func(v ssa.Value) bool {
						f, ok := v.(*ssa.Field)
						if ok {
							st := f.X.Type().Underlying().(*types.Struct)
							return st.Field(f.Field).Name() == "Var"
						}
						fa, ok := v.(*ssa.FieldAddr)
						if ok {
							st := fa.X.Type().Underlying().(*types.Pointer).Elem().Underlying().(*types.Struct)
							return st.Field(fa.Field).Name() == "Var"
						}
						return false
					}) {
						if b.Op == token.NEQ {
							return "isvar"
						}
						return "notvar"
					}
				}
				if b.Op == token.EQL {
					if isDefaultValueConst(b.Y, inheritV) || isDefaultValueConst(b.X, inheritV) {
						return "isInherit"
					}
					if isDefaultValueConst(b.Y, initialV) || isDefaultValueConst(b.X, initialV) {
						return "isInitial"
					}
				}
				// parentStyle == nil
				isNil := func(v ssa.Value) bool { k, ok := v.(*ssa.Const); return ok && k.Value == nil }
				if isNil(b.Y) || isNil(b.X) {
					o := b.X
					if isNil(b.X) {
						o = b.Y
					}
					if isParentStyleLoad(o) {
						if b.Op == token.EQL {
							return "@root"
						}
						return "!@root"
					}
				}
			}
			return ""
		}
	}
	anyOf := func(env map[string]bool, prefix string) bool {
		for k, v := range env {
			if v && (k == prefix || strings.HasPrefix(k, prefix+"#")) {
				return true
			}
		}
		return false
	}
	noneOf := func(env map[string]bool, prefix string) bool {
		for k, v := range env {
			if v && (k == prefix || strings.HasPrefix(k, prefix+"#")) {
				return false
			}
		}
		return true
	}
	// assignments of the Inherit / Initial markers = MakeInterface constants that flow to a phi (not to a comparison)
	type assign struct {
		mi   *ssa.MakeInterface
		what string
	}
	var assigns []assign
	core.Instrs(cv, func(in ssa.Instruction) {
		mi, ok := in.(*ssa.MakeInterface)
		if !ok {
			return
		}
		var what string
		if isDefaultValueConst(mi, inheritV) {
			what = "Inherit"
		} else if isDefaultValueConst(mi, initialV) {
			what = "Initial"
		} else {
			return
		}
		isAssign := false
		if mi.Referrers() != nil {
			for _, r := range *mi.Referrers() {
				switch r.(type) {
				case *ssa.Phi, *ssa.Store, *ssa.Return:
					isAssign = true
				}
			}
		}
		if isAssign {
			assigns = append(assigns, assign{mi, what})
		}
	})
	cl := classify(cv)
	nInherit, nInitialDefault, nInitialRoot := 0, 0, 0
	for _, a := range assigns {
		// the block where the assignment takes effect: the predecessor edge of the phi; MakeInterface sits in that block
		blk := a.mi.Block()
		pos := p.Pos(cv.Pos())
		switch a.what {
		case "Inherit":
			ok, cex := requireGuard(cv, blk, cl, func(env map[string]bool) bool {
				return !env["cascaded"] && (anyOf(env, "inherited") || anyOf(env, "isvar")) && noneOf(env, "notvar") || (!env["cascaded"] && anyOf(env, "inherited"))
			})
			nInherit++
			r7.Cond(ok, "cascadeValue: value = Inherit only for inherited properties / custom properties without cascaded entry", pos,
				"assignment is reachable only with !cascaded && (Inherited.Has(key.KnownProp) || key.Var != \"\")", "assignment reachable with "+cex)
		case "Initial":
			okDef, _ := requireGuard(cv, blk, cl, func(env map[string]bool) bool {
				return !env["cascaded"] && noneOf(env, "inherited") && noneOf(env, "isvar")
			})
			okRoot, cex := requireGuard(cv, blk, cl, func(env map[string]bool) bool {
				return anyOf(env, "isInherit") && anyOf(env, "root")
			})
			if okDef {
				nInitialDefault++
				r7.OK("cascadeValue: value = Initial for non-inherited properties without cascaded entry", pos, "assignment reachable only with !cascaded && !Inherited.Has && key.Var == \"\"")
			} else if okRoot {
				nInitialRoot++
				r7.OK("cascadeValue: Inherit becomes Initial on the root", pos, "assignment reachable only with value == Inherit && isRootElement()")
			} else {
				r7.Fail("cascadeValue: value = Initial", pos, "an assignment of Initial is reachable outside the two CSS cases (non-inherited default; inherit on the root): "+cex)
			}
		}
	}
	r7.Cond(nInherit >= 1, "cascadeValue assigns Inherit by default", p.Pos(cv.Pos()), fmt.Sprint(nInherit), "no default assignment of Inherit found")
	r7.Cond(nInitialDefault >= 1, "cascadeValue assigns Initial by default", p.Pos(cv.Pos()), fmt.Sprint(nInitialDefault), "no default assignment of Initial found")
	r7.Cond(nInitialRoot >= 1, "cascadeValue turns Inherit into Initial on the root", p.Pos(cv.Pos()), fmt.Sprint(nInitialRoot), "no root rule found")

	// Initial -> InitialValues[key.KnownProp]; Inherit -> parentStyle.Get(key)
	keyKnownProp := func(v ssa.Value) bool {
		return core.DerivesFrom(v, func(x ssa.Value) bool {
			pa, ok := x.(*ssa.Parameter)
			return ok && pa.Name() == "key"
		})
	}
	nInitLookup, nParentGet := 0, 0
	core.Instrs(cv, func(in ssa.Instruction) {
		switch x := in.(type) {
		case *ssa.Lookup:
			if u, ok := x.X.(*ssa.UnOp); ok && u.X == initialValuesG && keyKnownProp(x.Index) {
				ok2, _ := requireGuard(cv, x.Block(), cl, func(env map[string]bool) bool { return anyOf(env, "isInitial") })
				if ok2 {
					nInitLookup++
				}
			}
		case *ssa.Call:
			if x.Common().IsInvoke() && x.Common().Method.Name() == "Get" && isParentStyleLoad(x.Common().Value) && len(x.Call.Args) == 1 && keyKnownProp(x.Call.Args[0]) {
				ok2, _ := requireGuard(cv, x.Block(), cl, func(env map[string]bool) bool { return anyOf(env, "isInherit") })
				if ok2 {
					nParentGet++
				}
			}
		}
	})
	r7.Cond(nInitLookup >= 1, "cascadeValue: Initial → InitialValues[key.KnownProp]", p.Pos(cv.Pos()), "lookup with the same key under value == Initial", "no lookup of InitialValues[key.KnownProp] guarded by value == Initial")
	r7.Cond(nParentGet >= 1, "cascadeValue: Inherit → parentStyle.Get(key)", p.Pos(cv.Pos()), "parentStyle.Get(key) under value == Inherit", "no parentStyle.Get(key) guarded by value == Inherit")

	// AnonymousStyle.Get: inherited -> parentStyle.Get(key); else InitialValues[key.KnownProp]
	ag := p.Method("html/tree", "AnonymousStyle", "Get")
	if ag == nil {
		r7.Anchor("html/tree.(*AnonymousStyle).Get")
		return
	}
	cl2 := classify(ag)
	okInh, okInit := false, false
	core.Instrs(ag, func(in ssa.Instruction) {
		switch x := in.(type) {
		case *ssa.Lookup:
			if u, ok := x.X.(*ssa.UnOp); ok && u.X == initialValuesG && keyKnownProp(x.Index) {
				// the plain initial value: guarded by !inherited && !isvar
				if ok2, _ := requireGuard(ag, x.Block(), cl2, func(env map[string]bool) bool { return noneOf(env, "inherited") && noneOf(env, "isvar") }); ok2 {
					okInit = true
				}
			}
		case *ssa.Call:
			if x.Common().IsInvoke() && x.Common().Method.Name() == "Get" && len(x.Call.Args) == 1 && keyKnownProp(x.Call.Args[0]) {
				if ok2, _ := requireGuard(ag, x.Block(), cl2, func(env map[string]bool) bool { return anyOf(env, "inherited") || anyOf(env, "isvar") }); ok2 {
					okInh = true
				}
			}
		}
	})
	r7.Cond(okInh, "AnonymousStyle.Get: inherited → parentStyle.Get(key)", p.Pos(ag.Pos()), "guarded by Inherited.Has(key.KnownProp) || key.Var != \"\"", "no such guarded call")
	r7.Cond(okInit, "AnonymousStyle.Get: otherwise InitialValues[key.KnownProp]", p.Pos(ag.Pos()), "guarded by the negation", "no such guarded lookup")
}

// isParentStyleLoad: v is a load of the parentStyle field of a style object (directly or via a local copy).
func isParentStyleLoad(v ssa.Value) bool {
	return core.DerivesFrom(v, func(x ssa.Value) bool {
		fa, ok := x.(*ssa.FieldAddr)
		if !ok {
			return false
		}
		pt, ok := fa.X.Type().Underlying().(*types.Pointer)
		if !ok {
			return false
		}
		st, ok := pt.Elem().Underlying().(*types.Struct)
		return ok && st.Field(fa.Field).Name() == "parentStyle"
	}) && isInterface(v)
}

func isInterface(v ssa.Value) bool {
	_, ok := v.Type().Underlying().(*types.Interface)
	return ok
}

func c04RelativeUnits(c *core.Check) {
	p := c.Prog
	r8 := c.Rule("R8", "tree.length_, folded as a polynomial for each unit constant: em = value·fontSize argument (or the element's computed font size when the argument is negative), rem = value·root font size, ex/ch = value·fontSize·CharacterRatio(isCh=false/true), absolute units = value·LengthsToPixels[unit], px unchanged; all results in px", 20)
	lf := p.Fn("html/tree", "length_")
	charRatio := p.Fn("text", "CharacterRatio")
	l2p := p.Global("css/properties", "LengthsToPixels")
	if lf == nil || charRatio == nil || l2p == nil {
		r8.Anchor("html/tree.length_ / text.CharacterRatio / LengthsToPixels")
		return
	}
	unitConsts := p.ConstsOfType("css/properties", "Unit")
	unitVal := map[string]int64{}
	for v, k := range unitConsts {
		unitVal[k.Name()] = v
	}
	getFontSize := p.Method("html/tree", "ComputedStyle", "GetFontSize")
	type tc struct {
		unit   string
		fsNeg  bool
		expect string
	}
	v := core.SymP("v")
	dimOrS := lf.Params[1].Type()
	dimT := p.Obj("css/properties", "Dimension").Type()
	mk := func(unit string, fsNeg, isRoot bool) (core.AV, error) {
		f := &core.Folder{MaxDepth: 4}
		f.Cmp = func(op token.Token, x, y core.AV) (bool, bool) {
			// value.Value == 0 -> false ; fontSize < 0 -> fsNeg ; interface nil tests -> treat as nil (no text context)
			if px, ok := x.(core.Poly); ok {
				switch px.String() {
				case "v":
					return op == token.NEQ, true
				case "fs":
					if op == token.LSS {
						return fsNeg, true
					}
				}
			}
			if _, ok := y.(core.NilV); ok {
				return op == token.EQL, true
			}
			return false, false
		}
		f.Call = func(_ *core.Folder, call *ssa.Call, args []core.AV) (core.AV, bool) {
			if cal := call.Common().StaticCallee(); cal != nil && cal.Name() == "isRootElement" {
				return core.BoolV(isRoot), true
			}
			switch call.Common().StaticCallee() {
			case charRatio:
				if b, ok := args[2].(core.BoolV); ok {
					return core.SymP(fmt.Sprintf("ratio(isCh=%v)", bool(b))), true
				}
			case getFontSize:
				if getFontSize != nil {
					// DimOrS{Dimension{Value, Unit}, S}
					return core.StructAV(dimOrS, map[string]core.AV{"Dimension": core.StructAV(dimT, map[string]core.AV{"Value": core.SymP("ownFontSize"), "Unit": core.Num(unitVal["Px"])})}), true
				}
			}
			if call.Common().IsInvoke() {
				return core.NilV{}, true
			}
			return nil, false
		}
		f.Lookup = func(x *ssa.Lookup, m, k core.AV) (core.AV, bool) {
			if u, ok := x.X.(*ssa.UnOp); ok && u.X == l2p {
				if pk, ok := k.(core.Poly); ok {
					return core.SymP("L2P[" + pk.String() + "]"), true
				}
			}
			return nil, false
		}
		f.Global = func(g *ssa.Global) (core.AV, bool) {
			if g.Name() == "ZeroPixels" {
				return core.Ptr{C: &core.Cell{V: core.StructAV(dimT, map[string]core.AV{"Unit": core.Num(unitVal["Px"])})}}, true
			}
			return core.Ptr{C: &core.Cell{V: core.TopV{Why: "global"}}}, true
		}
		value := core.StructAV(dimOrS, map[string]core.AV{"Dimension": core.StructAV(dimT, map[string]core.AV{"Value": v, "Unit": core.Num(unitVal[unit])})})
		comp := core.SymOf(lf.Params[0].Type(), "c")
		res, err := f.Fold(lf, []core.AV{comp, value, core.SymP("fs"), core.BoolV(false)})
		if err != nil {
			return nil, err
		}
		return res[0], nil
	}
	isRoot := false
	check := func(unit string, fsNeg bool, want core.Poly, wantUnit string, what string) {
		key := fmt.Sprintf("length_ unit=%s fontSizeArg<0=%v", unit, fsNeg)
		if isRoot {
			key += " on the root element"
		}
		res, err := mk(unit, fsNeg, isRoot)
		if err != nil {
			r8.Unknown(key, p.Pos(lf.Pos()), err.Error())
			return
		}
		val, ok1 := core.FieldAV(res, dimOrS, "Dimension", "Value").(core.Poly)
		un, ok2 := core.FieldAV(res, dimOrS, "Dimension", "Unit").(core.Poly)
		if !ok1 || !ok2 {
			r8.Unknown(key, p.Pos(lf.Pos()), "non-polynomial result "+core.AVString(res))
			return
		}
		okv := val.Equal(want) && un.Equal(core.Num(unitVal[wantUnit]))
		r8.Cond(okv, key, p.Pos(lf.Pos()), fmt.Sprintf("= %s %s (%s)", val.String(), wantUnit, what), fmt.Sprintf("folds to %s (unit %s), CSS requires %s in %s", val.String(), un.String(), want.String(), wantUnit))
	}
	fs := core.SymP("fs")
	own := core.SymP("ownFontSize")
	rootFS := core.SymP("c.rootStyle.fontSize.Dimension.Value")
	for _, neg := range []bool{false, true} {
		base := fs
		if neg {
			base = own
		}
		check("Em", neg, v.Mul(base), "Px", "value × font size")
		check("Ex", neg, v.Mul(base).Mul(core.SymP("ratio(isCh=false)")), "Px", "value × font size × x-height ratio")
		check("Ch", neg, v.Mul(base).Mul(core.SymP("ratio(isCh=true)")), "Px", "value × font size × 0-advance ratio")
		check("Rem", neg, v.Mul(rootFS), "Px", "value × root font size")
	}
	// on the root element itself: rem refers to the initial value in font-size only (the font size handed in is the
	// parent's, i.e. not negative, and rootStyle holds the initial value there); in every other property it is the
	// root's own computed font size
	isRoot = true
	check("Rem", true, v.Mul(own), "Px", "value × the root's own font size")
	check("Rem", false, v.Mul(rootFS), "Px", "value × rootStyle font size (the initial value, for font-size on the root)")
	check("Em", true, v.Mul(own), "Px", "value × font size")
	isRoot = false
	for _, u := range []string{"Pt", "Pc", "In", "Cm", "Mm", "Q"} {
		check(u, false, v.Mul(core.SymP(fmt.Sprintf("L2P[%d]", unitVal[u]))), "Px", "value × LengthsToPixels[unit]")
	}
	check("Px", false, v, "Px", "unchanged")
	check("Perc", false, v, "Perc", "percentages are kept for layout")

	// font-size computer: em / % are relative to the parent's font size
	fsz := p.Fn("html/tree", "fontSize")
	if fsz == nil {
		r8.Anchor("html/tree.fontSize")
		return
	}
	// every call to length_ in fontSize passes a font size derived from the parent style (or the initial value), never computer.GetFontSize()
	nCalls := 0
	core.Instrs(fsz, func(in ssa.Instruction) {
		call, ok := in.(*ssa.Call)
		if !ok || call.Common().StaticCallee() != lf {
			return
		}
		nCalls++
		fromParent := core.DerivesFrom(call.Call.Args[2], func(x ssa.Value) bool {
			if cc, ok := x.(*ssa.Call); ok {
				if cc.Common().IsInvoke() && cc.Common().Method.Name() == "GetFontSize" && isParentStyleLoad(cc.Common().Value) {
					return true
				}
				if callee := cc.Common().StaticCallee(); callee != nil && callee.Name() == "GetFontSize" {
					// InitialValues.GetFontSize()
					if len(cc.Call.Args) == 1 {
						if u, ok := cc.Call.Args[0].(*ssa.UnOp); ok {
							if g, ok := u.X.(*ssa.Global); ok && g.Name() == "InitialValues" {
								return true
							}
						}
					}
				}
			}
			return false
		})
		r8.Cond(fromParent, "fontSize: em/ex are relative to the parent's font size", p.Pos(call.Pos()), "font-size argument of length_ derives from parentStyle.GetFontSize() / InitialValues.GetFontSize()", "font-size argument does not derive from the parent's computed font size")
	})
	r8.Cond(nCalls >= 1, "fontSize calls length_", p.Pos(fsz.Pos()), fmt.Sprint(nCalls), "no call to length_ in the font-size computer")
	// a percentage font-size is a percentage of the parent's font size
	isParentFS := func(x ssa.Value) bool {
		if cc, ok := x.(*ssa.Call); ok {
			if cc.Common().IsInvoke() && cc.Common().Method.Name() == "GetFontSize" && isParentStyleLoad(cc.Common().Value) {
				return true
			}
			if callee := cc.Common().StaticCallee(); callee != nil && callee.Name() == "GetFontSize" && len(cc.Call.Args) == 1 {
				if u, ok := cc.Call.Args[0].(*ssa.UnOp); ok {
					if g, ok := u.X.(*ssa.Global); ok && g.Name() == "InitialValues" {
						return true
					}
				}
			}
		}
		return false
	}
	nPerc := 0
	core.Instrs(fsz, func(in ssa.Instruction) {
		mul, ok := in.(*ssa.BinOp)
		if !ok || mul.Op != token.MUL {
			return
		}
		isValue := func(v ssa.Value) bool {
			u, ok := v.(*ssa.UnOp)
			if !ok {
				return false
			}
			fa, ok := u.X.(*ssa.FieldAddr)
			return ok && core.FieldName(fa) == "Value"
		}
		var other ssa.Value
		switch {
		case isValue(mul.X):
			other = mul.Y
		case isValue(mul.Y):
			other = mul.X
		default:
			return
		}
		nPerc++
		r8.Cond(core.DerivesFrom(other, isParentFS), "fontSize: a percentage is relative to the parent's font size", p.Pos(mul.Pos()), "value × parentStyle.GetFontSize()", "the percentage is not multiplied by the parent's computed font size")
	})
	r8.Cond(nPerc >= 1, "fontSize multiplies the percentage", p.Pos(fsz.Pos()), fmt.Sprint(nPerc), "no product value × font size in the font-size computer")
}

// parentNilGuard: every invoke through a load of ComputedStyle.parentStyle must be nil-guarded.
func parentNilGuard(c *core.Check, r *core.Rule) {
	p := c.Prog
	csObj := p.Obj("html/tree", "ComputedStyle")
	if csObj == nil {
		r.Anchor("html/tree.ComputedStyle")
		return
	}
	isRoot := p.Method("html/tree", "ComputedStyle", "isRootElement")
	isCSParentLoad := func(v ssa.Value) bool {
		return core.DerivesFrom(v, func(x ssa.Value) bool {
			fa, ok := x.(*ssa.FieldAddr)
			if !ok {
				return false
			}
			pt, ok := fa.X.Type().Underlying().(*types.Pointer)
			if !ok || !types.Identical(pt.Elem(), csObj.Type()) {
				return false
			}
			st := pt.Elem().Underlying().(*types.Struct)
			return st.Field(fa.Field).Name() == "parentStyle"
		}) && isInterface(v)
	}
	for _, fn := range p.FuncsOfPkg("html/tree") {
		fn := fn
		core.Instrs(fn, func(in ssa.Instruction) {
			call, ok := in.(ssa.CallInstruction)
			if !ok || !call.Common().IsInvoke() || !isCSParentLoad(call.Common().Value) {
				return
			}
			key := fmt.Sprintf("%s | parentStyle.%s(…)", core.FuncName(fn), call.Common().Method.Name())
			classify := func(a ssa.Value) string {
				if cc, ok := a.(*ssa.Call); ok && cc.Common().StaticCallee() == isRoot {
					return "@root"
				}
				if b, ok := a.(*ssa.BinOp); ok && (b.Op == token.EQL || b.Op == token.NEQ) {
					isNil := func(v ssa.Value) bool { k, ok := v.(*ssa.Const); return ok && k.Value == nil }
					o := b.X
					if isNil(b.X) {
						o = b.Y
					} else if !isNil(b.Y) {
						return ""
					}
					if isCSParentLoad(o) {
						if b.Op == token.EQL {
							return "@root"
						}
						return "!@root"
					}
				}
				return ""
			}
			ok2, cex := requireGuard(fn, in.Block(), classify, func(env map[string]bool) bool {
				v, tested := env["root"]
				return tested && !v
			})
			if ok2 {
				r.OK(key, p.Pos(in.Pos()), "dominated by a non-nil / non-root test of parentStyle")
			} else {
				r.Fail(key, p.Pos(in.Pos()), "reachable with parentStyle possibly nil (root element): "+cex)
			}
		})
	}
}

// c04ComputedUnits: the dimensions built by the computer functions carry a computed unit.
func c04ComputedUnits(c *core.Check) {
	p := c.Prog
	r := c.Rule("R10", "every dimension the computer functions of html/tree build with a constant unit carries a computed unit (px, % or the unit-less scalar): an absolute or font-relative unit written here would skip the conversion to px that every other length goes through", 7)
	unitName := map[int64]string{}
	for v, k := range p.ConstsOfType("css/properties", "Unit") {
		unitName[v] = k.Name()
	}
	allowed := map[string]bool{"Px": true, "Perc": true, "Scalar": true}
	n := 0
	for _, fn := range p.FuncsOfPkg("html/tree") {
		if !strings.HasSuffix(p.Fset.Position(fn.Pos()).Filename, "computed_values.go") {
			continue
		}
		core.Instrs(fn, func(in ssa.Instruction) {
			st, ok := in.(*ssa.Store)
			if !ok {
				return
			}
			fa, ok := st.Addr.(*ssa.FieldAddr)
			if !ok || core.FieldName(fa) != "Unit" {
				return
			}
			k, ok := core.ConstInt(st.Val)
			if !ok {
				return
			}
			n++
			name := unitName[k]
			r.Cond(allowed[name], core.FuncName(fn)+" | "+p.StmtTextAt(fn, st.Pos())+" | unit", p.Pos(st.Pos()), "unit "+name, "a computed value is built with the unit "+name+", which no later step converts to px")
		})
	}
	if n < 6 {
		r.Unknown("constant units in computed_values.go", "-", fmt.Sprintf("%d stores of a constant unit found, 9 on the tree this rule was written for", n))
	}
}

// c04LineHeight folds the line-height computer for a percentage: the computed value is that percentage of the
// element's own computed font size, in px (CSS 2.1 §10.8.1: a percentage computes to an absolute length, so that
// children inherit the length, not the factor).
func c04LineHeight(c *core.Check) {
	p := c.Prog
	r := c.Rule("R11", "the line-height computer, folded for a percentage value v%: the computed value is v/100 × the element's own computed font size, in px (children inherit this length, not the factor); a number stays a unit-less factor", 2)
	fn := p.Fn("html/tree", "lineHeight")
	getFontSize := p.Method("html/tree", "ComputedStyle", "GetFontSize")
	if fn == nil || getFontSize == nil || len(fn.Params) != 3 {
		r.Anchor("html/tree.lineHeight")
		return
	}
	unitVal := map[string]int64{}
	for v, k := range p.ConstsOfType("css/properties", "Unit") {
		unitVal[k.Name()] = v
	}
	dimOrS := p.Obj("css/properties", "DimOrS").Type()
	dimT := p.Obj("css/properties", "Dimension").Type()
	for _, tc := range []struct {
		unit, wantUnit string
		want           core.Poly
	}{
		{"Perc", "Px", core.SymP("v").Mul(core.SymP("ownFontSize")).Mul(core.PolyConst(big.NewRat(1, 100)))},
		{"Scalar", "Scalar", core.SymP("v")},
	} {
		key := "lineHeight | unit " + tc.unit
		f := &core.Folder{MaxDepth: 3}
		f.Call = func(_ *core.Folder, call *ssa.Call, args []core.AV) (core.AV, bool) {
			if call.Common().StaticCallee() == getFontSize {
				return core.StructAV(dimOrS, map[string]core.AV{"Dimension": core.StructAV(dimT, map[string]core.AV{"Value": core.SymP("ownFontSize"), "Unit": core.Num(unitVal["Px"])})}), true
			}
			return nil, false
		}
		value := core.StructAV(dimOrS, map[string]core.AV{"S": core.StrV(""), "Dimension": core.StructAV(dimT, map[string]core.AV{"Value": core.SymP("v"), "Unit": core.Num(unitVal[tc.unit])})})
		comp := core.SymOf(fn.Params[0].Type(), "c")
		res, err := f.Fold(fn, []core.AV{comp, core.Num(0), value})
		if err != nil || len(res) != 1 {
			r.Unknown(key, p.Pos(fn.Pos()), fmt.Sprintf("could not be folded: %v", err))
			continue
		}
		val, ok1 := core.FieldAV(res[0], dimOrS, "Dimension", "Value").(core.Poly)
		un, ok2 := core.FieldAV(res[0], dimOrS, "Dimension", "Unit").(core.Poly)
		if !ok1 || !ok2 {
			r.Fail(key, p.Pos(fn.Pos()), "the result is not a dimension: "+core.AVString(res[0]))
			continue
		}
		okU := un.Equal(core.Num(unitVal[tc.wantUnit]))
		r.Cond(val.Equal(tc.want) && okU, key, p.Pos(fn.Pos()), "computed value "+val.String()+" "+tc.wantUnit, fmt.Sprintf("computed value %s (unit constant %s), CSS 2.1 gives %s in %s", val.String(), un.String(), tc.want.String(), tc.wantUnit))
	}
}

// c04FontSizeArg: the reference font size handed to length_.
func c04FontSizeArg(c *core.Check) {
	p := c.Prog
	r := c.Rule("R12", "every call of tree.length_ passes as reference font size either a negative constant (length_ then takes the element's own computed font size) or a value that is itself a font size (the parent's, for the font-size property): a non-negative constant makes every em, ex and ch length a multiple of that constant", 16)
	fn := p.Fn("html/tree", "length_")
	if fn == nil || len(fn.Params) != 4 {
		r.Anchor("html/tree.length_")
		return
	}
	sites, _ := p.CallSitesOf(fn)
	seen := map[string]int{}
	for _, cs := range sites {
		caller := cs.Parent()
		arg := cs.Common().Args[2]
		key := core.FuncName(caller) + " | " + p.StmtTextAt(caller, cs.Pos())
		if len(key) > 150 {
			key = key[:150] + "…"
		}
		seen[key]++
		if seen[key] > 1 {
			key = fmt.Sprintf("%s #%d", key, seen[key])
		}
		if k, ok := arg.(*ssa.Const); ok {
			f, isF := core.ConstFloat(k)
			r.Cond(isF && f < 0, key, p.Pos(cs.Pos()), "negative constant: the element's own computed font size", fmt.Sprintf("the reference font size is the constant %v: em, ex and ch lengths are computed against it, not against a font size", k.Value))
			continue
		}
		// a font size: derived from a GetFontSize() call or a fontSize field
		isFS := core.DerivesFrom(arg, func(v ssa.Value) bool {
			if call, ok := v.(*ssa.Call); ok {
				name := ""
				if call.Call.IsInvoke() {
					name = call.Call.Method.Name()
				} else if cal := call.Call.StaticCallee(); cal != nil {
					name = cal.Name()
				}
				return name == "GetFontSize"
			}
			return core.IsFieldNamed(v, "fontSize")
		})
		if par, ok := arg.(*ssa.Parameter); ok && !isFS {
			r.Skip(key, p.Pos(cs.Pos()), "the caller forwards its own parameter "+par.Name()+" (decided at the caller's call sites)")
			continue
		}
		r.Cond(isFS, key, p.Pos(cs.Pos()), "derived from a computed font size", "the reference font size is neither a negative constant nor derived from a computed font size")
	}
}

// c04NoDeclarations: an element no declaration applies to is still an element.
func c04NoDeclarations(c *core.Check) {
	p := c.Prog
	r := c.Rule("R13", "an element without any declaration gets computed values like any other: setComputedStyles never hands computedFromCascaded the bare result of a lookup in the cascaded styles (nil for a missing key, and a nil cascaded style means `anonymous box`, whose initial values are not computed) — the missing entry is replaced by an empty style first", 1)
	fn := p.Method("html/tree", "StyleFor", "setComputedStyles")
	if fn == nil {
		r.Anchor("html/tree.(*StyleFor).setComputedStyles")
		return
	}
	n := 0
	core.Instrs(fn, func(in ssa.Instruction) {
		call, ok := in.(*ssa.Call)
		if !ok || call.Call.StaticCallee() == nil || call.Call.StaticCallee().Name() != "computedFromCascaded" || len(call.Call.Args) < 2 {
			return
		}
		n++
		arg := call.Call.Args[1]
		why := ""
		var nilable func(v ssa.Value, d int) string
		nilable = func(v ssa.Value, d int) string {
			if d > 5 {
				return ""
			}
			switch x := v.(type) {
			case *ssa.Lookup:
				return "the result of a map lookup"
			case *ssa.Extract:
				if lk, ok := x.Tuple.(*ssa.Lookup); ok && x.Index == 0 {
					// the comma-ok form: nil only on the path where ok is false; a phi must replace it there
					_ = lk
					return "the result of a map lookup"
				}
			case *ssa.Const:
				if x.Value == nil {
					return "nil"
				}
			case *ssa.Phi:
				// every edge that may be nil must be excluded by the other edges: require that at least one edge is a
				// fresh map and that lookup edges are taken only under the `found` flag (comma-ok)
				fresh, lookup := false, false
				for _, e := range x.Edges {
					switch y := e.(type) {
					case *ssa.MakeMap:
						fresh = true
					case *ssa.Extract:
						if _, ok := y.Tuple.(*ssa.Lookup); ok {
							lookup = true
						}
					default:
						if w := nilable(e, d+1); w != "" {
							return w
						}
					}
				}
				if lookup && !fresh {
					return "the result of a map lookup"
				}
				return ""
			case *ssa.MakeMap:
				return ""
			}
			return ""
		}
		why = nilable(arg, 0)
		r.Cond(why == "", "html/tree.setComputedStyles | cascaded style handed to computedFromCascaded", p.Pos(call.Pos()), "a looked-up style, or a fresh empty one when there is none", "the cascaded style is "+why+": an element without declarations is computed as an anonymous box (initial values such as `medium` border widths are never resolved)")
	})
	if n == 0 {
		r.Anchor("setComputedStyles: call of computedFromCascaded")
	}
}
