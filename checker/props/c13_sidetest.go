package props

import (
	"fmt"
	"go/token"
	"strings"

	"golang.org/x/tools/go/ssa"

	"wrverif/core"
)

// c13TestedSide (R14): the edge that is tested is the edge that is used.  Where the layout tests a side-specific
// field of a box against zero (`box.BorderRightWidth != 0`) and the guarded branch reads the field of the same
// family for the opposite side without reading the tested one, the test guards the wrong edge (a copy of the
// mirrored branch): the collapsed border of the last column of a table is then taken from the cell's own zero border.
func c13TestedSide(c *core.Check) {
	p := c.Prog
	r := c.Rule("R14", "the edge tested is the edge used: in html/layout, a branch guarded by a comparison of a Left/Right/Top/Bottom field of a box with zero does not read the same field of the opposite side unless it also reads the tested one", 1)
	opposite := map[string]string{"Left": "Right", "Right": "Left", "Top": "Bottom", "Bottom": "Top"}
	sideOf := func(name string) (stem, side string) {
		for s := range opposite {
			if i := strings.Index(name, s); i >= 0 {
				return name[:i] + "*" + name[i+len(s):], s
			}
		}
		return "", ""
	}
	n := 0
	for _, fn := range p.ModFuncs {
		if fn.Pkg == nil || fn.Blocks == nil || core.Rel(fn.Pkg.Pkg.Path()) != "html/layout" {
			continue
		}
		k := 0
		for _, b := range fn.Blocks {
			if len(b.Instrs) == 0 {
				continue
			}
			ifi, ok := b.Instrs[len(b.Instrs)-1].(*ssa.If)
			if !ok {
				continue
			}
			bo, ok := ifi.Cond.(*ssa.BinOp)
			if !ok || (bo.Op != token.NEQ && bo.Op != token.EQL && bo.Op != token.GTR) {
				continue
			}
			if z, ok := core.ConstFloat(bo.Y); !ok || z != 0 {
				continue
			}
			ld, ok := bo.X.(*ssa.UnOp)
			if !ok || ld.Op != token.MUL {
				continue
			}
			fa, ok := ld.X.(*ssa.FieldAddr)
			if !ok {
				continue
			}
			tested := core.FieldName(fa)
			stem, side := sideOf(tested)
			if side == "" {
				continue
			}
			guarded := b.Succs[0]
			if bo.Op == token.EQL {
				guarded = b.Succs[1]
			}
			if len(guarded.Preds) != 1 {
				continue
			}
			same, other := false, ""
			core.Instrs(fn, func(in ssa.Instruction) {
				if !(in.Block() == guarded || guarded.Dominates(in.Block())) {
					return
				}
				fa2, ok := in.(*ssa.FieldAddr)
				if !ok {
					return
				}
				name := core.FieldName(fa2)
				st2, side2 := sideOf(name)
				if st2 != stem {
					return
				}
				if name == tested {
					same = true
				} else if side2 == opposite[side] {
					other = name
				}
			})
			if !same && other == "" {
				continue
			}
			n++
			k++
			key := fmt.Sprintf("%s | branch guarded by %s #%d", core.FuncName(fn), tested, k)
			r.Cond(same || other == "", key, p.Pos(bo.Pos()), "the branch reads the tested field", fmt.Sprintf("the branch tests %s and reads %s without reading %s: the test guards the wrong edge", tested, other, tested))
		}
	}
	r.OK("scan", "-", fmt.Sprintf("%d guarded branches reading a side field of the tested family", n))
}
