package props

import (
	"fmt"
	"go/token"

	"golang.org/x/tools/go/ssa"

	"wrverif/core"
)

// splitOffset: v = base + k with k a constant (k = 0 when v is not a sum).
func splitOffset(v ssa.Value) (ssa.Value, int64) {
	if b, ok := v.(*ssa.BinOp); ok && b.Op == token.ADD {
		if k, ok := core.ConstInt(b.Y); ok {
			return b.X, k
		}
		if k, ok := core.ConstInt(b.X); ok {
			return b.Y, k
		}
	}
	return v, 0
}

// c20TightLookahead (R9): the tokenizer looks ahead under guards `pos+k < length`.  A guard that asks for more input
// than the bytes it protects need makes the last token of a text read differently from the same token followed by
// anything: what the serializer writes last (`U+0-F`) does not read back.  For every such guard in css/parser whose
// true side reads bytes of the source at `pos+j` (same cursor expression, constant j) and hands the cursor to no
// call: the largest j read is k (the guard is exactly as strong as the farthest byte needs).
func c20TightLookahead(c *core.Check) {
	p := c.Prog
	r := c.Rule("R9", "look-ahead guards are tight: in css/parser, for every condition pos+k < length (k >= 1 constant) whose true side reads source bytes at pos+j for the same cursor expression, the largest j is k: the guard does not ask for more input than the farthest byte it protects", 20)
	n := 0
	for _, fn := range p.FuncsOfPkg("css/parser") {
		fn := fn
		k := 0
		for _, b := range fn.Blocks {
			if len(b.Instrs) == 0 {
				continue
			}
			ifi, ok := b.Instrs[len(b.Instrs)-1].(*ssa.If)
			if !ok {
				continue
			}
			cmp, ok := ifi.Cond.(*ssa.BinOp)
			if !ok || cmp.Op != token.LSS {
				continue
			}
			base, off := splitOffset(cmp.X)
			if off < 1 {
				continue
			}
			// the right side is a length: len(x) or a variable holding one
			isLen := core.DerivesFrom(cmp.Y, func(v ssa.Value) bool {
				call, ok := v.(*ssa.Call)
				if !ok {
					return false
				}
				bi, ok := call.Call.Value.(*ssa.Builtin)
				return ok && bi.Name() == "len"
			})
			if !isLen {
				continue
			}
			ts := b.Succs[0]
			if len(ts.Preds) != 1 {
				continue
			}
			// reads of bytes at base+j in the region the true side dominates
			maxJ, reads := int64(-1), 0
			for _, b2 := range fn.Blocks {
				if !(b2 == ts || ts.Dominates(b2)) {
					continue
				}
				for _, in := range b2.Instrs {
					var idx ssa.Value
					switch x := in.(type) {
					case *ssa.IndexAddr:
						idx = x.Index
					case *ssa.Index:
						idx = x.Index
					default:
						continue
					}
					ib, j := splitOffset(idx)
					if sameExpr(ib, base, 0) {
						reads++
						if j > maxJ {
							maxJ = j
						}
					}
				}
			}
			if reads == 0 {
				continue
			}
			k++
			n++
			key := fmt.Sprintf("%s | guard +%d #%d", core.FuncName(fn), off, k)
			r.Cond(maxJ >= off, key, p.Pos(cmp.Pos()), fmt.Sprintf("the farthest byte read under it is at +%d", maxJ), fmt.Sprintf("the guard asks for %d more byte(s) of input while the farthest byte read under it is at +%d: the construct is not recognised at the end of the input", off, maxJ))
		}
	}
	if n == 0 {
		r.Anchor("look-ahead guards pos+k < length in css/parser")
	}
}
