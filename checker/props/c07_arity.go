package props

import (
	"fmt"
	"go/constant"
	"go/token"
	"sort"
	"strings"

	"golang.org/x/tools/go/ssa"

	"wrverif/core"
)

// c07ArityScenarios (R12): functions that interpret a CSS function by name read its arguments by position after
// admitting a set of argument counts per name.  For every function that calls ParseFunction, every name it compares
// the function name with and every argument count, the positional reads that remain reachable (path conditions on
// the name and on the lengths decided by the scenario, every other condition free) must lie inside the list.  This
// decides the relational sites engine D leaves to the reasoned table (getTarget, checkCounterFunction): there the
// index is in range because of the *name*, a correlation no per-path bounds fact carries.
func c07ArityScenarios(c *core.Check) {
	p := c.Prog
	r := c.Rule("R12", "for every function name a ParseFunction caller distinguishes and every number of arguments, each constant-position read of the argument list that is reachable under that scenario is inside the list (reslices args[k:] are followed; conditions on the name and on list lengths are decided by the scenario, all others are free)", 36)
	nFns, nScen := 0, 0
	for _, fn := range p.ModFuncs {
		if fn.Pkg == nil || fn.Blocks == nil {
			continue
		}
		switch core.Rel(fn.Pkg.Pkg.Path()) {
		case "css/validation", "html/tree", "css/counters", "svg":
		default:
			continue
		}
		// name and argument list from ParseFunction
		var nameVal, argsVal ssa.Value
		core.Instrs(fn, func(in ssa.Instruction) {
			call, ok := in.(*ssa.Call)
			if !ok {
				return
			}
			callee := call.Call.StaticCallee()
			if callee == nil || callee.Name() != "ParseFunction" || callee.Pkg == nil || core.Rel(callee.Pkg.Pkg.Path()) != "css/parser" {
				return
			}
			if nameVal != nil {
				return
			}
			for _, ref := range *call.Referrers() {
				if ex, ok := ref.(*ssa.Extract); ok {
					if ex.Index == 0 {
						nameVal = ex
					} else {
						argsVal = ex
					}
				}
			}
		})
		if nameVal == nil || argsVal == nil {
			continue
		}
		// a list derived one-to-one... only splitOnOptionalComma replaces the list: its result is the base then
		base := argsVal
		core.Instrs(fn, func(in ssa.Instruction) {
			if call, ok := in.(*ssa.Call); ok && len(call.Call.Args) == 1 && call.Call.Args[0] == argsVal {
				if callee := call.Call.StaticCallee(); callee != nil && callee.Name() == "splitOnOptionalComma" {
					base = call
				}
			}
		})
		// chain: value -> offset from base
		var offset func(v ssa.Value, depth int) (int64, bool)
		offset = func(v ssa.Value, depth int) (int64, bool) {
			if v == base {
				return 0, true
			}
			if depth > 8 {
				return 0, false
			}
			if sl, ok := v.(*ssa.Slice); ok && sl.High == nil && sl.Max == nil {
				k := int64(0)
				if sl.Low != nil {
					var ok bool
					if k, ok = core.ConstInt(sl.Low); !ok {
						return 0, false
					}
				}
				if o, ok := offset(sl.X, depth+1); ok {
					return o + k, true
				}
			}
			return 0, false
		}
		lowerOf := func(v ssa.Value) (ssa.Value, bool) {
			// name or AsciiLower(name)
			if v == nameVal {
				return v, false
			}
			if call, ok := v.(*ssa.Call); ok && len(call.Call.Args) == 1 && call.Call.Args[0] == nameVal {
				if callee := call.Call.StaticCallee(); callee != nil && (callee.Name() == "AsciiLower" || callee.Name() == "ToLower") {
					return v, true
				}
			}
			return nil, false
		}
		// atoms
		type lenAtom struct {
			a   *ssa.BinOp
			off int64
			k   int64
			rev bool
		}
		type nameAtom struct {
			a      ssa.Value
			k      string
			op     token.Token
			prefix bool
		}
		var lens []lenAtom
		var names []nameAtom
		nameConsts := map[string]bool{}
		maxK := int64(0)
		for _, a := range core.CondAtoms(fn) {
			switch x := a.(type) {
			case *ssa.BinOp:
				for _, rev := range []bool{false, true} {
					X, Y := x.X, x.Y
					if rev {
						X, Y = Y, X
					}
					if k, ok := core.ConstInt(Y); ok {
						if call, ok := X.(*ssa.Call); ok {
							if b, ok := call.Call.Value.(*ssa.Builtin); ok && b.Name() == "len" {
								if off, ok := offset(call.Call.Args[0], 0); ok {
									lens = append(lens, lenAtom{x, off, k, rev})
									if k+off > maxK {
										maxK = k + off
									}
								}
							}
						}
					}
					if s, ok := core.ConstStr(Y); ok && (x.Op == token.EQL || x.Op == token.NEQ) {
						if _, ok := lowerOf(X); ok || X == nameVal {
							names = append(names, nameAtom{x, s, x.Op, false})
							nameConsts[s] = true
						}
					}
				}
			case *ssa.Call:
				if callee := x.Call.StaticCallee(); callee != nil && callee.Pkg != nil && callee.Pkg.Pkg.Path() == "strings" && callee.Name() == "HasPrefix" && len(x.Call.Args) == 2 {
					if s, ok := core.ConstStr(x.Call.Args[1]); ok {
						if _, ok := lowerOf(x.Call.Args[0]); ok || x.Call.Args[0] == nameVal {
							names = append(names, nameAtom{x, s, token.EQL, true})
						}
					}
				}
			}
		}
		// sites
		type site struct {
			in   ssa.Instruction
			need int64
			what string
		}
		var sites []site
		core.Instrs(fn, func(in ssa.Instruction) {
			switch x := in.(type) {
			case *ssa.IndexAddr:
				if i, ok := core.ConstInt(x.Index); ok {
					if off, ok := offset(x.X, 0); ok {
						sites = append(sites, site{in, off + i + 1, fmt.Sprintf("argument %d", off+i)})
					}
				}
			case *ssa.Slice:
				if off, ok := offset(x.X, 0); ok {
					need := int64(0)
					if x.Low != nil {
						if k, ok := core.ConstInt(x.Low); ok {
							need = k
						}
					}
					if x.High != nil {
						if k, ok := core.ConstInt(x.High); ok && k > need {
							need = k
						}
					}
					if need > 0 {
						sites = append(sites, site{in, off + need, fmt.Sprintf("arguments up to %d", off+need-1)})
					}
				}
			}
		})
		if len(sites) == 0 || len(names) == 0 {
			// no positional read, or a caller that does not look at the function's name (resolveVar discards it and relies on
			// HasVar for its first argument: rule R3)
			continue
		}
		nFns++
		var doms []string
		for s := range nameConsts {
			doms = append(doms, s)
		}
		sort.Strings(doms)
		doms = append(doms, "\x00other")
		type bad struct {
			name string
			n    int64
		}
		failed := map[int][]bad{}
		reachedAny := map[int]bool{}
		for _, nm := range doms {
			for n := int64(0); n <= maxK+2; n++ {
				nScen++
				assign := map[ssa.Value]bool{}
				for _, la := range lens {
					l, k := n-la.off, la.k
					if la.rev {
						l, k = k, l
					}
					if n-la.off < 0 {
						continue
					}
					assign[la.a] = evalIntCmp(la.a.Op, l, k)
				}
				for _, na := range names {
					var v bool
					if na.prefix {
						v = strings.HasPrefix(nm, na.k)
					} else {
						v = (nm == na.k) == (na.op == token.EQL)
					}
					assign[na.a] = v
				}
				reach := core.ForwardReach(fn.Blocks[0], assign, nil)
				for i, s := range sites {
					if !reach[s.in.Block()] {
						continue
					}
					reachedAny[i] = true
					if n < s.need {
						failed[i] = append(failed[i], bad{nm, n})
					}
				}
			}
		}
		perPos := map[string]int{}
		for i, s := range sites {
			pos := p.Pos(s.in.Pos())
			perPos[s.what]++
			key := fmt.Sprintf("%s | read of %s #%d", core.FuncName(fn), s.what, perPos[s.what])
			if len(failed[i]) == 0 {
				r.OK(key, pos, fmt.Sprintf("inside the list in each of the %d name x count scenarios that reach it", len(doms)*int(maxK+3)))
				continue
			}
			var ex []string
			for _, b := range failed[i] {
				nm := b.name
				if nm == "\x00other" {
					nm = "any other name"
				}
				ex = append(ex, fmt.Sprintf("%s with %d arguments", nm, b.n))
				if len(ex) == 4 {
					break
				}
			}
			r.Fail(key, pos, fmt.Sprintf("reached with fewer than %d arguments: %s", s.need, strings.Join(ex, "; ")))
		}
	}
	r.OK("scenarios", "-", fmt.Sprintf("%d functions, %d name x count scenarios", nFns, nScen))
}

func evalIntCmp(op token.Token, a, b int64) bool {
	return constant.Compare(constant.MakeInt64(a), op, constant.MakeInt64(b))
}
