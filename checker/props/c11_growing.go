package props

import (
	"fmt"
	"go/token"
	"go/types"
	"strings"

	"golang.org/x/tools/go/ssa"

	"wrverif/core"
)

// c11GrowingLists (R13): a work list that grows while it is processed is processed to the end.  Where a function
// loops over a local list and, inside the loop, hands the address of that list to a callee that appends to it, the
// elements added during the loop belong to the work (lineBoxVerticality: subtrees aligned top/bottom found inside
// other such subtrees).  The loop must then read the list's length on every iteration: a `range`, or a bound read
// before the loop, stops at the original length and drops them from the line's height.
func c11GrowingLists(c *core.Check) {
	r := c.Rule("R13", "a loop over a local list whose address is passed, inside the loop, to a callee that appends through it re-reads the list's length on every iteration (no range snapshot, no bound hoisted out of the loop): the elements discovered during the loop are processed too", 2)
	growingListsRule(c, r, false)
}

// c01GrowingPlaceholders (R22): the same rule for the lists of absolute and fixed placeholders: a placeholder that
// is appended while the list is laid out and never visited keeps its nil sizes, and the first read of them panics.
func c01GrowingPlaceholders(c *core.Check) {
	r := c.Rule("R22", "every placeholder is laid out: a loop that lays out a local list of absolute/fixed placeholders and passes the list's address to the layout (which appends the fixed boxes it meets) re-reads the list's length on every iteration; a placeholder skipped by a range snapshot keeps nil sizes, which the background layout dereferences", 1)
	growingListsRule(c, r, true)
}

func growingListsRule(c *core.Check, r *core.Rule, placeholders bool) {
	p := c.Prog
	n := 0
	for _, fn := range p.ModFuncs {
		if fn.Pkg == nil || fn.Blocks == nil {
			continue
		}
		switch core.Rel(fn.Pkg.Pkg.Path()) {
		case "html/layout", "html/boxes", "html/document", "html/tree", "svg", "text":
		default:
			continue
		}
		loops := core.Loops(fn)
		if len(loops) == 0 {
			continue
		}
		core.Instrs(fn, func(in ssa.Instruction) {
			al, ok := in.(*ssa.Alloc)
			if !ok {
				return
			}
			sl, ok := al.Type().(*types.Pointer).Elem().Underlying().(*types.Slice)
			if !ok || strings.Contains(sl.Elem().String(), "AbsolutePlaceholder") != placeholders {
				return
			}
			// calls receiving the address, whose callee appends through that parameter
			var passes []*ssa.Call
			for _, ref := range *al.Referrers() {
				call, ok := ref.(*ssa.Call)
				if !ok {
					continue
				}
				callee := call.Call.StaticCallee()
				if callee == nil || callee.Blocks == nil {
					continue
				}
				for i, a := range call.Call.Args {
					if a == ssa.Value(al) && i < len(callee.Params) && appendsThrough(callee, callee.Params[i], 0, map[*ssa.Function]bool{}) {
						passes = append(passes, call)
					}
				}
			}
			if len(passes) == 0 {
				return
			}
			for _, l := range loops {
				inLoop := false
				for _, call := range passes {
					if l.Blocks[call.Block()] {
						inLoop = true
					}
				}
				if !inLoop {
					continue
				}
				// the bound of the loop: the exit test compares a counter with len(load of al)
				for b := range l.Blocks {
					if len(b.Instrs) == 0 {
						continue
					}
					ifi, ok := b.Instrs[len(b.Instrs)-1].(*ssa.If)
					if !ok || (l.Blocks[b.Succs[0]] && l.Blocks[b.Succs[1]]) {
						continue
					}
					bo, ok := ifi.Cond.(*ssa.BinOp)
					if !ok || (bo.Op != token.LSS && bo.Op != token.GTR && bo.Op != token.LEQ && bo.Op != token.GEQ && bo.Op != token.NEQ) {
						continue
					}
					for _, side := range []ssa.Value{bo.X, bo.Y} {
						call, ok := side.(*ssa.Call)
						if !ok {
							continue
						}
						if bi, ok := call.Call.Value.(*ssa.Builtin); !ok || bi.Name() != "len" {
							continue
						}
						ld, ok := call.Call.Args[0].(*ssa.UnOp)
						if !ok || ld.Op != token.MUL || ld.X != ssa.Value(al) {
							continue
						}
						n++
						key := fmt.Sprintf("%s | loop over %s", core.FuncName(fn), al.Comment)
						r.Cond(l.Blocks[ld.Block()] && l.Blocks[call.Block()], key, p.Pos(ifi.Cond.Pos()), "the length is read inside the loop", "the list is read once before the loop (range, or hoisted bound) although "+core.CalleeName(passes[0])+" called in the loop appends to it: the elements added during the loop are never processed")
					}
				}
			}
		})
	}
	r.OK("scan", "-", fmt.Sprintf("%d loops over growing local lists", n))
}

// appendsThrough: the function stores a longer slice through its pointer parameter, or passes it on to one that does.
func appendsThrough(fn *ssa.Function, param *ssa.Parameter, depth int, seen map[*ssa.Function]bool) bool {
	if depth > 4 || seen[fn] {
		return false
	}
	seen[fn] = true
	for _, ref := range *param.Referrers() {
		switch x := ref.(type) {
		case *ssa.Store:
			if x.Addr == ssa.Value(param) {
				if call, ok := x.Val.(*ssa.Call); ok {
					if bi, ok := call.Call.Value.(*ssa.Builtin); ok && bi.Name() == "append" {
						return true
					}
				}
				if _, ok := x.Val.(*ssa.Phi); ok {
					return true
				}
			}
		case *ssa.Call:
			callee := x.Call.StaticCallee()
			if callee == nil || callee.Blocks == nil {
				continue
			}
			for i, a := range x.Call.Args {
				if a == ssa.Value(param) && i < len(callee.Params) {
					if callee == fn {
						continue
					}
					if appendsThrough(callee, callee.Params[i], depth+1, seen) {
						return true
					}
				}
			}
		}
	}
	return false
}
