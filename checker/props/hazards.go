package props

import (
	"fmt"
	"go/token"
	"go/types"
	"sort"
	"os"
	"strings"

	"golang.org/x/tools/go/ssa"

	"wrverif/core"
)

// absLike lists module functions whose result is never negative (read and confirmed; each is also
// folded/checked structurally where it is used).
func absLike(p *core.Prog) map[*ssa.Function]bool {
	out := map[*ssa.Function]bool{}
	for _, n := range []string{"utils.Abs", "utils.modLikePython"} {
		if f := p.Lookup(n); f != nil {
			out[f] = true
		}
	}
	return out
}

func opText(p *core.Prog, fn *ssa.Function, b *ssa.BinOp) string {
	if s := p.BinaryExprAt(fn, b.Pos()); s != "" {
		return s
	}
	return fmt.Sprintf("%s %s %s", exprName(b.X), b.Op, exprName(b.Y))
}

// divisionRule registers one obligation per integer division / modulo with a non-constant divisor in the
// functions accepted by filter: the divisor is proven non-zero; a modulo used as an index additionally
// needs a non-negative dividend.
func divisionRule(c *core.Check, r *core.Rule, filter func(*ssa.Function) bool) {
	divisionRuleNotes(c, r, filter, nil)
}

// divisionRuleNotes is divisionRule with a reasoned table (construct -> invariant) of sites whose divisor is non-zero
// by a data invariant this analysis cannot derive: they are named in the evidence as not decided.
func divisionRuleNotes(c *core.Check, r *core.Rule, filter func(*ssa.Function) bool, notes map[string]string) {
	used := map[string]bool{}
	defer func() {
		for k := range notes {
			if !used[k] {
				r.Skip("stale note "+k, "-", "the reasoned table names a division that no longer exists (not a violation: the table entry is simply unused)")
			}
		}
	}()
	p := c.Prog
	abs := absLike(p)
	for _, fn := range p.ModFuncs {
		if !filter(fn) {
			continue
		}
		for _, ds := range core.DivSites(fn) {
			key := core.FuncName(fn) + " | " + opText(p, fn, ds.Op)
			ok, how := p.ProveDivisor(ds)
			if why, has := notes[key]; has && !ok {
				used[key] = true
				r.Skip(key, p.Pos(ds.Op.Pos()), "not decided: "+why)
			} else if has {
				used[key] = true
				r.OK(key, p.Pos(ds.Op.Pos()), "divisor non-zero: "+how+" (the reasoned note is no longer needed)")
			} else if ok {
				r.OK(key, p.Pos(ds.Op.Pos()), "divisor non-zero: "+how)
			} else {
				r.Fail(key, p.Pos(ds.Op.Pos()), "integer "+map[token.Token]string{token.QUO: "division", token.REM: "modulo"}[ds.Op.Op]+" by a divisor that may be zero: "+how)
			}
			if core.RemUsedAsIndex(ds.Op) {
				key2 := core.FuncName(fn) + " | index by " + opText(p, fn, ds.Op)
				nn, how2 := core.NonNegativeAt(fn, ds.Op, ds.Op.X, abs)
				if why, has := notes[key2]; has && !nn {
					used[key2] = true
					r.Skip(key2, p.Pos(ds.Op.Pos()), "not decided: "+why)
				} else if nn {
					if has {
						used[key2] = true
					}
					r.OK(key2, p.Pos(ds.Op.Pos()), "dividend non-negative: "+how2)
				} else {
					r.Fail(key2, p.Pos(ds.Op.Pos()), "the result of % indexes a slice and the dividend may be negative (Go's % keeps the sign of the dividend): "+how2)
				}
			}
		}
	}
}

func inPkgs(pkgs ...string) func(*ssa.Function) bool {
	return func(fn *ssa.Function) bool {
		if fn.Pkg == nil {
			return false
		}
		rel := core.Rel(fn.Pkg.Pkg.Path())
		for _, p := range pkgs {
			if rel == p || (strings.HasSuffix(p, "/...") && strings.HasPrefix(rel, strings.TrimSuffix(p, "/..."))) {
				return true
			}
		}
		return false
	}
}

// sideSymmetryRule registers one obligation per sibling pair of side-mirrored assignments in the given files.
func sideSymmetryRule(c *core.Check, r *core.Rule, pkg string, files map[string]bool, floor int) {
	p := c.Prog
	pairs := p.SidePairs(pkg, func(f string) bool { return files == nil || files[f] })
	seen := map[string]int{}
	for _, sp := range pairs {
		key := pkg + "." + sp.Func + " | " + sp.TextA
		if len(key) > 140 {
			key = key[:140] + "…"
		}
		seen[key]++
		if seen[key] > 1 {
			key = fmt.Sprintf("%s #%d", key, seen[key])
		}
		r.Cond(sp.Consistent, key, p.Pos(sp.A.Pos()), "mirrored by: "+sp.TextB, "its sibling mirrors some side names and not others: "+sp.TextB)
	}
	// generic lints keep a third of slack: their instances are incidental code, not hand-confirmed sites
	if len(pairs) < floor*2/3 {
		r.Unknown("sibling pairs in "+pkg, "-", fmt.Sprintf("%d mirrored assignment pairs found, %d on the tree this rule was written for", len(pairs), floor))
	}
}

// divLoopRule: loops whose only progress is an integer division need a divisor of at least 2 (1 when the dividend is
// decremented first): dividing by 1 never reaches 0.
func divLoopRule(c *core.Check, r *core.Rule, filter func(*ssa.Function) bool) int {
	p := c.Prog
	n := 0
	for _, fn := range p.ModFuncs {
		if !filter(fn) {
			continue
		}
		for _, dl := range core.DivLoops(fn) {
			n++
			need := int64(2)
			if dl.MinusOne {
				need = 1
			}
			key := core.FuncName(fn) + " | loop " + opText(p, fn, dl.Div)
			ok, why := core.ProveAtLeast(fn, dl.Div.Y, need, dl.Header)
			r.Cond(ok, key, p.Pos(dl.Div.Pos()), fmt.Sprintf("divisor >= %d: %s", need, why), fmt.Sprintf("the loop only ends when repeated division reaches 0, which needs a divisor >= %d: %s", need, why))
		}
	}
	return n
}

// sideSumRule registers one obligation per additive expression over box edges in the given files.
func sideSumRule(c *core.Check, r *core.Rule, pkg string, files map[string]bool, floor int) {
	p := c.Prog
	sums := p.SideSums(pkg, func(f string) bool { return files == nil || files[f] })
	seen := map[string]int{}
	for _, ss := range sums {
		key := pkg + "." + ss.Func + " | " + ss.Text
		if len(key) > 150 {
			key = key[:150] + "…"
		}
		seen[key]++
		if seen[key] > 1 {
			key = fmt.Sprintf("%s #%d", key, seen[key])
		}
		r.Cond(ss.Consistent, key, p.Pos(ss.Expr.Pos()), ss.Kinds, "the sum mixes the sides of different box edges ("+ss.Kinds+"): margin, padding and border are expected with the same sides in one sum")
	}
	if len(sums) < floor*2/3 {
		r.Unknown("box-edge sums in "+pkg, "-", fmt.Sprintf("%d sums found, %d on the tree this rule was written for", len(sums), floor))
	}
}

// argNameRule registers one obligation per pair of same-typed arguments named after the callee's parameters.
func argNameRule(c *core.Check, r *core.Rule, pkg string, files map[string]bool, floor int) {
	p := c.Prog
	pairs := p.ArgPairs(pkg, func(f string) bool { return files == nil || files[f] })
	seen := map[string]int{}
	for _, ap := range pairs {
		txt := ap.Text
		if len(txt) > 100 {
			txt = txt[:100] + "…"
		}
		key := fmt.Sprintf("%s.%s | %s | arguments %d,%d", pkg, ap.Func, txt, ap.I+1, ap.J+1)
		seen[key]++
		if seen[key] > 1 {
			key = fmt.Sprintf("%s #%d", key, seen[key])
		}
		r.Cond(!ap.Crossed, key, p.Pos(ap.Call.Pos()), "each argument carries the name of the parameter it is passed for", "the two arguments carry each other's parameter names: they are passed in the wrong order")
	}
	if len(pairs) < floor*2/3 {
		r.Unknown("named argument pairs in "+pkg, "-", fmt.Sprintf("%d pairs found, %d on the tree this rule was written for", len(pairs), floor))
	}
}

// FloatCountDivs lists the floating point divisions of fn whose divisor is an integer count converted to float.
func floatCountDivs(fn *ssa.Function) []*ssa.BinOp {
	var out []*ssa.BinOp
	core.Instrs(fn, func(in ssa.Instruction) {
		b, ok := in.(*ssa.BinOp)
		if !ok || b.Op != token.QUO {
			return
		}
		bt, isB := b.X.Type().Underlying().(*types.Basic)
		if !isB || bt.Info()&types.IsFloat == 0 {
			return
		}
		if countFactor(b.Y, 0) != nil {
			out = append(out, b)
		}
	})
	return out
}

// groupGuardRule: the contract of svg.(*pathParser).hasSetsOrMore, which every indexed read of the argument list in
// addSeg rests on: it returns true only when the list holds at least one group of sz numbers and only whole groups.
func groupGuardRule(c *core.Check, r *core.Rule) {
	p := c.Prog
	fn := p.Method("svg", "pathParser", "hasSetsOrMore")
	if fn == nil || len(fn.Params) < 2 {
		r.Anchor("svg.(*pathParser).hasSetsOrMore")
		return
	}
	sz := fn.Params[1]
	isLen := func(v ssa.Value) bool {
		call, ok := v.(*ssa.Call)
		if !ok {
			return false
		}
		b, isB := call.Call.Value.(*ssa.Builtin)
		if !isB || b.Name() != "len" {
			return false
		}
		ld, ok := call.Call.Args[0].(*ssa.UnOp)
		if !ok {
			return false
		}
		fa, ok := ld.X.(*ssa.FieldAddr)
		return ok && core.FieldName(fa) == "points" && fa.X == ssa.Value(fn.Params[0])
	}
	val := func(v ssa.Value, ln, s int64) (int64, bool) {
		switch {
		case isLen(v):
			return ln, true
		case v == ssa.Value(sz):
			return s, true
		}
		if k, ok := core.ConstInt(v); ok {
			return k, true
		}
		if b, ok := v.(*ssa.BinOp); ok && b.Op == token.REM && isLen(b.X) && b.Y == ssa.Value(sz) && s != 0 {
			return ln % s, true
		}
		return 0, false
	}
	// returns of true
	var trueBlocks []*ssa.BasicBlock
	core.Instrs(fn, func(in ssa.Instruction) {
		if ret, ok := in.(*ssa.Return); ok && len(ret.Results) == 1 {
			if k, isK := ret.Results[0].(*ssa.Const); !isK || k.Value == nil || k.Value.String() != "false" {
				trueBlocks = append(trueBlocks, ret.Block())
			}
		}
	})
	// scenarios: (len, sz) pairs that must be refused
	for _, sc := range []struct {
		name    string
		ln, s   int64
		comment string
	}{
		{"no number at all", 0, 2, "a command letter without arguments"},
		{"fewer numbers than one group", 3, 4, "an incomplete first group"},
		{"a trailing incomplete group", 6, 4, "one group and a half"},
	} {
		assign := map[ssa.Value]bool{}
		decided := 0
		for _, a := range core.CondAtoms(fn) {
			b, ok := a.(*ssa.BinOp)
			if !ok {
				continue
			}
			x, ok1 := val(b.X, sc.ln, sc.s)
			y, ok2 := val(b.Y, sc.ln, sc.s)
			if !ok1 || !ok2 {
				continue
			}
			decided++
			assign[a] = cmpIntsTok(b.Op, x, y)
		}
		reach := core.ForwardReach(fn.Blocks[0], assign, nil)
		accepted := false
		for _, tb := range trueBlocks {
			if reach[tb] {
				accepted = true
			}
		}
		r.Cond(!accepted && len(trueBlocks) > 0, "svg.(*pathParser).hasSetsOrMore | refuses "+sc.name, p.Pos(fn.Pos()), fmt.Sprintf("len=%d, sz=%d: no return of true is reachable (%d tests decided)", sc.ln, sc.s, decided), fmt.Sprintf("with %d numbers and groups of %d (%s) the guard can return true: addSeg then indexes the argument list beyond its end", sc.ln, sc.s, sc.comment))
	}
}

func cmpIntsTok(op token.Token, a, b int64) bool {
	switch op {
	case token.EQL:
		return a == b
	case token.NEQ:
		return a != b
	case token.LSS:
		return a < b
	case token.LEQ:
		return a <= b
	case token.GTR:
		return a > b
	case token.GEQ:
		return a >= b
	}
	return false
}

// sideCondRule registers one obligation per boolean chain that tests several kinds of box edges: each kind with the
// same sides.
func sideCondRule(c *core.Check, r *core.Rule, pkg string, files map[string]bool, floor int) {
	p := c.Prog
	conds := p.SideConds(pkg, func(f string) bool { return files == nil || files[f] })
	seen := map[string]int{}
	for _, ss := range conds {
		txt := ss.Text
		if len(txt) > 110 {
			txt = txt[:110] + "…"
		}
		key := pkg + "." + ss.Func + " | " + txt
		seen[key]++
		if seen[key] > 1 {
			key = fmt.Sprintf("%s #%d", key, seen[key])
		}
		if os.Getenv("WRVERIF_DEBUG_SIDECOND") != "" {
			fmt.Fprintln(os.Stderr, "sidecond:", p.Pos(ss.Expr.Pos()), ss.Consistent, ss.Kinds, "|", txt)
		}
		r.Cond(ss.Consistent, key, p.Pos(ss.Expr.Pos()), ss.Kinds, "the condition tests different sides of different box edges ("+ss.Kinds+"): the padding and the border that separate two margins are those of the same side")
	}
	if len(conds) < floor*2/3 {
		r.Unknown("box-edge conditions in "+pkg, "-", fmt.Sprintf("%d conditions found, %d on the tree this rule was written for", len(conds), floor))
	}
}

// extremumRule registers one obligation per running minimum / maximum update.
func extremumRule(c *core.Check, r *core.Rule, pkg string, floor int) {
	p := c.Prog
	ups := p.ExtremumUpdates(pkg, nil)
	seen := map[string]int{}
	for _, u := range ups {
		txt := u.Text
		if len(txt) > 120 {
			txt = txt[:120] + "…"
		}
		key := pkg + "." + u.Func + " | " + txt
		seen[key]++
		if seen[key] > 1 {
			key = fmt.Sprintf("%s #%d", key, seen[key])
		}
		if os.Getenv("WRVERIF_DEBUG_EXTREMUM") != "" {
			fmt.Fprintln(os.Stderr, "extremum:", p.Pos(u.Stmt.Pos()), u.Consistent, "|", txt)
		}
		r.Cond(u.Consistent, key, p.Pos(u.Stmt.Pos()), "compared with the variable it updates", fmt.Sprintf("the value is compared with %s but stored into %s: the running extremum is overwritten instead of extended", u.Compared, u.Updated))
	}
	if len(ups) < floor*2/3 {
		r.Unknown("running extremum updates in "+pkg, "-", fmt.Sprintf("%d found, %d on the tree this rule was written for", len(ups), floor))
	}
}

// counterCellRule: the running quote depth (quoteDepth[0], shared by the whole box-building pass and used as an index
// into the quotes list) never becomes negative: every value stored into the cell is clamped at 0, is the cell plus a
// positive constant, or is the cell minus one under a test that the cell is at least one.
func counterCellRule(c *core.Check, r *core.Rule) {
	p := c.Prog
	n := 0
	for _, fn := range p.FuncsOfPkg("html/boxes") {
		fn := fn
		isCell := func(addr ssa.Value) bool {
			ia, ok := addr.(*ssa.IndexAddr)
			if !ok {
				return false
			}
			base := core.ResolveLoad(ia.X)
			par, ok := base.(*ssa.Parameter)
			if !ok {
				if fv, isFV := base.(*ssa.FreeVar); !isFV || fv.Name() != "quoteDepth" {
					return false
				}
			} else if par.Name() != "quoteDepth" {
				return false
			}
			k, isK := core.ConstInt(ia.Index)
			return isK && k == 0
		}
		loadOfCell := func(v ssa.Value) bool {
			ld, ok := v.(*ssa.UnOp)
			return ok && ld.Op == token.MUL && isCell(ld.X)
		}
		core.Instrs(fn, func(in ssa.Instruction) {
			st, ok := in.(*ssa.Store)
			if !ok || !isCell(st.Addr) {
				return
			}
			n++
			key := core.FuncName(fn) + " | quoteDepth[0] = " + exprName(st.Val)
			okv, why := false, "the stored value is not clamped at 0"
			switch x := st.Val.(type) {
			case *ssa.Const:
				if k, isK := core.ConstInt(x); isK && k >= 0 {
					okv, why = true, "non-negative constant"
				}
			case *ssa.Call:
				name := ""
				if cal := x.Call.StaticCallee(); cal != nil {
					name = strings.ToLower(cal.Name())
				} else if b, isB := x.Call.Value.(*ssa.Builtin); isB {
					name = b.Name()
				}
				if name == "maxint" || name == "max" {
					for _, a := range x.Call.Args {
						if k, isK := core.ConstInt(a); isK && k >= 0 {
							okv, why = true, "clamped by "+name+" with "+fmt.Sprint(k)
						}
					}
				}
			case *ssa.BinOp:
				k, isK := core.ConstInt(x.Y)
				switch {
				case x.Op == token.ADD && isK && k > 0 && loadOfCell(x.X):
					okv, why = true, "the cell plus a positive constant"
				case x.Op == token.SUB && isK && k > 0 && loadOfCell(x.X):
					if ok2, how := core.ProveAtLeast(fn, x.X, k, st.Block()); ok2 {
						okv, why = true, "the cell minus "+fmt.Sprint(k)+" under a test: "+how
					} else if guardedCellDecrement(st, k, loadOfCell) {
						okv, why = true, "the cell minus "+fmt.Sprint(k)+" directly under a test that the cell is at least "+fmt.Sprint(k)
					} else {
						why = "the cell is decremented without a test that it is at least " + fmt.Sprint(k) + " (a closing quote without an opening one makes the depth negative, and the depth indexes the quotes list)"
					}
				}
			}
			r.Cond(okv, key, p.Pos(st.Pos()), why, why)
		})
	}
	if n == 0 {
		r.Anchor("stores into quoteDepth[0] in html/boxes")
	}
}

// guardedCellDecrement: the store's block is the branch of a test `cell > c` / `cell >= c` (c large enough) read from
// the same cell, with no other store into the cell between the test and the decrement.
func guardedCellDecrement(st *ssa.Store, k int64, loadOfCell func(ssa.Value) bool) bool {
	b := st.Block()
	if len(b.Preds) != 1 {
		return false
	}
	pb := b.Preds[0]
	ifi, ok := pb.Instrs[len(pb.Instrs)-1].(*ssa.If)
	if !ok {
		return false
	}
	cmp, ok := ifi.Cond.(*ssa.BinOp)
	if !ok || !loadOfCell(cmp.X) {
		return false
	}
	c, ok := core.ConstInt(cmp.Y)
	if !ok {
		return false
	}
	onTrue := pb.Succs[0] == b
	atLeast := int64(-1 << 62)
	switch {
	case cmp.Op == token.GTR && onTrue:
		atLeast = c + 1
	case cmp.Op == token.GEQ && onTrue:
		atLeast = c
	case cmp.Op == token.LEQ && !onTrue:
		atLeast = c + 1
	case cmp.Op == token.LSS && !onTrue:
		atLeast = c
	case cmp.Op == token.NEQ && onTrue && c == 0, cmp.Op == token.EQL && !onTrue && c == 0:
		return false // != 0 does not exclude negatives
	}
	if atLeast < k {
		return false
	}
	// no call or store between the test's load and the decrement (same two blocks)
	ld := cmp.X.(*ssa.UnOp)
	seen := false
	for _, blk := range []*ssa.BasicBlock{pb, b} {
		for _, in := range blk.Instrs {
			if in == ssa.Instruction(ld) {
				seen = true
				continue
			}
			if !seen {
				continue
			}
			if in == ssa.Instruction(st) {
				return true
			}
			switch y := in.(type) {
			case *ssa.Store:
				return false
			case *ssa.Call:
				if _, isB := y.Call.Value.(*ssa.Builtin); !isB {
					return false
				}
			}
		}
	}
	return false
}

// countFactor finds, in a divisor, an integer count converted to float: the divisor itself or a factor of a product.
func countFactor(y ssa.Value, depth int) ssa.Value {
	if depth > 4 {
		return nil
	}
	switch x := y.(type) {
	case *ssa.Convert:
		if yt, ok := x.X.Type().Underlying().(*types.Basic); ok && yt.Info()&types.IsInteger != 0 {
			if _, isC := x.X.(*ssa.Const); !isC {
				return x.X
			}
			return nil
		}
		return countFactor(x.X, depth+1)
	case *ssa.ChangeType:
		return countFactor(x.X, depth+1)
	case *ssa.BinOp:
		if x.Op == token.MUL {
			if f := countFactor(x.X, depth+1); f != nil {
				return f
			}
			return countFactor(x.Y, depth+1)
		}
	}
	return nil
}

// padBoundRule: the number of pad symbols, an integer of the document's @counter-style rule, is clamped by a constant
// before it reaches strings.Repeat (which panics when the output length overflows).
func padBoundRule(c *core.Check, r *core.Rule) {
	p := c.Prog
	n := 0
	for _, fn := range append(p.FuncsOfPkg("css/counters"), p.FuncsOfPkg("text")...) {
		if fn.Blocks == nil {
			continue
		}
		fn := fn
		core.Instrs(fn, func(in ssa.Instruction) {
			call, ok := in.(*ssa.Call)
			if !ok || call.Call.StaticCallee() == nil || call.Call.StaticCallee().String() != "strings.Repeat" || len(call.Call.Args) != 2 {
				return
			}
			n++
			cnt := call.Call.Args[1]
			// a lower clamp (MaxInt(0, n)) leaves the upper bound of n in place
			if mc, ok := cnt.(*ssa.Call); ok && len(mc.Call.Args) == 2 {
				name := ""
				if callee := mc.Call.StaticCallee(); callee != nil {
					name = callee.Name()
				} else if bi, ok := mc.Call.Value.(*ssa.Builtin); ok {
					name = bi.Name()
				}
				if name == "MaxInt" || name == "Max" || name == "max" {
					if k, ok := core.ConstInt(mc.Call.Args[0]); ok && k >= 0 {
						cnt = mc.Call.Args[1]
					} else if k, ok := core.ConstInt(mc.Call.Args[1]); ok && k >= 0 {
						cnt = mc.Call.Args[0]
					}
				}
			}
			bounded, how := false, "the count is neither the merge of a constant and a value tested against it, nor tested against a constant on every path to the call"
			if phi, ok := cnt.(*ssa.Phi); ok {
				for i, e := range phi.Edges {
					k, isK := core.ConstInt(e)
					if !isK || k <= 0 {
						continue
					}
					// the other edges come from a block that tested the value against the constant
					okAll := true
					for j, e2 := range phi.Edges {
						if j == i {
							continue
						}
						pred := phi.Block().Preds[j]
						ifi, isIf := pred.Instrs[len(pred.Instrs)-1].(*ssa.If)
						if !isIf {
							okAll = false
							continue
						}
						cmp, isCmp := ifi.Cond.(*ssa.BinOp)
						if !isCmp || cmp.X != e2 {
							okAll = false
							continue
						}
						if kk, isKK := core.ConstInt(cmp.Y); !isKK || kk != k || (cmp.Op != token.GTR && cmp.Op != token.GEQ) || pred.Succs[1] != phi.Block() {
							okAll = false
						}
					}
					if okAll {
						bounded, how = true, fmt.Sprintf("clamped at %d", k)
					}
				}
			}
			if !bounded {
				// the call is reachable only when `count > K` (or >=) was false, or `count < K` (or <=) true
				var atoms []ssa.Value
				pol := map[ssa.Value]bool{}
				for _, a := range core.CondAtoms(fn) {
					bo, ok := a.(*ssa.BinOp)
					if !ok || bo.X != cnt {
						continue
					}
					if k, isK := core.ConstInt(bo.Y); !isK || k <= 0 || k > 1<<20 {
						continue
					}
					switch bo.Op {
					case token.GTR, token.GEQ:
						atoms, pol[a] = append(atoms, a), false
					case token.LSS, token.LEQ:
						atoms, pol[a] = append(atoms, a), true
					}
				}
				if len(atoms) > 0 {
					ok, _ := core.GuardedBy(fn, call.Block(), atoms, func(m map[ssa.Value]bool) bool {
						for a, v := range m {
							if v == pol[a] {
								return true
							}
						}
						return false
					})
					if ok {
						bounded, how = true, "reached only with the count at most a constant"
					}
				}
			}
			key := core.FuncName(fn) + " | " + p.StmtTextAt(fn, call.Pos())
			if fn.Name() == "renderValue" {
				key = "css/counters.renderValue | strings.Repeat(pad symbol, n)"
			}
			r.Cond(bounded, key, p.Pos(call.Pos()), how, "a number of the document (pad length of its @counter-style, value of its counter, tab-size) reaches strings.Repeat unbounded ("+how+"): `pad: 9000000000000000000 \"xx\"`, or a symbolic counter with a value of 9000000000000000000, panics with an output length overflow; smaller ones exhaust the memory")
		})
	}
	if n < 4 {
		r.Anchor(fmt.Sprintf("strings.Repeat calls of css/counters and text: %d found, 4 confirmed by reading (pad, symbolic, additive, tab size)", n))
	}
}

// sideTupleRule: a two-element assignment between side-named values is not crossed (left, right = …Right, …Left).
func sideTupleRule(c *core.Check, r *core.Rule, pkg string, floor int) {
	p := c.Prog
	as := p.SideAssigns(pkg, nil)
	seen := map[string]int{}
	for _, a := range as {
		key := pkg + "." + a.Func + " | " + a.Text
		seen[key]++
		if seen[key] > 1 {
			key = fmt.Sprintf("%s #%d", key, seen[key])
		}
		r.Cond(a.Consistent, key, p.Pos(a.Pos), "each value goes to the variable of its own side", "the two values are assigned crosswise: the left one to the right side and the right one to the left side")
	}
	if len(as) < floor*2/3 {
		r.Unknown("side-named tuple assignments in "+pkg, "-", fmt.Sprintf("%d found, %d on the tree this rule was written for", len(as), floor))
	}
}

// autoRangeRule: the `auto` range of a counter style is unbounded for the systems that represent every integer.
// The last resort of every failure in renderValue is the decimal style, re-entered with a fresh visited set; it ends
// the recursion only because decimal (numeric system, auto range) accepts every integer.  With a narrower automatic
// range a counter outside it (counter-reset: c 3000000000) falls back to decimal, which refuses it and falls back to
// decimal, until the stack is exhausted.
func autoRangeRule(c *core.Check, r *core.Rule) {
	p := c.Prog
	fn := p.Method("css/counters", "CounterStyle", "renderValue")
	if fn == nil {
		r.Anchor("css/counters.CounterStyle.renderValue")
		return
	}
	consts := func(v ssa.Value) (set map[int64]bool, exact bool) {
		set, exact = map[int64]bool{}, true
		seen := map[ssa.Value]bool{}
		var walk func(v ssa.Value)
		walk = func(v ssa.Value) {
			if seen[v] {
				return
			}
			seen[v] = true
			if phi, ok := v.(*ssa.Phi); ok {
				for _, e := range phi.Edges {
					walk(e)
				}
				return
			}
			if k, ok := core.ConstInt(v); ok {
				set[k] = true
				return
			}
			exact = false
		}
		walk(v)
		return
	}
	found := 0
	core.Instrs(fn, func(in ssa.Instruction) {
		st, ok := in.(*ssa.Store)
		if !ok {
			return
		}
		ia, ok := st.Addr.(*ssa.IndexAddr)
		if !ok {
			return
		}
		pt, ok := ia.X.Type().Underlying().(*types.Pointer)
		if !ok {
			return
		}
		arr, ok := pt.Elem().Underlying().(*types.Array)
		if !ok || arr.Len() != 2 {
			return
		}
		idx, ok := core.ConstInt(ia.Index)
		if !ok {
			return
		}
		set, exact := consts(st.Val)
		if !exact || len(set) == 0 {
			return // a range copied from the descriptors
		}
		found++
		// the extreme values of int on the platform of the analysed build
		var minInt, maxInt int64 = -1 << 63, 1<<63 - 1
		if pk := p.ByPath["css/counters"]; pk != nil && pk.TypesSizes != nil && pk.TypesSizes.Sizeof(types.Typ[types.Int]) == 4 {
			minInt, maxInt = -1<<31, 1<<31-1
		}
		if idx == 0 {
			r.Cond(set[minInt], "css/counters.renderValue | lower bound of the automatic range", p.Pos(st.Pos()), "the smallest integer is one of the lower bounds (the systems defined for every integer)",
				fmt.Sprintf("the lower bounds of the automatic range are %v: decimal, the last resort, refuses the integers below and falls back to itself until the stack is exhausted", keysOf(set)))
		} else {
			r.Cond(len(set) == 1 && set[maxInt], "css/counters.renderValue | upper bound of the automatic range", p.Pos(st.Pos()), "the largest integer",
				fmt.Sprintf("the upper bounds of the automatic range are %v: decimal, the last resort, refuses the integers above (counter-reset: c 3000000000) and falls back to itself until the stack is exhausted", keysOf(set)))
		}
	})
	if found != 2 {
		r.Anchor(fmt.Sprintf("renderValue: the two constant bounds of the automatic range (%d found)", found))
	}
}

func keysOf(m map[int64]bool) []int64 {
	var out []int64
	for k := range m {
		out = append(out, k)
	}
	sort.Slice(out, func(i, j int) bool { return out[i] < out[j] })
	return out
}

// fallbackValueRule: every restart of renderValue (fallback style, decimal) renders the value it was asked to render:
// the value argument of each recursive call is the function's own parameter, not the absolute value taken for the
// systems that write the sign apart.
func fallbackValueRule(c *core.Check, r *core.Rule) {
	p := c.Prog
	fn := p.Method("css/counters", "CounterStyle", "renderValue")
	if fn == nil || len(fn.Params) < 2 {
		r.Anchor("css/counters.CounterStyle.renderValue")
		return
	}
	par := fn.Params[1] // receiver, counterValue, …
	n := 0
	core.Instrs(fn, func(in ssa.Instruction) {
		call, ok := in.(*ssa.Call)
		if !ok {
			return
		}
		cal := call.Call.StaticCallee()
		if cal == nil || (cal.Name() != "renderValue" && cal.Name() != "RenderValue") || len(call.Call.Args) < 2 {
			return
		}
		n++
		key := "css/counters.renderValue | " + p.StmtTextAt(fn, call.Pos())
		r.Cond(call.Call.Args[1] == ssa.Value(par), key, p.Pos(call.Pos()), "the value handed on is the parameter counterValue",
			"the value handed to the fallback is not the one renderValue was asked for (the absolute value taken for the signed systems: an additive style without a representation for 5 renders -5 as 5)")
	})
	if n < 10 {
		r.Anchor(fmt.Sprintf("renderValue: restarts with another style (%d found, at least 10 confirmed by reading)", n))
	}
}

// staleErrorRule: no error of a previous iteration is tested again.  In a loop, an error variable that is carried
// from one iteration to the next (a phi at the loop header whose back-edge value can be non-nil) and tested against
// nil inside the loop makes every iteration after a failing one fail too: the items that follow an invalid one are
// dropped with it.  Loops where the variable is reset (the back-edge value is nil, or the variable is declared in
// the body) have no such phi.
func staleErrorRule(c *core.Check, r *core.Rule, pkgs ...string) {
	p := c.Prog
	errT := types.Universe.Lookup("error").Type()
	loops := 0
	for _, pkg := range pkgs {
		for _, fn := range p.FuncsOfPkg(pkg) {
			if fn.Blocks == nil {
				continue
			}
			for _, l := range core.Loops(fn) {
				// loops that test an error against nil
				tests := false
				for b := range l.Blocks {
					for _, in := range b.Instrs {
						if bo, ok := in.(*ssa.BinOp); ok && (bo.Op == token.NEQ || bo.Op == token.EQL) && types.Identical(bo.X.Type(), errT) {
							tests = true
						}
					}
				}
				if !tests {
					continue
				}
				loops++
				bad := ""
				var at token.Pos
				for _, in := range l.Header.Instrs {
					phi, ok := in.(*ssa.Phi)
					if !ok || !types.Identical(phi.Type(), errT) {
						continue
					}
					carried := false
					for i, pred := range l.Header.Preds {
						if !l.Blocks[pred] {
							continue
						}
						if k, ok := phi.Edges[i].(*ssa.Const); ok && k.Value == nil {
							continue
						}
						carried = true
					}
					if !carried {
						continue
					}
					for b := range l.Blocks {
						for _, in2 := range b.Instrs {
							bo, ok := in2.(*ssa.BinOp)
							if !ok || (bo.Op != token.NEQ && bo.Op != token.EQL) {
								continue
							}
							if core.DerivesFrom(bo.X, func(v ssa.Value) bool { return v == ssa.Value(phi) }) {
								bad, at = phi.Comment, bo.Pos()
							}
						}
					}
				}
				key := fmt.Sprintf("%s | loop at %s", core.FuncName(fn), p.StmtTextAt(fn, l.Header.Instrs[len(l.Header.Instrs)-1].Pos()))
				pos := p.Pos(fn.Pos())
				if at != token.NoPos {
					pos = p.Pos(at)
				}
				r.Cond(at == token.NoPos, key, pos, "every error tested in the loop is assigned in the same iteration", "the error variable "+bad+" keeps its value from one iteration to the next and is tested again: after one invalid item every following item of the list is dropped too (`div { &::selection {…} & p {width:10px} }` lost the second nested rule)")
			}
		}
	}
	if loops == 0 {
		r.Anchor("loops testing an error in " + strings.Join(pkgs, ", "))
	}
}

// importScopeRule: the set of the style sheets being imported is a stack, not a history.  In the loop over the rules
// of a sheet, the url marked before the imported sheet is loaded is unmarked by a direct delete before the next rule
// is looked at (a deferred delete runs when the whole sheet is finished: a second @import of the same url in the same
// sheet would be taken for a cycle and ignored, and the cascade would lose its declarations).
func importScopeRule(c *core.Check, r *core.Rule) {
	p := c.Prog
	fn := p.Fn("html/tree", "preprocessStylesheetImports")
	if fn == nil {
		r.Anchor("html/tree.preprocessStylesheetImports")
		return
	}
	n := 0
	core.Instrs(fn, func(in ssa.Instruction) {
		call, ok := in.(*ssa.Call)
		if !ok {
			return
		}
		cal := call.Call.StaticCallee()
		if cal == nil || cal.Name() != "Add" || len(call.Call.Args) != 2 {
			return
		}
		if _, isMap := call.Call.Args[0].Type().Underlying().(*types.Map); !isMap {
			return
		}
		l := core.InnermostLoop(fn, call.Block())
		if l == nil {
			return
		}
		n++
		key := call.Call.Args[1]
		isDel := func(x ssa.Instruction) bool {
			c2, ok := x.(*ssa.Call) // a direct call: a Defer does not count
			if !ok {
				return false
			}
			b, isB := c2.Call.Value.(*ssa.Builtin)
			return isB && b.Name() == "delete" && len(c2.Call.Args) == 2 && (c2.Call.Args[1] == key || core.ResolveLoad(c2.Call.Args[1]) == core.ResolveLoad(key))
		}
		leaves := func(x ssa.Instruction) bool {
			b := x.Block()
			if !l.Blocks[b] {
				return true
			}
			return b == l.Header && len(b.Instrs) > 0 && b.Instrs[0] == x
		}
		ok2 := core.PassBetween(in, isDel, leaves)
		r.Cond(ok2, "html/tree.preprocessStylesheetImports | url unmarked before the next rule", p.Pos(call.Pos()), "a direct delete of the same key on every path to the next iteration", "the url stays marked as being imported after its sheet was loaded (no direct delete before the next rule; a deferred one runs when the whole sheet is done): `@import a; @import b; @import a` ignores the second import of a and b wins the cascade")
	})
	if n == 0 {
		r.Anchor("preprocessStylesheetImports: importing.Add(url) in the loop over the rules")
	}
}
