package props

import (
	"fmt"
	"go/ast"
	"go/token"
	"go/types"
	"os"
	"sort"
	"strings"
	"time"

	"golang.org/x/tools/go/ssa"

	"wrverif/core"
)

func init() { register("C14", c14) }

func invokeName(in ssa.Instruction) string {
	c, ok := in.(ssa.CallInstruction)
	if !ok {
		return ""
	}
	if c.Common().IsInvoke() {
		return c.Common().Method.Name()
	}
	return ""
}

func c14(c *core.Check) {
	c.Explain = "Structural necessary conditions of a well-formed drawing, decided on the SSA form: (R1) typestate of the current path — every Paint/Clip call of the drawing code is reached only with a path under construction; (R2) the page protocol of Document.Write (one AddPage per iteration of the loop over the pages, one CreateAnchors after it, fed by resolveLinks); (R3) link consistency guards (first id wins, dangling internal links dropped); (R4) metadata plumbing from <title>/<meta> to the backend setters; (R5) text is drawn from runs whose font was registered. Finiteness of the numbers, the bookmark outline and the order of graphic-state operations are not decided. Also decided: (R7) every floating point division by an integer count is reached only with a non-zero count (named sites excepted).  (R8) the bookmark outline state is carried across pages; (R9) radial gradient radii are made non-degenerate before they divide."
	c14Paths(c)
	c14Pages(c)
	c14Links(c)
	c14Metadata(c)
	c14Fonts(c)
	c14Counts(c)
	c14Bookmarks(c)
	c14Radial(c)
	c14Dashes(c)
	c14BookmarkWatch(c)
	c14AttachmentLinks(c)
	c14BackgroundDivisors(c)
	c14CountMinus(c)
	c14FiniteAttributes(c)
	c14MarkerScale(c)
	c14GradientBoxDivisors(c)
	c14CriticalPointsFiltered(c)
	r6 := c.Rule("R6", "no call passes two same-typed arguments under each other's parameter names (swapped arguments): every pair of arguments named after the callee's parameters is aligned with them", 86)
	argNameRule(c, r6, "html/document", map[string]bool{"document.go": true, "draw.go": true}, 45)
	argNameRule(c, r6, "images", nil, 20)
	argNameRule(c, r6, "text/draw", nil, 15)
}

// ---- R5 fonts before text
func c14Fonts(c *core.Check) {
	p := c.Prog
	r := c.Rule("R5", "text reaches the backend only as drawings produced by text/draw.Context.CreateFirstLine, and in createFirstLinePango the font stored in every emitted run is the font registered with AddFont earlier on every path", 1)
	isCFL := func(v ssa.Value) bool {
		call, ok := v.(*ssa.Call)
		return ok && call.Call.StaticCallee() != nil && call.Call.StaticCallee().Name() == "CreateFirstLine"
	}
	n := 0
	for _, fn := range p.ModFuncs {
		if inPkgs("utils/...", "backend")(fn) {
			continue
		}
		core.Instrs(fn, func(in ssa.Instruction) {
			if invokeName(in) != "DrawText" {
				return
			}
			n++
			arg := in.(ssa.CallInstruction).Common().Args[0]
			leaves := listLeaves(arg)
			ok := len(leaves) > 0
			for _, l := range leaves {
				if !isCFL(l) {
					ok = false
				}
			}
			r.Cond(ok, core.FuncName(fn)+" | "+p.StmtTextAt(fn, in.Pos()), p.Pos(in.Pos()), "the drawings come from CreateFirstLine, which registers their fonts", "the text handed to DrawText does not come from CreateFirstLine: its fonts may not be registered")
		})
	}
	if n < 2 {
		r.Unknown("DrawText sites", "-", fmt.Sprintf("%d DrawText call sites found, 2 expected", n))
	}
	fl := p.Lookup("text/draw.Context.createFirstLinePango")
	if fl == nil {
		r.Anchor("text/draw.Context.createFirstLinePango")
		return
	}
	var addFont ssa.Instruction
	core.Instrs(fl, func(in ssa.Instruction) {
		if invokeName(in) == "AddFont" {
			addFont = in
		}
	})
	if addFont == nil {
		r.Fail("createFirstLinePango | AddFont", p.Pos(fl.Pos()), "no AddFont call found")
		return
	}
	strip := func(v ssa.Value) ssa.Value {
		for {
			switch x := v.(type) {
			case *ssa.MakeInterface:
				v = x.X
			case *ssa.ChangeType:
				v = x.X
			case *ssa.Convert:
				v = x.X
			default:
				return v
			}
		}
	}
	registered := strip(addFont.(ssa.CallInstruction).Common().Args[0])
	m := 0
	core.Instrs(fl, func(in ssa.Instruction) {
		st, ok := in.(*ssa.Store)
		if !ok {
			return
		}
		fa, ok := st.Addr.(*ssa.FieldAddr)
		if !ok || core.FieldName(fa) != "Font" || !strings.HasSuffix(fa.X.Type().String(), "backend.TextRun") {
			return
		}
		m++
		same := strip(st.Val) == registered
		before, _ := core.MustPassThrough(fl, func(x ssa.Instruction) bool { return x == addFont }, func(x ssa.Instruction) bool { return x == in })
		r.Cond(same && before, "createFirstLinePango | "+p.StmtTextAt(fl, st.Pos()), p.Pos(st.Pos()), "the run's font is the value registered by the preceding AddFont", fmt.Sprintf("same font value as AddFont: %v; AddFont precedes on every path: %v", same, before))
	})
	if m == 0 {
		r.Unknown("createFirstLinePango | run font", p.Pos(fl.Pos()), "no store into TextRun.Font found")
	}
}

// listLeaves traces a list value back to the values put into it: through slices of local arrays, appends, phis,
// local variables and variables captured by a closure (nil lists are ignored). An untraceable source is returned as is.
func listLeaves(v ssa.Value) []ssa.Value {
	var out []ssa.Value
	seen := map[ssa.Value]bool{}
	var walk func(v ssa.Value)
	storesInto := func(al ssa.Value) {
		if al.Referrers() == nil {
			return
		}
		for _, r := range *al.Referrers() {
			switch x := r.(type) {
			case *ssa.Store:
				if x.Addr == al {
					walk(x.Val)
				}
			case *ssa.IndexAddr:
				if x.Referrers() != nil {
					for _, rr := range *x.Referrers() {
						if st, ok := rr.(*ssa.Store); ok && st.Addr == ssa.Value(x) {
							walk(st.Val)
						}
					}
				}
			}
		}
	}
	walk = func(v ssa.Value) {
		if v == nil || seen[v] {
			return
		}
		seen[v] = true
		switch x := v.(type) {
		case *ssa.Const:
			return
		case *ssa.Slice:
			walk(x.X)
		case *ssa.Alloc:
			storesInto(x)
		case *ssa.Phi:
			for _, e := range x.Edges {
				walk(e)
			}
		case *ssa.UnOp:
			switch a := x.X.(type) {
			case *ssa.Alloc:
				storesInto(a)
			case *ssa.FreeVar:
				fn := a.Parent()
				for i, fv := range fn.FreeVars {
					if fv != a || fn.Parent() == nil {
						continue
					}
					core.Instrs(fn.Parent(), func(in ssa.Instruction) {
						if mc, ok := in.(*ssa.MakeClosure); ok && mc.Fn == ssa.Value(fn) && i < len(mc.Bindings) {
							walk(mc.Bindings[i])
						}
					})
				}
			default:
				out = append(out, v)
			}
		case *ssa.Call:
			if bi, ok := x.Call.Value.(*ssa.Builtin); ok && bi.Name() == "append" {
				walk(x.Call.Args[0])
				for _, op := range core.AppendOperands(x) {
					walk(op)
				}
				return
			}
			out = append(out, v)
		default:
			out = append(out, v)
		}
	}
	walk(v)
	return out
}

// ---- R2 page protocol
func c14Pages(c *core.Check) {
	p := c.Prog
	r := c.Rule("R2", "Document.Write calls AddPage exactly once per iteration of its loop over d.Pages (the single AddPage call is in that loop, every iteration passes it, no early exit, not nested in another loop) and calls CreateAnchors exactly once, after the loop, with the anchors computed by resolveLinks", 2)
	w := p.Lookup("html/document.(*Document).Write")
	if w == nil {
		r.Anchor("html/document.(*Document).Write")
		return
	}
	var addPages, createAnchors []ssa.Instruction
	core.Instrs(w, func(in ssa.Instruction) {
		switch invokeName(in) {
		case "AddPage":
			addPages = append(addPages, in)
		case "CreateAnchors":
			createAnchors = append(createAnchors, in)
		}
	})
	pos := p.Pos(w.Pos())
	if len(addPages) != 1 {
		r.Fail("Write | single AddPage call", pos, fmt.Sprintf("%d AddPage calls found in Write", len(addPages)))
		return
	}
	ap := addPages[0]
	r.OK("Write | single AddPage call", p.Pos(ap.Pos()), "one call")
	// innermost loop containing it
	var loop *core.Loop
	nContaining := 0
	for _, l := range core.Loops(w) {
		if l.Blocks[ap.Block()] {
			nContaining++
			if loop == nil || len(l.Blocks) < len(loop.Blocks) {
				loop = l
			}
		}
	}
	if loop == nil {
		r.Fail("Write | AddPage in the loop over d.Pages", p.Pos(ap.Pos()), "AddPage is not in a loop")
		return
	}
	// the loop ranges over d.Pages: its bound is len(load of field Pages of the receiver)
	overPages := false
	for _, in := range loop.Header.Instrs {
		bo, ok := in.(*ssa.BinOp)
		if !ok || bo.Op != token.LSS {
			continue
		}
		if call, ok := bo.Y.(*ssa.Call); ok {
			if bi, ok := call.Call.Value.(*ssa.Builtin); ok && bi.Name() == "len" {
				if core.DerivesFrom(call.Call.Args[0], func(v ssa.Value) bool {
					fa, ok := v.(*ssa.FieldAddr)
					return ok && core.FieldName(fa) == "Pages"
				}) {
					overPages = true
				}
			}
		}
	}
	r.Cond(overPages && nContaining == 1, "Write | AddPage in the loop over d.Pages", p.Pos(ap.Pos()), "the loop is bounded by len(d.Pages) and is not nested", fmt.Sprintf("loop over d.Pages: %v; loops containing the call: %d", overPages, nContaining))
	always, exits := core.EveryIterationPasses(loop, func(in ssa.Instruction) bool { return in == ap })
	r.Cond(always && len(exits) == 0, "Write | every iteration adds a page", p.Pos(ap.Pos()), "every path through the loop body calls AddPage; the loop is only left from its header", fmt.Sprintf("some iteration skips AddPage: %v; early exits: %d", !always, len(exits)))
	if len(createAnchors) != 1 {
		r.Fail("Write | single CreateAnchors call after the loop", pos, fmt.Sprintf("%d CreateAnchors calls found", len(createAnchors)))
		return
	}
	ca := createAnchors[0]
	inLoop := false
	for _, l := range core.Loops(w) {
		if l.Blocks[ca.Block()] {
			inLoop = true
		}
	}
	after := loop.Header.Dominates(ca.Block()) && !loop.Blocks[ca.Block()]
	fromResolve := false
	if call, ok := ca.(ssa.CallInstruction); ok && len(call.Common().Args) == 1 {
		fromResolve = core.DerivesFrom(call.Common().Args[0], func(v ssa.Value) bool {
			ex, ok := v.(*ssa.Extract)
			if !ok || ex.Index != 1 {
				return false
			}
			cl, ok := ex.Tuple.(*ssa.Call)
			return ok && cl.Call.StaticCallee() != nil && cl.Call.StaticCallee().Name() == "resolveLinks"
		})
	}
	r.Cond(!inLoop && after && fromResolve, "Write | single CreateAnchors call after the loop", p.Pos(ca.Pos()), "called once, after the page loop, with the second result of resolveLinks", fmt.Sprintf("in a loop: %v; after the page loop: %v; argument from resolveLinks: %v", inLoop, after, fromResolve))
}

// ---- R3 links
func c14Links(c *core.Check) {
	p := c.Prog
	r := c.Rule("R3", "resolveLinks appends an anchor only when its name is not yet in the set of defined anchors and records the name before the next one is examined; it appends an internal link only when its target is in that set; gatherLinksAndBookmarks stores an anchor position only when the page has none under that name (first id wins)", 2)
	rl := p.Lookup("html/document.(*Document).resolveLinks")
	if rl == nil {
		r.Anchor("html/document.(*Document).resolveLinks")
	} else {
		elemName := func(call *ssa.Call) string {
			if sl, ok := call.Type().Underlying().(*types.Slice); ok {
				if n, ok := sl.Elem().(*types.Named); ok {
					return n.Obj().Name()
				}
			}
			return ""
		}
		isSetCall := func(in ssa.Instruction, name string) (ssa.Value, bool) {
			call, ok := in.(*ssa.Call)
			if !ok {
				return nil, false
			}
			callee := call.Call.StaticCallee()
			if callee == nil || callee.Name() != name || len(call.Call.Args) != 2 {
				return nil, false
			}
			if n, ok := call.Call.Args[0].Type().(*types.Named); !ok || n.Obj().Name() != "Set" {
				return nil, false
			}
			return call.Call.Args[1], true
		}
		nAnch, nLink := 0, 0
		core.Instrs(rl, func(in ssa.Instruction) {
			call, ok := in.(*ssa.Call)
			if !ok {
				return
			}
			bi, ok := call.Call.Value.(*ssa.Builtin)
			if !ok || bi.Name() != "append" {
				return
			}
			switch elemName(call) {
			case "Anchor":
				nAnch++
				// the name stored in the appended anchor
				var name ssa.Value
				for _, op := range core.AppendOperands(call) {
					if u, ok := op.(*ssa.UnOp); ok {
						if al, ok := u.X.(*ssa.Alloc); ok && al.Referrers() != nil {
							for _, rr := range *al.Referrers() {
								if fa, ok := rr.(*ssa.FieldAddr); ok && core.FieldName(fa) == "Name" && fa.Referrers() != nil {
									for _, st := range *fa.Referrers() {
										if s, ok := st.(*ssa.Store); ok {
											name = s.Val
										}
									}
								}
							}
						}
					}
				}
				key := "resolveLinks | " + p.StmtTextAt(rl, call.Pos())
				if name == nil {
					r.Unknown(key, p.Pos(call.Pos()), "the Name of the appended anchor was not found")
					return
				}
				var hasAtoms []ssa.Value
				for _, a := range core.CondAtoms(rl) {
					if ai, ok := a.(ssa.Instruction); ok {
						if k, ok := isSetCall(ai, "Has"); ok && k == name {
							hasAtoms = append(hasAtoms, a)
						}
					}
				}
				guarded := false
				for _, a := range hasAtoms {
					if !core.ForwardReach(rl.Blocks[0], map[ssa.Value]bool{a: true}, nil)[call.Block()] {
						guarded = true
					}
				}
				// Add(name) follows on every path to the next iteration
				added := true
				seen := map[*ssa.BasicBlock]bool{}
				var walk func(b *ssa.BasicBlock, from int)
				walk = func(b *ssa.BasicBlock, from int) {
					for i := from; i < len(b.Instrs); i++ {
						if k, ok := isSetCall(b.Instrs[i], "Add"); ok && k == name {
							return
						}
					}
					for _, s := range b.Succs {
						if s.Dominates(b) { // back edge reached without Add
							added = false
							return
						}
						if !seen[s] {
							seen[s] = true
							walk(s, 0)
						}
					}
					if len(b.Succs) == 0 {
						added = false
					}
				}
				idx := 0
				for i, x := range call.Block().Instrs {
					if x == ssa.Instruction(call) {
						idx = i
					}
				}
				walk(call.Block(), idx)
				r.Cond(guarded && added, key, p.Pos(call.Pos()), "appended only when !anchors.Has(name), and anchors.Add(name) follows on every path", fmt.Sprintf("guarded by !anchors.Has(name): %v; followed by anchors.Add(name): %v — an id defined on two pages would be handed to CreateAnchors twice", guarded, added))
			case "Link":
				nLink++
				key := "resolveLinks | " + p.StmtTextAt(rl, call.Pos())
				if nLink > 1 {
					key += fmt.Sprintf(" #%d", nLink)
				}
				// atoms: link.Type == "internal", anchors.Has(link.Target)
				var internal, has ssa.Value
				for _, a := range core.CondAtoms(rl) {
					if bo, ok := a.(*ssa.BinOp); ok && bo.Op == token.EQL {
						if s, ok := core.ConstStr(bo.Y); ok && s == "internal" {
							internal = a
						}
					}
					if ai, ok := a.(ssa.Instruction); ok {
						if k, ok := isSetCall(ai, "Has"); ok && core.DerivesFrom(k, func(v ssa.Value) bool {
							fa, ok := v.(*ssa.FieldAddr)
							return ok && core.FieldName(fa) == "Target"
						}) {
							has = a
						}
					}
				}
				if internal == nil || has == nil {
					r.Fail(key, p.Pos(call.Pos()), "the tests link.Type == \"internal\" and anchors.Has(link.Target) were not both found")
					return
				}
				ok, _ := core.GuardedBy(rl, call.Block(), []ssa.Value{internal, has}, func(m map[ssa.Value]bool) bool { return !m[internal] || m[has] })
				r.Cond(ok, key, p.Pos(call.Pos()), "a link is kept only when it is not internal or its target is a defined anchor", "an internal link can be kept although its target is not a defined anchor")
			}
		})
		if nAnch < 1 || nLink < 2 {
			r.Unknown("resolveLinks | appends found", p.Pos(rl.Pos()), fmt.Sprintf("%d anchor appends and %d link appends found (1 and 2 expected)", nAnch, nLink))
		}
	}
	gl := p.Lookup("html/document.gatherLinksAndBookmarks")
	if gl == nil {
		r.Anchor("html/document.gatherLinksAndBookmarks")
		return
	}
	n := 0
	core.Instrs(gl, func(in ssa.Instruction) {
		mu, ok := in.(*ssa.MapUpdate)
		if !ok {
			return
		}
		n++
		key := "gatherLinksAndBookmarks | " + p.StmtTextAt(gl, mu.Pos())
		var inAnchors ssa.Value
		for _, a := range core.CondAtoms(gl) {
			if ex, ok := a.(*ssa.Extract); ok && ex.Index == 1 {
				if l, ok := ex.Tuple.(*ssa.Lookup); ok && l.CommaOk && l.X == mu.Map && (l.Index == mu.Key || core.ResolveLoad(l.Index) == core.ResolveLoad(mu.Key)) {
					inAnchors = a
				}
			}
		}
		if inAnchors == nil {
			r.Fail(key, p.Pos(mu.Pos()), "no membership test of the same name in the same map decides this store")
			return
		}
		reach := core.ForwardReach(gl.Blocks[0], map[ssa.Value]bool{inAnchors: true}, nil)
		r.Cond(!reach[mu.Block()], key, p.Pos(mu.Pos()), "the position is stored only when the name is not yet in the page's anchors", "a later element with the same id overwrites the anchor of the first one")
	})
	if n == 0 {
		r.Unknown("gatherLinksAndBookmarks | anchor store", p.Pos(gl.Pos()), "no store into the anchors map found")
	}
}

// ---- R4 metadata
var c14Setters = map[string]string{
	"SetTitle": "Title", "SetDescription": "Description", "SetCreator": "Generator", "SetAuthors": "Authors",
	"SetKeywords": "Keywords", "SetDateCreation": "Created", "SetDateModification": "Modified",
}

var c14MetaNames = map[string]string{
	"keywords": "Keywords", "author": "Authors", "description": "Description", "generator": "Generator",
	"dcterms.created": "Created", "dcterms.modified": "Modified",
}

func c14Metadata(c *core.Check) {
	p := c.Prog
	r := c.Rule("R4", "Document.Write hands each backend setter the field of d.Metadata that belongs to it (SetTitle←Title, SetDescription←Description, SetCreator←Generator, SetAuthors←Authors, SetKeywords←Keywords, SetDateCreation←Created, SetDateModification←Modified); GetHtmlMetadata fills each field from the <meta name> (or <title>) that belongs to it", 12)
	w := p.Lookup("html/document.(*Document).Write")
	if w == nil {
		r.Anchor("html/document.(*Document).Write")
	} else {
		seen := map[string]bool{}
		core.Instrs(w, func(in ssa.Instruction) {
			name := invokeName(in)
			want, ok := c14Setters[name]
			if !ok {
				return
			}
			seen[name] = true
			call := in.(ssa.CallInstruction).Common()
			got := ""
			if len(call.Args) == 1 {
				core.DerivesFrom(call.Args[0], func(v ssa.Value) bool {
					if fa, ok := v.(*ssa.FieldAddr); ok && got == "" {
						if inner, ok := fa.X.(*ssa.FieldAddr); ok && core.FieldName(inner) == "Metadata" {
							got = core.FieldName(fa)
							return true
						}
					}
					return false
				})
			}
			r.Cond(got == want, "Write | "+name, p.Pos(in.Pos()), "d.Metadata."+want, fmt.Sprintf("receives d.Metadata.%s instead of d.Metadata.%s", got, want))
		})
		var missing []string
		for s := range c14Setters {
			if !seen[s] {
				missing = append(missing, s)
			}
		}
		sort.Strings(missing)
		if len(missing) > 0 {
			r.Fail("Write | all setters called", p.Pos(w.Pos()), "not called: "+strings.Join(missing, " "))
		}
	}
	// GetHtmlMetadata (AST, by object identity)
	gm := p.Lookup("utils.GetHtmlMetadata")
	body := p.Body(gm)
	info := p.Info("utils")
	if gm == nil || body == nil || info == nil {
		r.Anchor("utils.GetHtmlMetadata")
		return
	}
	// return literal: field -> variable object
	fieldVar := map[string]types.Object{}
	ast.Inspect(body, func(n ast.Node) bool {
		ret, ok := n.(*ast.ReturnStmt)
		if !ok || len(ret.Results) != 1 {
			return true
		}
		cl, ok := ret.Results[0].(*ast.CompositeLit)
		if !ok {
			return true
		}
		for _, e := range cl.Elts {
			kv, ok := e.(*ast.KeyValueExpr)
			if !ok {
				continue
			}
			k, ok1 := kv.Key.(*ast.Ident)
			v, ok2 := kv.Value.(*ast.Ident)
			if ok1 && ok2 {
				fieldVar[k.Name] = info.Uses[v]
			}
		}
		return true
	})
	if len(fieldVar) < 7 {
		r.Unknown("GetHtmlMetadata | returned literal", p.Pos(gm.Pos()), fmt.Sprintf("only %d field: variable pairs found in the returned DocumentMetadata literal", len(fieldVar)))
		return
	}
	assigned := func(stmts []ast.Stmt) map[types.Object]bool {
		out := map[types.Object]bool{}
		for _, s := range stmts {
			ast.Inspect(s, func(n ast.Node) bool {
				as, ok := n.(*ast.AssignStmt)
				if !ok {
					return true
				}
				for _, l := range as.Lhs {
					if id, ok := l.(*ast.Ident); ok {
						if o := info.Uses[id]; o != nil {
							out[o] = true
						}
					}
				}
				return true
			})
		}
		return out
	}
	metaVars := map[types.Object]bool{}
	for _, o := range fieldVar {
		metaVars[o] = true
	}
	found := map[string]bool{}
	for _, sw := range core.Switches(body) {
		for i, cases := range sw.Cases {
			for _, ce := range cases {
				k, ok := core.StrConst(info, ce)
				if ok {
					want, isMeta := c14MetaNames[k]
					if !isMeta {
						continue
					}
					found[k] = true
					as := assigned(sw.Bodies[i])
					var wrong []string
					okWant := as[fieldVar[want]]
					for o := range as {
						if metaVars[o] && o != fieldVar[want] {
							wrong = append(wrong, o.Name())
						}
					}
					r.Cond(okWant && len(wrong) == 0, "GetHtmlMetadata | <meta name="+k+">", p.Pos(ce.Pos()), "fills the variable returned as "+want, fmt.Sprintf("fills %s: %v; also assigns %v", want, okWant, wrong))
					continue
				}
				// case atom.Title
				if sel, ok := ce.(*ast.SelectorExpr); ok && sel.Sel.Name == "Title" {
					found["<title>"] = true
					as := assigned(sw.Bodies[i])
					var wrong []string
					for o := range as {
						if metaVars[o] && o != fieldVar["Title"] {
							wrong = append(wrong, o.Name())
						}
					}
					r.Cond(as[fieldVar["Title"]] && len(wrong) == 0, "GetHtmlMetadata | <title>", p.Pos(ce.Pos()), "fills the variable returned as Title", fmt.Sprintf("assigns %v", wrong))
				}
			}
		}
	}
	for k := range c14MetaNames {
		if !found[k] {
			r.Fail("GetHtmlMetadata | <meta name="+k+">", p.Pos(gm.Pos()), "no case for this standard metadata name")
		}
	}
	if !found["<title>"] {
		r.Fail("GetHtmlMetadata | <title>", p.Pos(gm.Pos()), "no case for the title element")
	}
}

// ---- R1 path before paint / clip
// sites whose incoming state is not exactly {NonEmpty} for a reason confirmed by reading (function | statement)
var c14PathNotes = map[string]string{
	"html/document.drawContext.drawLine$1 | ctx.dst.Paint(backend.Stroke)":    "the `x1 == x2 … else if y1 == y2` chains of the double/ridge/groove styles have no else: the function is documented to work for axis-aligned segments only, and its two callers pass one (collapsed-border segments have a border box with a zero width or height; text decorations repeat the same y); an equality between float arguments this typestate does not track",
	"html/document.drawContext.drawLine$1 | ctx.dst.Paint(backend.Stroke) #2": "same chain (first stroke of ridge/groove)",
}

func c14Paths(c *core.Check) {
	p := c.Prog
	r := c.Rule("R1", "typestate of the current path: every Paint and Clip call of the drawing code is reached only in the state NonEmpty (a MoveTo/LineTo/CubicTo/Rectangle since the last Paint/Clip on every path, through calls and OnNewStack closures; range loops proven non-empty run once; functions switching on a side constant are analysed per side passed by their callers); a site reached with a possibly empty path is a finding unless it is a named, reasoned site", 23)
	a := core.NewPathAnalysis(p)
	seen := map[string]int{}
	n := 0
	for _, site := range a.Sites {
		fn := site.Parent()
		key := core.FuncName(fn) + " | " + p.StmtTextAt(fn, site.Pos())
		seen[key]++
		if seen[key] > 1 {
			key = fmt.Sprintf("%s #%d", key, seen[key])
		}
		st := a.SiteIn[site]
		pos := p.Pos(site.Pos())
		switch {
		case st == core.PathN:
			n++
			how := "incoming state {NonEmpty}"
			if cs := a.CaseSplit[fn]; cs != "" {
				how += " (" + cs + ")"
			}
			r.OK(key, pos, how)
		case st == 0:
			r.Skip(key, pos, "not reached by the analysis (no analysed entry)")
		default:
			if why, ok := c14PathNotes[key]; ok {
				r.Skip(key, pos, "incoming state "+st.String()+"; reasoned: "+why)
			} else {
				why := ""
				if u := a.Unknown[fn]; u != "" {
					why = "; the function is entered with an unknown state: " + u
				}
				r.Fail(key, pos, "reached with incoming state "+st.String()+": on some path no path segment was added since the last Paint/Clip (or since entry)"+why)
			}
		}
	}
	for k := range c14PathNotes {
		if seen[k] == 0 && seen[stripN(k)] == 0 {
			r.Skip("stale note "+k, "-", "the reasoned table names a Paint/Clip site that no longer exists (not a violation: the table entry is simply unused)")
		}
	}
	if n < 20 {
		r.Unknown("Paint/Clip sites decided", "-", fmt.Sprintf("only %d sites with incoming state {NonEmpty}; 24 on the tree this rule was written for", n))
	}
}

// c14Counts: a length divided by a count of repetitions is finite only if the count is not zero.
func c14Counts(c *core.Check) {
	p := c.Prog
	r := c.Rule("R7", "finite sizes: every floating point division of the drawing and background layout code whose divisor is an integer count (a number of repetitions, tracks, segments) is reached only with a count that cannot be zero — clamped by a max with 1, or excluded by a test on every path", 22)
	for _, pkg := range []string{"html/layout", "html/document", "images", "svg", "text/draw", "backend"} {
		for _, fn := range p.FuncsOfPkg(pkg) {
			for _, b := range floatCountDivs(fn) {
				y := countFactor(b.Y, 0)
				key := core.FuncName(fn) + " | " + opText(p, fn, b)
				t0 := time.Now()
				ok, how := p.CountNonZero(fn, b, y)
				if os.Getenv("WRVERIF_DEBUG_COUNTS") != "" {
					fmt.Fprintln(os.Stderr, "count div:", time.Since(t0), p.Pos(b.Pos()), key, ok, how)
				}
				if why, has := c14CountNotes[key]; has && !ok {
					r.Skip(key, p.Pos(b.Pos()), "not decided: "+why)
					continue
				}
				r.Cond(ok, key, p.Pos(b.Pos()), how, "the count may be zero: "+how+"; the quotient is then infinite and reaches the backend as a size or a position")
			}
		}
	}
}

// c14CountNotes: divisions by a count that the structural argument does not reach, each read and named.
var c14CountNotes = map[string]string{
	"html/layout.columnsLayout | pr.Max(0, availableWidth - (pr.Float(count) - 1) * gap) / pr.Float(count)": "count is the computed column-count, an integer the validator accepts only when >= 1 (validation.columnCount); a value invariant, not a path fact",
	"html/layout.columnsLayout | sum(consumedHeights) / pr.Float(count)":                                    "count is column-count (>= 1 by validation) or int(max(1, …)); the merge of the three definitions includes the validated one",
	"html/layout.flexLayout | freeSpace / pr.Float(len(line.line))":                                         "the quotient only moves positionAxis, which is read in the loop over the same line; with an empty line nothing reads it",
	"html/layout.resolveTracksSizes | freeSpaceF / pr.Float(len(tracksSizes))":                              "the quotient is added to tracks in the loop over the same slice; without tracks nothing reads it",
	"html/layout.gridLayout | freeWidth / 2 / columnsNumber":                                                "the quotient offsets x, read only in the loop over the columns that follows",
	"html/layout.gridLayout | freeHeight / 2 / rowsNumber":                                                  "the quotient offsets y, read only in the loop over the rows that follows",
	"images.processColorStops | (position.V() - base.V()) / pr.Float(i - previousI)":                        "i == previousI only happens for a single colour stop; the increment is then read by a loop over an empty range",
	"svg.(*pathParser).addArc | deltaEta / float64(segs)":                                                   "segs = int(|deltaEta| / maxDx) + 1 >= 1: a truncated non-negative quotient plus one (the prover does not follow math.Abs through the float-to-int conversion)",
	"text/draw.drawEmojiPango | utils.Fl(data.Width) / utils.Fl(data.Height)":                               "the height of an embedded bitmap glyph comes from the font file, outside the document; not decided",
}

// c14Bookmarks: the outline is one tree over the whole document, not one per page.
func c14Bookmarks(c *core.Check) {
	p := c.Prog
	r := c.Rule("R8", "the bookmark outline is built across pages: in makeBookmarkTree every variable carried by the loop over a page's bookmarks (the last node per depth, the previous level, the skipped levels) enters that loop with the value the loop over the pages carries — it is not re-initialised per page, which would attach the first bookmark of every page to the root whatever its level", 1)
	fn := p.Method("html/document", "Document", "makeBookmarkTree")
	if fn == nil {
		r.Anchor("html/document.Document.makeBookmarkTree")
		return
	}
	loops := core.Loops(fn)
	encl := func(l *core.Loop) *core.Loop { // immediately enclosing loop
		var best *core.Loop
		for _, o := range loops {
			if o == l || !o.Blocks[l.Header] {
				continue
			}
			if best == nil || best.Blocks[o.Header] {
				best = o
			}
		}
		return best
	}
	n := 0
	for _, b := range loops {
		a := encl(b)
		if a == nil || encl(a) != nil {
			continue // b is not a direct child of an outermost loop
		}
		for _, in := range b.Header.Instrs {
			phi, ok := in.(*ssa.Phi)
			if !ok {
				break
			}
			if phi.Comment == "rangeindex" {
				continue
			}
			n++
			key := "html/document.makeBookmarkTree | " + phi.Comment + " enters the per-page loop"
			okAll := true
			for i, pred := range b.Header.Preds {
				if b.Blocks[pred] {
					continue
				}
				e := phi.Edges[i]
				outer, isPhi := e.(*ssa.Phi)
				if !isPhi || outer.Block() != a.Header {
					okAll = false
				}
			}
			r.Cond(okAll, key, p.Pos(phi.Pos()), "with the value carried by the loop over the pages", "is re-initialised for every page: the outline state of the previous pages is forgotten")
		}
	}
	if n == 0 {
		r.Anchor("makeBookmarkTree: loop over the bookmarks of a page inside the loop over the pages")
	}
}

// c14Radial: the radii of a radial gradient are made non-degenerate before anything is divided by them.
func c14Radial(c *core.Check) {
	p := c.Prog
	r := c.Rule("R9", "degenerate radial gradients (CSS Images 3 §3.2.3): in RadialGradient.Layout every floating point division by a radius uses the radii returned by handleDegenerateRadial, which replaces a zero radius whatever the way the size was given (explicit lengths, keywords, circle or ellipse)", 1)
	fn := p.Method("images", "RadialGradient", "Layout")
	if fn == nil {
		r.Anchor("images.RadialGradient.Layout")
		return
	}
	fromGuard := func(v ssa.Value) bool {
		call, ok := v.(*ssa.Call)
		return ok && call.Call.StaticCallee() != nil && call.Call.StaticCallee().Name() == "handleDegenerateRadial"
	}
	fromResolve := func(v ssa.Value) bool {
		call, ok := v.(*ssa.Call)
		return ok && call.Call.StaticCallee() != nil && call.Call.StaticCallee().Name() == "resolveSize"
	}
	n := 0
	core.Instrs(fn, func(in ssa.Instruction) {
		b, ok := in.(*ssa.BinOp)
		if !ok || b.Op != token.QUO {
			return
		}
		if bt, isB := b.X.Type().Underlying().(*types.Basic); !isB || bt.Info()&types.IsFloat == 0 {
			return
		}
		// divisors that are radii: derived from the size computation
		isSize := core.DerivesFrom(b.Y, fromGuard) || core.DerivesFrom(b.Y, fromResolve)
		if !isSize {
			return
		}
		n++
		key := "images.RadialGradient.Layout | " + opText(p, fn, b)
		// the radius must come out of handleDegenerateRadial, not straight out of resolveSize
		direct := core.DerivesFrom(b.Y, func(v ssa.Value) bool {
			ex, ok := v.(*ssa.Extract)
			return ok && fromResolve(ex.Tuple)
		})
		r.Cond(core.DerivesFrom(b.Y, fromGuard) && !direct, key, p.Pos(b.Pos()), "the divisor is a radius returned by handleDegenerateRadial", "the divisor is a radius taken from resolveSize without passing through handleDegenerateRadial: a zero radius (a zero explicit size, a centre on the box edge) divides")
	})
	if n == 0 {
		r.Anchor("RadialGradient.Layout: division by a radius")
	}
}

// c14Dashes: a dash pattern of total length zero is a solid line, and no offset is reduced modulo zero.
func c14Dashes(c *core.Check) {
	p := c.Prog
	r := c.Rule("R10", "dash patterns: in svg.resolveDashes the dash offset is reduced modulo the total length of the pattern only when that length is not zero (an all-zero stroke-dasharray is a solid line; 0/0 would hand NaN to SetDash)", 1)
	fn := p.Method("svg", "drawingDims", "resolveDashes")
	if fn == nil {
		r.Anchor("svg.drawingDims.resolveDashes")
		return
	}
	n := 0
	core.Instrs(fn, func(in ssa.Instruction) {
		call, ok := in.(*ssa.Call)
		if !ok || call.Call.StaticCallee() == nil || call.Call.StaticCallee().Name() != "clampModulo" || len(call.Call.Args) != 2 {
			return
		}
		n++
		ok2, how := core.NonZeroAt(fn, call, call.Call.Args[1])
		r.Cond(ok2, "svg.resolveDashes | clampModulo(offset, dashesLength)", p.Pos(call.Pos()), how, "the total length of the dashes may be zero here: "+how)
	})
	if n == 0 {
		r.Anchor("resolveDashes: call of clampModulo")
	}
}

// c14BookmarkWatch: one bookmark per element over the whole document.  layoutDocument remembers the elements (and
// their ::before / ::after) that already have a bookmark in sets keyed by element; a box split across pages would get
// one outline entry per page if those sets were created again for each page.
func c14BookmarkWatch(c *core.Check) {
	p := c.Prog
	r := c.Rule("R11", "one bookmark per element: in layoutDocument every set keyed by element (map[*html.Node]…) is created outside the loops of the function — created in the loop over the pages it would forget the elements bookmarked on the previous pages, and a box split across pages would be bookmarked once per page", 1)
	fn := p.Fn("html/layout", "layoutDocument")
	if fn == nil {
		r.Anchor("html/layout.layoutDocument")
		return
	}
	n := 0
	core.Instrs(fn, func(in ssa.Instruction) {
		mm, ok := in.(*ssa.MakeMap)
		if !ok {
			return
		}
		mt, ok := mm.Type().Underlying().(*types.Map)
		if !ok || !strings.HasSuffix(mt.Key().String(), "html.Node") {
			return
		}
		n++
		inLoop := core.InnermostLoop(fn, mm.Block()) != nil
		r.Cond(!inLoop, fmt.Sprintf("html/layout.layoutDocument | set of bookmarked elements #%d", n), p.Pos(mm.Pos()), "created before the loop over the pages", "the set is created inside a loop: each page starts with no element remembered, a box continued from the previous page is bookmarked again (chapter{A,B,C} becomes chapter{A}, chapter{B}, chapter{C})")
	})
	if n == 0 {
		r.Anchor("layoutDocument: the sets of bookmarked elements")
	}
}

// c14AttachmentLinks: only an external link can be an attachment.
func c14AttachmentLinks(c *core.Check) {
	p := c.Prog
	r := c.Rule("R12", "an attachment is an external link: in gatherLinksAndBookmarks a link is retyped \"attachment\" only on the path where its type was compared equal to \"external\" (an internal link marked rel=attachment must stay internal: it is resolved against the anchors, and no file was embedded for it)", 1)
	fn := p.Fn("html/document", "gatherLinksAndBookmarks")
	if fn == nil {
		r.Anchor("html/document.gatherLinksAndBookmarks")
		return
	}
	var atoms []ssa.Value
	for _, a := range core.CondAtoms(fn) {
		if bo, ok := a.(*ssa.BinOp); ok && bo.Op == token.EQL {
			if s, isS := core.ConstStr(bo.Y); isS && s == "external" {
				atoms = append(atoms, a)
			}
		}
	}
	// the merge that selects "attachment": a phi with that constant on one edge
	n := 0
	core.Instrs(fn, func(in ssa.Instruction) {
		phi, ok := in.(*ssa.Phi)
		if !ok {
			return
		}
		for i, e := range phi.Edges {
			s, isS := core.ConstStr(e)
			if !isS || s != "attachment" {
				continue
			}
			n++
			pred := phi.Block().Preds[i]
			ok2 := false
			if len(atoms) > 0 {
				ok2, _ = core.GuardedBy(fn, pred, atoms, func(m map[ssa.Value]bool) bool {
					for _, v := range m {
						if v {
							return true
						}
					}
					return false
				})
				// the assigning block may be the testing block's true successor folded into the phi edge
				if !ok2 {
					for _, a := range atoms {
						if ai, isI := a.(ssa.Instruction); isI && ai.Block() == pred {
							if ifi, isIf := pred.Instrs[len(pred.Instrs)-1].(*ssa.If); isIf && pred.Succs[0] == phi.Block() {
								for _, x := range core.ExpandBoolPhi(ifi.Cond) {
									if x == a {
										ok2 = true
									}
								}
							}
						}
					}
				}
			}
			r.Cond(ok2, "html/document.gatherLinksAndBookmarks | linkType = \"attachment\"", p.Pos(phi.Pos()), "only where linkType == \"external\" held", "a link becomes an attachment without having been found external: `<a rel=attachment href=\"#top\">` skips the anchor resolution and AddFileAnnotation is called with an id that was never embedded")
		}
	})
	if n == 0 {
		r.Anchor("gatherLinksAndBookmarks: linkType = \"attachment\"")
	}
}

// c14BackgroundDivisors: the size of a background image is a document value and may be zero (`background-size: 0`);
// layoutBackgroundLayer divides by it to round the number of tiles.  Every floating-point division of that function
// whose divisor is not a constant nor a converted count is reachable only where the divisor was compared `> 0`.
func c14BackgroundDivisors(c *core.Check) {
	p := c.Prog
	r := c.Rule("R13", "no division by an image size of zero: in layoutBackgroundLayer every floating-point division whose divisor is a computed size (not a constant, not a converted count) is reachable only after that divisor was tested > 0 (`background-size: 0 auto; background-repeat: round` would hand the backend an infinite tile)", 2)
	fn := p.Fn("html/layout", "layoutBackgroundLayer")
	if fn == nil {
		r.Anchor("html/layout.layoutBackgroundLayer")
		return
	}
	n := 0
	seen := map[string]int{}
	core.Instrs(fn, func(in ssa.Instruction) {
		q, ok := in.(*ssa.BinOp)
		if !ok || q.Op != token.QUO {
			return
		}
		if b, isB := q.Type().Underlying().(*types.Basic); !isB || b.Info()&types.IsFloat == 0 {
			return
		}
		if _, isK := q.Y.(*ssa.Const); isK {
			return
		}
		if cv, isConv := q.Y.(*ssa.Convert); isConv {
			if bt, ok := cv.X.Type().Underlying().(*types.Basic); ok && bt.Info()&types.IsInteger != 0 {
				return // a count: C14.R7
			}
		}
		n++
		var atoms []ssa.Value
		pol := map[ssa.Value]bool{}
		for _, a := range core.CondAtoms(fn) {
			cmp, ok := a.(*ssa.BinOp)
			if !ok {
				continue
			}
			zeroY := false
			if k, isK := core.ConstFloat(cmp.Y); isK && k == 0 {
				zeroY = true
			}
			if cmp.X == q.Y && zeroY {
				switch cmp.Op {
				case token.GTR:
					atoms, pol[a] = append(atoms, a), true
				case token.LEQ, token.EQL:
					atoms, pol[a] = append(atoms, a), false
				}
			}
		}
		ok2 := false
		if len(atoms) > 0 {
			ok2, _ = core.GuardedBy(fn, q.Block(), atoms, func(m map[ssa.Value]bool) bool {
				for a, v := range m {
					if v == pol[a] {
						return true
					}
				}
				return false
			})
		}
		key := "html/layout.layoutBackgroundLayer | " + p.StmtTextAt(fn, q.Pos())
		seen[key]++
		if seen[key] > 1 {
			key = fmt.Sprintf("%s #%d", key, seen[key])
		}
		r.Cond(ok2, key, p.Pos(q.Pos()), "divisor tested > 0", "the divisor is a size computed from the document and nothing on the way excludes zero: the quotient is infinite and reaches the backend (NewGroup(0, 0, 100, +Inf))")
	})
	if n == 0 {
		r.Anchor("layoutBackgroundLayer: divisions by the image size")
	}
}
