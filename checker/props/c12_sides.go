package props

import (
	"fmt"
	"go/token"
	"go/types"
	"sort"
	"strings"

	"golang.org/x/tools/go/ssa"

	"wrverif/core"
)

// c12Sides: which side a recto/verso break asks for, and which of the two page names of a box is used where.
func c12Sides(c *core.Check) {
	p := c.Prog
	r := c.Rule("R7", "page sides and names at a break: remakePage resolves recto to the right page and verso to the left page in a left-to-right document and the other way round in a right-to-left one (all four combinations, by replaying the branches); and of the two page names of a box (the one its content starts with, the one it ends with) the layout code reads the start name of the content that follows a break and the end name of the content that precedes it", 11)
	fn := p.Method("html/layout", "layoutContext", "remakePage")
	if fn == nil {
		r.Anchor("html/layout.(*layoutContext).remakePage")
	} else {
		var sidePhi *ssa.Phi
		core.Instrs(fn, func(in ssa.Instruction) {
			phi, ok := in.(*ssa.Phi)
			if !ok {
				return
			}
			l, rr := false, false
			for _, e := range phi.Edges {
				if s, ok := core.ConstStr(e); ok {
					l = l || s == "left"
					rr = rr || s == "right"
				}
			}
			if l && rr && sidePhi == nil {
				sidePhi = phi
			}
		})
		if sidePhi == nil {
			r.Anchor("remakePage: the merge of the constants \"left\" and \"right\"")
		} else {
			for _, ltr := range []bool{true, false} {
				for _, verso := range []bool{true, false} {
					dir, brk := "rtl", "recto"
					if ltr {
						dir = "ltr"
					}
					if verso {
						brk = "verso"
					}
					key := fmt.Sprintf("html/layout.remakePage | break %s in a %s document", brk, dir)
					ev := &core.CondEval{Leaf: func(v ssa.Value) (bool, bool) {
						b, ok := v.(*ssa.BinOp)
						if !ok || (b.Op != token.EQL && b.Op != token.NEQ) {
							return false, false
						}
						x, y := b.X, b.Y
						if _, isC := x.(*ssa.Const); isC {
							x, y = y, x
						}
						s, ok := core.ConstStr(core.Unwrap(y))
						if !ok {
							return false, false
						}
						res, known := false, false
						x = core.Unwrap(x)
						if call, isCall := x.(*ssa.Call); isCall && call.Call.IsInvoke() && call.Call.Method.Name() == "GetDirection" {
							res, known = s == dir, true
						} else if core.IsFieldNamed(x, "Break") {
							res, known = s == brk, true
						}
						if !known {
							return false, false
						}
						if b.Op == token.NEQ {
							res = !res
						}
						return res, true
					}}
					edge, ok := ev.Select(sidePhi)
					got, okc := "", false
					if ok {
						got, okc = core.ConstStr(edge)
					}
					want := "left"
					if ltr != verso {
						want = "right"
					}
					if !ok || !okc {
						r.Unknown(key, p.Pos(sidePhi.Pos()), "the side chosen could not be replayed from the tests of direction and break value")
						continue
					}
					r.Cond(got == want, key, p.Pos(sidePhi.Pos()), want+" page", fmt.Sprintf("asks for a %s page, CSS Fragmentation gives the %s page (recto is the right page of a left-to-right document)", got, want))
				}
			}
		}
	}

	// which PageValues result is read where
	want := map[string]int{
		"html/layout.blockLevelPageName | siblingBefore": 1,
		"html/layout.blockLevelPageName | siblingAfter":  0,
		"html/layout.inFlowLayout | child":               0,
		"html/layout.blockContainerLayout | child":       0,
		"html/layout.blockContainerLayout | newBox":      1,
		"html/boxes.(*BoxFields).PageValues | fistChild": 0,
		"html/boxes.(*BoxFields).PageValues | lastChild": 1,
		"html/layout.initializePageMaker | rootBox":      0,
	}
	found := map[string][]int{}
	pos := map[string]token.Pos{}
	for _, pkg := range []string{"html/layout", "html/boxes"} {
		for _, fn := range p.FuncsOfPkg(pkg) {
			fn := fn
			core.Instrs(fn, func(in ssa.Instruction) {
				call, ok := in.(*ssa.Call)
				if !ok {
					return
				}
				name := ""
				if call.Call.IsInvoke() {
					name = call.Call.Method.Name()
				} else if cal := call.Call.StaticCallee(); cal != nil {
					name = cal.Name()
				}
				if name != "PageValues" || call.Referrers() == nil {
					return
				}
				recv := p.RecvTextAt(fn, call.Pos())
				root := fn
				for root.Parent() != nil {
					root = root.Parent()
				}
				key := core.FuncName(root) + " | " + recv
				for _, ref := range *call.Referrers() {
					if ex, ok := ref.(*ssa.Extract); ok && ex.Referrers() != nil && len(*ex.Referrers()) > 0 {
						used := false
						for _, rr := range *ex.Referrers() {
							if _, dbg := rr.(*ssa.DebugRef); !dbg {
								used = true
							}
						}
						if used {
							found[key] = append(found[key], ex.Index)
							pos[key] = call.Pos()
						}
					}
				}
			})
		}
	}
	var keys []string
	for k := range want {
		keys = append(keys, k)
	}
	sort.Strings(keys)
	names := []string{"start", "end"}
	for _, k := range keys {
		got := found[k]
		sort.Ints(got)
		ok := len(got) > 0
		for _, g := range got {
			if g != want[k] {
				ok = false
			}
		}
		if k == "html/boxes.(*BoxFields).PageValues | fistChild" && !ok {
			// an only child is asked once for both names; the end name is replaced by the one of the last child when
			// there is another (rule C01.R12 decides that test). What must hold: the start name is read here, and
			// neither result of the function is fed by the other name (decided on the data flow below).
			hasStart := false
			for _, g := range got {
				if g == 0 {
					hasStart = true
				}
			}
			last := found["html/boxes.(*BoxFields).PageValues | lastChild"]
			ok = hasStart && len(last) == 1 && last[0] == 1
		}
		at := "-"
		if ps, has := pos[k]; has {
			at = p.Pos(ps)
		}
		var gs []string
		for _, g := range got {
			if g >= 0 && g < 2 {
				gs = append(gs, names[g])
			}
		}
		r.Cond(ok, k+" | PageValues", at, "reads the "+names[want[k]]+" page name", fmt.Sprintf("reads the {%s} page name(s), the break logic needs the %s name here", strings.Join(gs, ", "), names[want[k]]))
		delete(found, k)
	}
	var extra []string
	for k := range found {
		extra = append(extra, k)
	}
	sort.Strings(extra)
	for _, k := range extra {
		r.Unknown(k+" | PageValues", p.Pos(pos[k]), "a use of PageValues this rule has no expectation for")
	}
	// inside PageValues the two names never cross: the start result is not fed by an end name of a child, nor the end
	// result by a start name
	if pv := p.Method("html/boxes", "BoxFields", "PageValues"); pv == nil {
		r.Anchor("html/boxes.(*BoxFields).PageValues")
	} else {
		isName := func(idx int) func(ssa.Value) bool {
			return func(v ssa.Value) bool {
				ex, ok := v.(*ssa.Extract)
				if !ok || ex.Index != idx {
					return false
				}
				call, ok := ex.Tuple.(*ssa.Call)
				if !ok {
					return false
				}
				if call.Call.IsInvoke() {
					return call.Call.Method.Name() == "PageValues"
				}
				cal := call.Call.StaticCallee()
				return cal != nil && cal.Name() == "PageValues"
			}
		}
		nRet := 0
		core.Instrs(pv, func(in ssa.Instruction) {
			ret, ok := in.(*ssa.Return)
			if !ok || len(ret.Results) != 2 {
				return
			}
			nRet++
			crossed := core.DerivesFrom(ret.Results[0], isName(1)) || core.DerivesFrom(ret.Results[1], isName(0))
			r.Cond(!crossed, "html/boxes.(*BoxFields).PageValues | results fed by the names of their own side", p.Pos(ret.Pos()), "start from start names, end from end names", "the start result is fed by the end name of a child, or the end result by a start name")
		})
		if nRet == 0 {
			r.Anchor("html/boxes.(*BoxFields).PageValues: return of two names")
		}
	}
}

// c12RepeatedGroups: the space taken by a repeated table footer is withheld from the body rows.
func c12RepeatedGroups(c *core.Check) {
	p := c.Prog
	r := c.Rule("R8", "repeated table header and footer groups: in tableLayout every layout of the body row groups that can only run with a footer kept for the page withholds the footer's height from the space given to the rows (bottomSpace + footerHeight), and every one that can only run without a footer does not — otherwise the rows fill the page and the repeated footer is placed below it", 2)
	var fn *ssa.Function
	for _, f := range p.FuncsOfPkg("html/layout") {
		root := f
		for root.Parent() != nil {
			root = root.Parent()
		}
		if root.Name() != "tableLayout" {
			continue
		}
		n := 0
		core.Instrs(f, func(in ssa.Instruction) {
			if call, ok := in.(*ssa.Call); ok && calleeIsLocal(call, "bodyGroupsLayout") {
				n++
			}
		})
		if n >= 3 {
			fn = f
		}
	}
	if fn == nil {
		r.Anchor("tableLayout: the closure calling bodyGroupsLayout for header/footer combinations")
		return
	}
	// atoms on the footer variable
	footerAtoms := map[ssa.Value]bool{} // atom -> true when it reads "footer != nil"
	varName := func(v ssa.Value) string {
		for i := 0; i < 4; i++ {
			switch x := v.(type) {
			case *ssa.Phi:
				return x.Comment
			case *ssa.UnOp:
				if al, ok := x.X.(*ssa.Alloc); ok {
					return al.Comment
				}
				if fv, ok := x.X.(*ssa.FreeVar); ok {
					return fv.Name()
				}
			case *ssa.Extract:
				return ""
			}
			break
		}
		return ""
	}
	for _, a := range core.CondAtoms(fn) {
		b, ok := a.(*ssa.BinOp)
		if !ok || (b.Op != token.EQL && b.Op != token.NEQ) {
			continue
		}
		if k, isK := b.Y.(*ssa.Const); !isK || k.Value != nil {
			continue
		}
		if varName(b.X) == "footer" {
			footerAtoms[a] = b.Op == token.NEQ
		}
	}
	if len(footerAtoms) == 0 {
		r.Anchor("tableLayout: tests of the footer group against nil")
		return
	}
	scenario := func(hasFooter bool) map[*ssa.BasicBlock]bool {
		assign := map[ssa.Value]bool{}
		for a, isNeq := range footerAtoms {
			assign[a] = hasFooter == isNeq
		}
		return core.ForwardReach(fn.Blocks[0], assign, nil)
	}
	with, without := scenario(true), scenario(false)
	i := 0
	core.Instrs(fn, func(in ssa.Instruction) {
		call, ok := in.(*ssa.Call)
		if !ok || !calleeIsLocal(call, "bodyGroupsLayout") || len(call.Call.Args) < 3 {
			return
		}
		i++
		// the space argument: the one that derives from the bottomSpace of the enclosing function
		var space ssa.Value
		for _, a := range call.Call.Args {
			if arithDerives(a, func(v ssa.Value) bool { return varName(v) == "bottomSpace" }) {
				space = a
			}
		}
		key := fmt.Sprintf("html/layout.tableLayout | bodyGroupsLayout #%d", i)
		if space == nil {
			r.Unknown(key, p.Pos(call.Pos()), "no argument derives from bottomSpace")
			return
		}
		hasFH := arithDerives(space, func(v ssa.Value) bool { return varName(v) == "footerHeight" })
		switch {
		case with[call.Block()] && !without[call.Block()]:
			r.Cond(hasFH, key+" (only with a footer)", p.Pos(call.Pos()), "bottomSpace + footerHeight", "the body rows are given the whole page although a footer is repeated below them")
		case without[call.Block()] && !with[call.Block()]:
			r.Cond(!hasFH, key+" (only without a footer)", p.Pos(call.Pos()), "bottomSpace alone", "the footer's height is withheld although no footer is kept")
		default:
			r.Skip(key, p.Pos(call.Pos()), "reachable with and without a footer: not decided")
		}
	})
}

func calleeIsLocal(call *ssa.Call, name string) bool {
	// a call of a local closure variable: the callee value is a load / free variable named name
	switch v := call.Call.Value.(type) {
	case *ssa.UnOp:
		if al, ok := v.X.(*ssa.Alloc); ok && al.Comment == name {
			return true
		}
		if fv, ok := v.X.(*ssa.FreeVar); ok && fv.Name() == name {
			return true
		}
	case *ssa.FreeVar:
		return v.Name() == name
	case *ssa.MakeClosure:
		return strings.Contains(v.Fn.Name(), name)
	}
	if cal := call.Call.StaticCallee(); cal != nil && cal.Name() == name {
		return true
	}
	return false
}

// c12Retry: the second attempt at laying a child out differs from the first by the space only.
func c12Retry(c *core.Check) {
	p := c.Prog
	r := c.Rule("R9", "break-inside and the empty-page exception: when inFlowLayout lays a child out a second time (its bottom padding or border did not fit), the retry receives the same boolean flags as the first attempt — in particular the same `page is empty` flag, which decides whether break-inside: avoid may be ignored; and the counters of a page's margin boxes are copied once per margin box, inside the function that builds one box", 2)
	if fn := p.Fn("html/layout", "inFlowLayout"); fn == nil {
		r.Anchor("html/layout.inFlowLayout")
	} else {
		var calls []*ssa.Call
		core.Instrs(fn, func(in ssa.Instruction) {
			if call, ok := in.(*ssa.Call); ok && call.Call.StaticCallee() != nil && call.Call.StaticCallee().Name() == "blockLevelLayout" {
				calls = append(calls, call)
			}
		})
		if len(calls) != 2 {
			r.Anchor("inFlowLayout: the two calls of blockLevelLayout")
		} else {
			callee := calls[0].Call.StaticCallee()
			var diffs []string
			for i := range calls[0].Call.Args {
				a, b := calls[0].Call.Args[i], calls[1].Call.Args[i]
				if a == b || callee.Params[i].Name() == "bottomSpace" {
					continue
				}
				// the flags only: the other arguments are results threaded from the first attempt to the second
				if bt, isB := callee.Params[i].Type().Underlying().(*types.Basic); !isB || bt.Kind() != types.Bool {
					continue
				}
				// the same expression evaluated twice (type assertion of the child, loads of the same variable)
				if fmt.Sprintf("%T", a) == fmt.Sprintf("%T", b) && exprName(a) == exprName(b) && exprName(a) != "_" {
					continue
				}
				if ta, ok := a.(*ssa.TypeAssert); ok {
					if tb, ok := b.(*ssa.TypeAssert); ok && ta.X == tb.X {
						continue
					}
				}
				if la, ok := a.(*ssa.UnOp); ok {
					if lb, ok := b.(*ssa.UnOp); ok && la.X == lb.X {
						continue
					}
				}
				diffs = append(diffs, callee.Params[i].Name())
			}
			r.Cond(len(diffs) == 0, "html/layout.inFlowLayout | retry of blockLevelLayout", p.Pos(calls[1].Pos()), "same flags", "the retry differs from the first attempt in "+strings.Join(diffs, ", ")+": the second layout runs under other rules than the first (a different `page is empty` flag lets it break inside a break-inside: avoid box)")
		}
	}
	// margin boxes: one copy of the page state per box
	n := 0
	for _, fn := range p.FuncsOfPkg("html/layout") {
		root := fn
		for root.Parent() != nil {
			root = root.Parent()
		}
		if root.Name() != "makeMarginBoxes" {
			continue
		}
		fn := fn
		core.Instrs(fn, func(in ssa.Instruction) {
			call, ok := in.(*ssa.Call)
			if !ok || call.Call.StaticCallee() == nil || call.Call.StaticCallee().Name() != "Copy" {
				return
			}
			if !strings.Contains(call.Call.StaticCallee().String(), "PageState") {
				return
			}
			n++
			r.Cond(fn.Parent() != nil, "html/layout.makeMarginBoxes | state.Copy()", p.Pos(call.Pos()), "copied inside the closure that builds one margin box", "the page state is copied once for all the margin boxes of a page: a counter changed by one margin box is seen by the next ones")
		})
	}
	if n == 0 {
		r.Anchor("makeMarginBoxes: copy of the page state")
	}
}
