package props

import (
	"fmt"
	"go/token"
	"sort"
	"strings"

	"golang.org/x/tools/go/ssa"

	"wrverif/core"
)

// c12Sides: which side a recto/verso break asks for, and which of the two page names of a box is used where.
func c12Sides(c *core.Check) {
	p := c.Prog
	r := c.Rule("R7", "page sides and names at a break: remakePage resolves recto to the right page and verso to the left page in a left-to-right document and the other way round in a right-to-left one (all four combinations, by replaying the branches); and of the two page names of a box (the one its content starts with, the one it ends with) the layout code reads the start name of the content that follows a break and the end name of the content that precedes it", 8)
	fn := p.Method("html/layout", "layoutContext", "remakePage")
	if fn == nil {
		r.Anchor("html/layout.(*layoutContext).remakePage")
	} else {
		var sidePhi *ssa.Phi
		core.Instrs(fn, func(in ssa.Instruction) {
			phi, ok := in.(*ssa.Phi)
			if !ok {
				return
			}
			l, rr := false, false
			for _, e := range phi.Edges {
				if s, ok := core.ConstStr(e); ok {
					l = l || s == "left"
					rr = rr || s == "right"
				}
			}
			if l && rr && sidePhi == nil {
				sidePhi = phi
			}
		})
		if sidePhi == nil {
			r.Anchor("remakePage: the merge of the constants \"left\" and \"right\"")
		} else {
			for _, ltr := range []bool{true, false} {
				for _, verso := range []bool{true, false} {
					dir, brk := "rtl", "recto"
					if ltr {
						dir = "ltr"
					}
					if verso {
						brk = "verso"
					}
					key := fmt.Sprintf("html/layout.remakePage | break %s in a %s document", brk, dir)
					ev := &core.CondEval{Leaf: func(v ssa.Value) (bool, bool) {
						b, ok := v.(*ssa.BinOp)
						if !ok || (b.Op != token.EQL && b.Op != token.NEQ) {
							return false, false
						}
						x, y := b.X, b.Y
						if _, isC := x.(*ssa.Const); isC {
							x, y = y, x
						}
						s, ok := core.ConstStr(core.Unwrap(y))
						if !ok {
							return false, false
						}
						res, known := false, false
						x = core.Unwrap(x)
						if call, isCall := x.(*ssa.Call); isCall && call.Call.IsInvoke() && call.Call.Method.Name() == "GetDirection" {
							res, known = s == dir, true
						} else if core.IsFieldNamed(x, "Break") {
							res, known = s == brk, true
						}
						if !known {
							return false, false
						}
						if b.Op == token.NEQ {
							res = !res
						}
						return res, true
					}}
					edge, ok := ev.Select(sidePhi)
					got, okc := "", false
					if ok {
						got, okc = core.ConstStr(edge)
					}
					want := "left"
					if ltr != verso {
						want = "right"
					}
					if !ok || !okc {
						r.Unknown(key, p.Pos(sidePhi.Pos()), "the side chosen could not be replayed from the tests of direction and break value")
						continue
					}
					r.Cond(got == want, key, p.Pos(sidePhi.Pos()), want+" page", fmt.Sprintf("asks for a %s page, CSS Fragmentation gives the %s page (recto is the right page of a left-to-right document)", got, want))
				}
			}
		}
	}

	// which PageValues result is read where
	want := map[string]int{
		"html/layout.blockLevelPageName | siblingBefore": 1,
		"html/layout.blockLevelPageName | siblingAfter":  0,
		"html/layout.inFlowLayout | child":               0,
		"html/layout.blockContainerLayout | child":       0,
		"html/layout.blockContainerLayout | newBox":      1,
		"html/boxes.(*BoxFields).PageValues | fistChild": 0,
		"html/boxes.(*BoxFields).PageValues | lastChild": 1,
		"html/layout.initializePageMaker | rootBox":      0,
	}
	found := map[string][]int{}
	pos := map[string]token.Pos{}
	for _, pkg := range []string{"html/layout", "html/boxes"} {
		for _, fn := range p.FuncsOfPkg(pkg) {
			fn := fn
			core.Instrs(fn, func(in ssa.Instruction) {
				call, ok := in.(*ssa.Call)
				if !ok {
					return
				}
				name := ""
				if call.Call.IsInvoke() {
					name = call.Call.Method.Name()
				} else if cal := call.Call.StaticCallee(); cal != nil {
					name = cal.Name()
				}
				if name != "PageValues" || call.Referrers() == nil {
					return
				}
				recv := p.RecvTextAt(fn, call.Pos())
				root := fn
				for root.Parent() != nil {
					root = root.Parent()
				}
				key := core.FuncName(root) + " | " + recv
				for _, ref := range *call.Referrers() {
					if ex, ok := ref.(*ssa.Extract); ok && ex.Referrers() != nil && len(*ex.Referrers()) > 0 {
						used := false
						for _, rr := range *ex.Referrers() {
							if _, dbg := rr.(*ssa.DebugRef); !dbg {
								used = true
							}
						}
						if used {
							found[key] = append(found[key], ex.Index)
							pos[key] = call.Pos()
						}
					}
				}
			})
		}
	}
	var keys []string
	for k := range want {
		keys = append(keys, k)
	}
	sort.Strings(keys)
	names := []string{"start", "end"}
	for _, k := range keys {
		got := found[k]
		sort.Ints(got)
		ok := len(got) > 0
		for _, g := range got {
			if g != want[k] {
				ok = false
			}
		}
		at := "-"
		if ps, has := pos[k]; has {
			at = p.Pos(ps)
		}
		var gs []string
		for _, g := range got {
			if g >= 0 && g < 2 {
				gs = append(gs, names[g])
			}
		}
		r.Cond(ok, k+" | PageValues", at, "reads the "+names[want[k]]+" page name", fmt.Sprintf("reads the {%s} page name(s), the break logic needs the %s name here", strings.Join(gs, ", "), names[want[k]]))
		delete(found, k)
	}
	var extra []string
	for k := range found {
		extra = append(extra, k)
	}
	sort.Strings(extra)
	for _, k := range extra {
		r.Unknown(k+" | PageValues", p.Pos(pos[k]), "a use of PageValues this rule has no expectation for")
	}
}
