package props

import (
	"fmt"
	"go/ast"
	"go/token"
	"go/types"
	"strings"

	"golang.org/x/tools/go/ssa"
	"golang.org/x/tools/go/types/typeutil"

	"wrverif/core"
)

// c18VertexDirections (R12, R13): the direction of the path at a vertex, which orients the markers, is
// atan2(Δy, Δx), measured from the previous vertex.
//
// R12: math.Atan2 takes the ordinate first.  Every call of math.Atan2 in package svg — direct, or through a helper
// whose body forwards its parameters to it — receives a vertical difference (an expression whose leaves are named y…)
// first and a horizontal one (x…) second; the parameter order of the helper is followed.
//
// R13: in polyline.draw the point subtracted from the current point is carried by the loop: it is the previous point
// of the list, not a point fixed before the loop.
func c18VertexDirections(c *core.Check) {
	p := c.Prog
	r := c.Rule("R12", "math.Atan2(ordinate, abscissa): every call of math.Atan2 in package svg, direct or through a forwarding helper, gets an expression over y-named coordinates first and one over x-named coordinates second", 2)
	pk := p.ByPath["svg"]
	if pk == nil {
		r.Anchor("package svg")
		return
	}
	axis := func(e ast.Expr) string {
		xs, ys := 0, 0
		ast.Inspect(e, func(n ast.Node) bool {
			var name string
			switch x := n.(type) {
			case *ast.SelectorExpr:
				name = x.Sel.Name
				if name == "x" || name == "y" || strings.HasPrefix(name, "x") && len(name) <= 3 || strings.HasPrefix(name, "y") && len(name) <= 3 {
					if name[0] == 'x' {
						xs++
					} else {
						ys++
					}
					return false
				}
				return true
			case *ast.Ident:
				name = x.Name
				low := strings.ToLower(name)
				if strings.HasPrefix(low, "x") && len(name) <= 3 || strings.HasSuffix(name, "X") {
					xs++
				} else if strings.HasPrefix(low, "y") && len(name) <= 3 || strings.HasSuffix(name, "Y") {
					ys++
				}
			}
			return true
		})
		switch {
		case xs > 0 && ys == 0:
			return "x"
		case ys > 0 && xs == 0:
			return "y"
		}
		return ""
	}
	isAtan2 := func(call *ast.CallExpr) bool {
		fn, _ := typeutilCallee(pk.TypesInfo, call).(*types.Func)
		return fn != nil && fn.Pkg() != nil && fn.Pkg().Path() == "math" && fn.Name() == "Atan2"
	}
	// helpers: functions of svg whose body is `return T(math.Atan2(T(a), T(b)))` over their own two parameters;
	// order[i] = index of the helper's parameter passed as math.Atan2's i-th argument
	helpers := map[*types.Func][2]int{}
	for _, f := range pk.Syntax {
		for _, d := range f.Decls {
			fd, ok := d.(*ast.FuncDecl)
			if !ok || fd.Body == nil || fd.Recv != nil || len(fd.Body.List) != 1 {
				continue
			}
			var params []string
			for _, fl := range fd.Type.Params.List {
				for _, n := range fl.Names {
					params = append(params, n.Name)
				}
			}
			if len(params) != 2 {
				continue
			}
			ast.Inspect(fd.Body, func(n ast.Node) bool {
				call, ok := n.(*ast.CallExpr)
				if !ok || !isAtan2(call) || len(call.Args) != 2 {
					return true
				}
				var order [2]int
				okAll := true
				for i, a := range call.Args {
					order[i] = -1
					ast.Inspect(a, func(n ast.Node) bool {
						if id, ok := n.(*ast.Ident); ok {
							for j, pn := range params {
								if id.Name == pn {
									order[i] = j
								}
							}
						}
						return true
					})
					if order[i] < 0 {
						okAll = false
					}
				}
				if okAll && order[0] != order[1] {
					if obj, ok := pk.TypesInfo.Defs[fd.Name].(*types.Func); ok {
						helpers[obj] = order
					}
				}
				return false
			})
		}
	}
	n := 0
	perFn := map[string]int{}
	for _, f := range pk.Syntax {
		var encl string
		ast.Inspect(f, func(nd ast.Node) bool {
			if fd, ok := nd.(*ast.FuncDecl); ok {
				encl = fd.Name.Name
			}
			call, ok := nd.(*ast.CallExpr)
			if !ok || len(call.Args) != 2 {
				return true
			}
			var first, second ast.Expr
			if isAtan2(call) {
				if obj := enclosingHelper(pk.TypesInfo, helpers, encl); obj {
					return true // the forwarding call itself: decided at the helper's call sites
				}
				first, second = call.Args[0], call.Args[1]
			} else if fn, _ := typeutilCallee(pk.TypesInfo, call).(*types.Func); fn != nil {
				order, isHelper := helpers[fn]
				if !isHelper {
					return true
				}
				first, second = call.Args[order[0]], call.Args[order[1]]
			} else {
				return true
			}
			n++
			perFn[encl]++
			key := fmt.Sprintf("svg.%s | direction #%d", encl, perFn[encl])
			a1, a2 := axis(first), axis(second)
			if a1 == "" || a2 == "" {
				r.Skip(key, p.Pos(call.Pos()), "the arguments are not differences of x/y-named coordinates: "+types.ExprString(first)+", "+types.ExprString(second))
				return true
			}
			r.Cond(a1 == "y" && a2 == "x", key, p.Pos(call.Pos()), "math.Atan2 receives ("+types.ExprString(first)+", "+types.ExprString(second)+")", "math.Atan2 receives ("+types.ExprString(first)+", "+types.ExprString(second)+"): the abscissa comes first, the angle is measured from the vertical axis and a marker with orient=\"auto\" on a vertical segment is not rotated")
			return true
		})
	}

	// R13
	r13 := c.Rule("R13", "polyline.draw: the direction at a vertex is measured from the previous vertex — the point subtracted from the current point in the loop is loop-carried (a merge at the loop header whose value on the back edge is the current point), not a value fixed before the loop", 1)
	fn := p.Method("svg", "polyline", "draw")
	if fn == nil {
		r13.Anchor("svg.polyline.draw")
		return
	}
	loops := core.Loops(fn)
	found := false
	core.Instrs(fn, func(in ssa.Instruction) {
		call, ok := in.(*ssa.Call)
		if !ok {
			return
		}
		callee := call.Call.StaticCallee()
		if callee == nil || !(callee.Name() == "atan2" || callee.Name() == "Atan2") {
			return
		}
		var l *core.Loop
		for _, lp := range loops {
			if lp.Blocks[call.Block()] {
				l = lp
			}
		}
		if l == nil {
			return
		}
		found = true
		// the subtrahends of the two differences
		okAll, why := true, ""
		for _, a := range call.Call.Args {
			bo, isSub := a.(*ssa.BinOp)
			if cv, isConv := a.(*ssa.Convert); isConv {
				bo, isSub = cv.X.(*ssa.BinOp)
			}
			if !isSub || bo.Op != token.SUB {
				continue
			}
			carried := false
			seen := map[ssa.Value]bool{}
			var walk func(v ssa.Value, d int)
			walk = func(v ssa.Value, d int) {
				if v == nil || seen[v] || d > 6 {
					return
				}
				seen[v] = true
				switch x := v.(type) {
				case *ssa.Phi:
					if x.Block() == l.Header {
						carried = true
					}
				case *ssa.Field:
					walk(x.X, d+1)
				case *ssa.UnOp:
					walk(x.X, d+1)
				case *ssa.FieldAddr:
					walk(x.X, d+1)
					// a spilled local: stores to it inside the loop carry the value
					if al, ok := x.X.(*ssa.Alloc); ok {
						for _, ref := range *al.Referrers() {
							if st, ok := ref.(*ssa.Store); ok && l.Blocks[st.Block()] {
								carried = true
							}
						}
					}
				case *ssa.Alloc:
					for _, ref := range *x.Referrers() {
						if st, ok := ref.(*ssa.Store); ok && l.Blocks[st.Block()] {
							carried = true
						}
					}
				}
			}
			walk(bo.Y, 0)
			if !carried {
				okAll, why = false, "the subtracted point is the same on every iteration"
			}
		}
		r13.Cond(okAll, "svg.polyline.draw | previous vertex", p.Pos(call.Pos()), "the subtracted point is carried by the loop", why+": every direction is measured from the first point, and the end marker of points=\"10,10 50,10 50,50\" is rotated by 45 degrees instead of 90")
	})
	if !found {
		r13.Unknown("svg.polyline.draw | previous vertex", p.Pos(fn.Pos()), "no direction computed in a loop")
	}
}

func enclosingHelper(info *types.Info, helpers map[*types.Func][2]int, name string) bool {
	for h := range helpers {
		if h.Name() == name {
			return true
		}
	}
	return false
}

func typeutilCallee(info *types.Info, call *ast.CallExpr) types.Object {
	return typeutil.Callee(info, call)
}

// c18ExponentSigns (R14): the number scanner of path data treats the two signs alike after an exponent mark
// (number ::= … ("e"|"E") ("+"|"-")? digits).  In consumeNumber the byte comparisons with '-' and with '+' lead to
// the same block: the one that looks at the previous byte for e/E.
func c18ExponentSigns(c *core.Check) {
	p := c.Prog
	r := c.Rule("R14", "both exponent signs: in svg.consumeNumber the comparisons of the current byte with '-' and with '+' branch to the same block, the one that tests the previous byte for an exponent mark", 1)
	fn := p.Fn("svg", "consumeNumber")
	if fn == nil {
		r.Anchor("svg.consumeNumber")
		return
	}
	target := map[int64]*ssa.BasicBlock{}
	for _, b := range fn.Blocks {
		if len(b.Instrs) == 0 {
			continue
		}
		ifi, ok := b.Instrs[len(b.Instrs)-1].(*ssa.If)
		if !ok {
			continue
		}
		bo, ok := ifi.Cond.(*ssa.BinOp)
		if !ok || bo.Op != token.EQL {
			continue
		}
		if k, ok := core.ConstInt(bo.Y); ok && (k == '-' || k == '+') {
			target[k] = b.Succs[0]
		}
	}
	key := "svg.consumeNumber | sign after an exponent mark"
	if target['-'] == nil {
		r.Unknown(key, p.Pos(fn.Pos()), "no comparison of the current byte with '-'")
		return
	}
	// the minus branch looks at the previous byte for 'e'
	looksBack := false
	for _, in := range target['-'].Instrs {
		if bo, ok := in.(*ssa.BinOp); ok && bo.Op == token.EQL {
			if k, ok := core.ConstInt(bo.Y); ok && (k == 'e' || k == 'E') {
				looksBack = true
			}
		}
	}
	if !looksBack {
		r.Unknown(key, p.Pos(fn.Pos()), "the '-' branch does not test the previous byte for e/E")
		return
	}
	r.Cond(target['+'] == target['-'], key, p.Pos(target['-'].Instrs[0].Pos()), "'+' and '-' take the same branch", "'+' does not take the branch of '-': `1e+1` ends at the exponent mark, the number `1e` does not parse and the whole image is refused")
}
