package props

import (
	"fmt"
	"go/token"
	"go/types"

	"golang.org/x/tools/go/ssa"

	"wrverif/core"
)

// c20IdentFuses (R8): two identifiers fuse with a following literal because of their *value*, which the table of
// token kinds cannot express: `--` followed by `>` reads back as the CDC token, and `u` or `U` followed by `+` as
// the start of a unicode-range.  Both pairs come out of the tokenizer (`--/**/>`, `u/**/+?`).  The rule finds the
// function reachable from serializeTo that compares an identifier's value with constants, replays it for each of the
// three scenarios (every comparison of the value and of the next token's type decided by the scenario) and requires
// the answer "separate".
func c20IdentFuses(c *core.Check) {
	p := c.Prog
	r := c.Rule("R8", "identifiers that fuse by value: for the identifier `--` before `>` (CDC) and the identifiers `u` and `U` before `+` (unicode-range), the decision taken by serializeTo between two tokens is to write a separator — the function comparing the identifier's value is replayed with the comparisons decided by each scenario", 1)
	st := p.Fn("css/parser", "serializeTo")
	if st == nil {
		r.Anchor("css/parser.serializeTo")
		return
	}
	// closure of static callees inside css/parser that take a Token
	closure := []*ssa.Function{st}
	seen := map[*ssa.Function]bool{st: true}
	for i := 0; i < len(closure); i++ {
		core.Instrs(closure[i], func(in ssa.Instruction) {
			if call, ok := in.(*ssa.Call); ok {
				if callee := call.Call.StaticCallee(); callee != nil && callee.Pkg == st.Pkg && callee.Blocks != nil && !seen[callee] && callee.Signature.Recv() == nil {
					seen[callee] = true
					closure = append(closure, callee)
				}
			}
		})
	}
	isIdentValue := func(v ssa.Value) bool {
		// a load or field read of .Value from a value whose type is (or embeds into) parser.Ident
		return core.DerivesFrom(v, func(v ssa.Value) bool {
			var base types.Type
			switch x := v.(type) {
			case *ssa.Field:
				base = x.X.Type()
			case *ssa.FieldAddr:
				base = x.X.Type().(*types.Pointer).Elem()
			default:
				return false
			}
			for d := 0; d < 3; d++ {
				if n, ok := base.(*types.Named); ok && n.Obj().Name() == "Ident" {
					return true
				}
				// the embedded stringVal of an Ident: look at where the struct came from
				switch x := v.(type) {
				case *ssa.Field:
					if f, ok := x.X.(*ssa.Field); ok {
						v, base = f, f.X.Type()
						continue
					}
				case *ssa.FieldAddr:
					if f, ok := x.X.(*ssa.FieldAddr); ok {
						v, base = f, f.X.Type().(*types.Pointer).Elem()
						continue
					}
				}
				break
			}
			return false
		})
	}
	type scen struct{ val, next, what string }
	scens := []scen{{"--", ">", "CDC"}, {"u", "+", "unicode-range"}, {"U", "+", "unicode-range"}}
	// the deciding function: the one with comparisons of an identifier value with constants
	var decider *ssa.Function
	for _, fn := range closure {
		for _, a := range core.CondAtoms(fn) {
			if bo, ok := a.(*ssa.BinOp); ok && bo.Op == token.EQL {
				if _, ok := core.ConstStr(bo.Y); ok && isIdentValue(bo.X) {
					decider = fn
				}
			}
		}
	}
	for _, s := range scens {
		key := fmt.Sprintf("css/parser.serializeTo | ident %q before %q", s.val, s.next)
		if decider == nil {
			r.Fail(key, p.Pos(st.Pos()), fmt.Sprintf("nothing reachable from serializeTo compares the value of an identifier: `%s` followed by `%s` is written without a separator and reads back as %s", s.val, s.next, s.what))
			continue
		}
		assign := map[ssa.Value]bool{}
		for _, a := range core.CondAtoms(decider) {
			switch x := a.(type) {
			case *ssa.BinOp:
				if x.Op != token.EQL && x.Op != token.NEQ {
					continue
				}
				k, ok := core.ConstStr(x.Y)
				if !ok {
					continue
				}
				if isIdentValue(x.X) {
					assign[a] = (s.val == k) == (x.Op == token.EQL)
				} else if b, ok := x.X.Type().Underlying().(*types.Basic); ok && b.Kind() == types.String {
					assign[a] = (s.next == k) == (x.Op == token.EQL)
				}
			case *ssa.Extract:
				// the ok of previous.(Ident)
				if ta, ok := x.Tuple.(*ssa.TypeAssert); ok && x.Index == 1 {
					if n, ok := ta.AssertedType.(*types.Named); ok && n.Obj().Name() == "Ident" {
						assign[a] = true
					}
				}
			case *ssa.Lookup:
				assign[a] = false // the table of kinds has no row for these pairs
			}
		}
		reach := core.ForwardReach(decider.Blocks[0], assign, nil)
		if decider == st {
			wrote := false
			core.Instrs(st, func(in ssa.Instruction) {
				if call, ok := in.(*ssa.Call); ok && reach[in.Block()] {
					for _, a := range call.Call.Args {
						if k, ok := core.ConstStr(a); ok && k == "/**/" {
							wrote = true
						}
					}
				}
			})
			r.Cond(wrote, key, p.Pos(st.Pos()), "the separator is written", fmt.Sprintf("no write of a separator is reachable: the pair reads back as %s", s.what))
			continue
		}
		verdict, undecided := true, ""
		n := 0
		core.Instrs(decider, func(in ssa.Instruction) {
			ret, ok := in.(*ssa.Return)
			if !ok || !reach[in.Block()] || len(ret.Results) != 1 {
				return
			}
			n++
			res := ret.Results[0]
			if k, ok := res.(*ssa.Const); ok {
				if k.Value.String() != "true" {
					verdict = false
				}
				return
			}
			if v, ok := assign[res]; ok {
				if !v {
					verdict = false
				}
				return
			}
			if bo, ok := res.(*ssa.BinOp); ok && (bo.Op == token.EQL || bo.Op == token.NEQ) {
				if k, ok := core.ConstStr(bo.Y); ok {
					with := s.next
					if isIdentValue(bo.X) {
						with = s.val
					}
					if (with == k) != (bo.Op == token.EQL) {
						verdict = false
					}
					return
				}
			}
			undecided = res.String()
		})
		if undecided != "" || n == 0 {
			r.Unknown(key, p.Pos(decider.Pos()), fmt.Sprintf("the result of %s under the scenario is not a constant or a decided comparison (%s; %d returns)", decider.Name(), undecided, n))
			continue
		}
		r.Cond(verdict, key, p.Pos(decider.Pos()), decider.Name()+" answers true: a separator is written", fmt.Sprintf("%s answers false: `%s` followed by `%s` is written without a separator and reads back as %s", decider.Name(), s.val, s.next, s.what))
	}
}
