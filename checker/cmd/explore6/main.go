package main

import (
	"fmt"
	"go/token"
	"go/types"
	"os"
	"sort"

	"golang.org/x/tools/go/ssa"

	"wrverif/core"
)

func main() {
	p, err := core.Load(os.Args[1])
	if err != nil {
		panic(err)
	}
	retNil := map[*ssa.Function]bool{}
	for _, fn := range p.ModFuncs {
		if fn.Blocks == nil || fn.Signature.Results().Len() != 1 {
			continue
		}
		if _, isPtr := fn.Signature.Results().At(0).Type().Underlying().(*types.Pointer); !isPtr {
			continue
		}
		core.Instrs(fn, func(in ssa.Instruction) {
			if ret, ok := in.(*ssa.Return); ok && len(ret.Results) == 1 {
				if k, ok := ret.Results[0].(*ssa.Const); ok && k.Value == nil {
					retNil[fn] = true
				}
			}
		})
	}
	var lines []string
	for _, fn := range p.ModFuncs {
		if fn.Blocks == nil {
			continue
		}
		fn := fn
		core.Instrs(fn, func(in ssa.Instruction) {
			call, ok := in.(*ssa.Call)
			if !ok || call.Call.StaticCallee() == nil || !retNil[call.Call.StaticCallee()] || call.Referrers() == nil {
				return
			}
			var atoms []ssa.Value
			pol := map[ssa.Value]bool{}
			for _, a := range core.CondAtoms(fn) {
				bo, ok := a.(*ssa.BinOp)
				if !ok || (bo.Op != token.NEQ && bo.Op != token.EQL) || bo.X != ssa.Value(call) {
					continue
				}
				atoms = append(atoms, a)
				pol[a] = bo.Op == token.NEQ
			}
			for _, ref := range *call.Referrers() {
				deref := false
				switch x := ref.(type) {
				case *ssa.FieldAddr:
					deref = x.X == ssa.Value(call)
				case *ssa.IndexAddr:
					deref = x.X == ssa.Value(call)
				case *ssa.UnOp:
					deref = x.Op == token.MUL
				}
				if !deref {
					continue
				}
				ok := false
				if len(atoms) > 0 {
					ok, _ = core.GuardedBy(fn, ref.Block(), atoms, func(m map[ssa.Value]bool) bool {
						for a, v := range m {
							if v == pol[a] {
								return true
							}
						}
						return false
					})
				}
				if !ok {
					lines = append(lines, fmt.Sprintf("%s: %s derefs result of %s unchecked", p.Pos(ref.Pos()), core.FuncName(fn), core.FuncName(call.Call.StaticCallee())))
				}
			}
		})
	}
	sort.Strings(lines)
	for _, l := range lines {
		fmt.Println(l)
	}
	fmt.Println(len(lines))
}
