package main

import (
	"fmt"
	"os"

	"golang.org/x/tools/go/ssa"

	"wrverif/core"
)

func main() {
	p, err := core.Load(os.Args[1])
	if err != nil {
		panic(err)
	}
	for _, fn := range p.ModFuncs {
		core.Instrs(fn, func(in ssa.Instruction) {
			sl, ok := in.(*ssa.Slice)
			if !ok || sl.High == nil {
				return
			}
			if k, isK := core.ConstInt(sl.High); !isK || k != 0 {
				return
			}
			fmt.Println("RESET", p.Pos(sl.Pos()), core.FuncName(fn), sl.X.Name(), sl.X.String())
		})
	}
}
