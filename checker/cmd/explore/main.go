package main

import (
	"fmt"
	"os"

	"wrverif/core"
)

func main() {
	p, err := core.Load(os.Args[1])
	if err != nil {
		panic(err)
	}
	for _, pkg := range []string{"svg", "images", "html/document", "html/boxes", "html/tree", "css/validation", "css/parser", "css/counters", "text", "text/draw", "backend", "matrix", "utils", "html/layout"} {
		ups := p.ExtremumUpdates(pkg, nil)
		bad := 0
		for _, u := range ups {
			if !u.Consistent {
				bad++
				fmt.Println("EXTREMUM", pkg, p.Pos(u.Stmt.Pos()), u.Text)
			}
		}
		cs := p.SideConds(pkg, nil)
		for _, s := range cs {
			if !s.Consistent {
				fmt.Println("SIDECOND", pkg, p.Pos(s.Expr.Pos()), s.Kinds, s.Text)
			}
		}
		ss := p.SideSums(pkg, nil)
		nb := 0
		for _, s := range ss {
			if !s.Consistent {
				nb++
				fmt.Println("SIDESUM", pkg, p.Pos(s.Expr.Pos()), s.Kinds, s.Text)
			}
		}
		fmt.Println(pkg, "extremum", len(ups), bad, "sideconds", len(cs), "sidesums", len(ss), nb)
	}
}
