package main

import (
	"fmt"
	"os"

	"wrverif/core"
)

func main() {
	p, err := core.Load(os.Args[1])
	if err != nil {
		panic(err)
	}
	for _, pkg := range []string{"html/layout", "html/boxes", "html/document", "svg", "images", "text", "text/draw"} {
		as := p.SideAssigns(pkg, nil)
		bad := 0
		for _, a := range as {
			if !a.Consistent {
				bad++
				fmt.Println("SIDEASSIGN", pkg, p.Pos(a.Pos), a.Func, a.Text)
			}
		}
		fmt.Println(pkg, len(as), bad)
	}
}
