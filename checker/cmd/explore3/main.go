package main

import (
	"fmt"
	"go/types"
	"os"
	"sort"

	"golang.org/x/tools/go/ssa"

	"wrverif/core"
)

func main() {
	p, err := core.Load(os.Args[1])
	if err != nil {
		panic(err)
	}
	// static call graph among module functions
	succ := map[*ssa.Function][]*ssa.Function{}
	for fn := range p.AllFuncs {
		if !core.IsModFunc(fn) || fn.Blocks == nil {
			continue
		}
		fn := fn
		core.Instrs(fn, func(in ssa.Instruction) {
			if c, ok := in.(ssa.CallInstruction); ok {
				if t := c.Common().StaticCallee(); t != nil && core.IsModFunc(t) {
					succ[fn] = append(succ[fn], t)
				}
			}
			for _, op := range in.Operands(nil) {
				if mc, ok := (*op).(*ssa.MakeClosure); ok {
					succ[fn] = append(succ[fn], mc.Fn.(*ssa.Function))
				}
			}
		})
	}
	reach := map[*ssa.Function]map[*ssa.Function]bool{}
	reachOf := func(f *ssa.Function) map[*ssa.Function]bool {
		if r, ok := reach[f]; ok {
			return r
		}
		seen := map[*ssa.Function]bool{}
		work := []*ssa.Function{f}
		for len(work) > 0 {
			x := work[len(work)-1]
			work = work[:len(work)-1]
			for _, t := range succ[x] {
				if !seen[t] {
					seen[t] = true
					work = append(work, t)
				}
			}
		}
		reach[f] = seen
		return seen
	}
	isBox := func(t types.Type) bool {
		ms := types.NewMethodSet(t)
		for i := 0; i < ms.Len(); i++ {
			if ms.At(i).Obj().Name() == "Box" {
				return true
			}
		}
		return false
	}
	var lines []string
	for _, fn := range p.FuncsOfPkg("html/layout") {
		if fn.Blocks == nil {
			continue
		}
		var sites []*ssa.Call
		core.Instrs(fn, func(in ssa.Instruction) {
			c, ok := in.(*ssa.Call)
			if !ok {
				return
			}
			t := c.Common().StaticCallee()
			if t == nil || !core.IsModFunc(t) {
				return
			}
			if t == fn || reachOf(t)[fn] {
				sites = append(sites, c)
			}
		})
		for i, a := range sites {
			for _, b := range sites[i+1:] {
				if !(fwd(a, b) || fwd(b, a)) {
					continue
				}
				same := false
				for _, x := range a.Call.Args {
					for _, y := range b.Call.Args {
						if x == y && isBox(x.Type()) {
							if _, isParam := x.(*ssa.Parameter); !isParam {
								same = true
							}
						}
					}
				}
				if same {
					lines = append(lines, fmt.Sprintf("%s: %s\n    %s\n    %s", p.Pos(a.Pos()), core.FuncName(fn), p.StmtTextAt(fn, a.Pos()), p.StmtTextAt(fn, b.Pos())))
				}
			}
		}
	}
	sort.Strings(lines)
	for _, l := range lines {
		fmt.Println(l)
	}
	fmt.Println(len(lines))
}

func fwd(a, b *ssa.Call) bool {
	if a.Block() == b.Block() {
		for _, in := range a.Block().Instrs {
			if in == ssa.Instruction(a) {
				return true
			}
			if in == ssa.Instruction(b) {
				return false
			}
		}
	}
	seen := map[*ssa.BasicBlock]bool{}
	var walk func(x *ssa.BasicBlock) bool
	walk = func(x *ssa.BasicBlock) bool {
		for _, s := range x.Succs {
			if s.Dominates(x) || seen[s] {
				continue
			}
			seen[s] = true
			if s == b.Block() || walk(s) {
				return true
			}
		}
		return false
	}
	return walk(a.Block())
}
