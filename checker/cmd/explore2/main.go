package main

import (
	"fmt"
	"os"
	"sort"

	"golang.org/x/tools/go/ssa"

	"wrverif/core"
)

func main() {
	p, err := core.Load(os.Args[1])
	if err != nil {
		panic(err)
	}
	var lines []string
	g := p.VTA()
	for fn := range p.AllFuncs {
		if !core.IsModFunc(fn) || fn.Blocks == nil {
			continue
		}
		var sites []*ssa.Call
		node := g.Nodes[fn]
		if node == nil {
			continue
		}
		seenSite := map[ssa.CallInstruction]bool{}
		for _, e := range node.Out {
			if e.Site == nil || seenSite[e.Site] {
				continue
			}
			t := e.Callee.Func
			isSelf := t == fn
			if !isSelf && t.Synthetic != "" {
				core.Instrs(t, func(in ssa.Instruction) {
					if c, ok := in.(*ssa.Call); ok && c.Common().StaticCallee() == fn {
						isSelf = true
					}
				})
			}
			if isSelf {
				if c, ok := e.Site.(*ssa.Call); ok {
					seenSite[e.Site] = true
					sites = append(sites, c)
				}
			}
		}
		sort.Slice(sites, func(i, j int) bool { return sites[i].Pos() < sites[j].Pos() })
		if len(sites) < 2 {
			continue
		}
		for i, s1 := range sites {
			for _, s2 := range sites[i+1:] {
				a, b := s1, s2
				// both executed in one activation?
				if !(fwd(a, b) || fwd(b, a)) {
					continue
				}
				lines = append(lines, fmt.Sprintf("%s: %s\n    %s\n    %s", p.Pos(fn.Pos()), core.FuncName(fn), p.StmtTextAt(fn, a.Pos()), p.StmtTextAt(fn, b.Pos())))
			}
		}
	}
	sort.Strings(lines)
	for _, l := range lines {
		fmt.Println(l)
	}
	fmt.Println(len(lines))
}

// fwd: b is executed after a on some path that takes no back edge
func fwd(a, b *ssa.Call) bool {
	if a.Block() == b.Block() {
		for _, in := range a.Block().Instrs {
			if in == ssa.Instruction(a) {
				return true
			}
			if in == ssa.Instruction(b) {
				return false
			}
		}
	}
	seen := map[*ssa.BasicBlock]bool{}
	var walk func(x *ssa.BasicBlock) bool
	walk = func(x *ssa.BasicBlock) bool {
		for _, s := range x.Succs {
			if s.Dominates(x) || seen[s] {
				continue
			}
			seen[s] = true
			if s == b.Block() || walk(s) {
				return true
			}
		}
		return false
	}
	return walk(a.Block())
}
