package main

import (
	"fmt"
	"go/types"
	"os"
	"sort"

	"golang.org/x/tools/go/ssa"

	"wrverif/core"
)

func main() {
	p, err := core.Load(os.Args[1])
	if err != nil {
		panic(err)
	}
	errT := types.Universe.Lookup("error").Type()
	var lines []string
	for _, fn := range p.ModFuncs {
		if fn.Blocks == nil {
			continue
		}
		hasErr := false
		res := fn.Signature.Results()
		for i := 0; i < res.Len(); i++ {
			if types.Identical(res.At(i).Type(), errT) {
				hasErr = true
			}
		}
		if !hasErr {
			continue
		}
		core.Instrs(fn, func(in ssa.Instruction) {
			if pn, ok := in.(*ssa.Panic); ok {
				lines = append(lines, fmt.Sprintf("%s %s", p.Pos(pn.Pos()), core.FuncName(fn)))
			}
		})
	}
	sort.Strings(lines)
	for _, l := range lines {
		fmt.Println(l)
	}
}
