package main

import (
	"fmt"
	"os"
	"sort"

	"golang.org/x/tools/go/ssa"

	"wrverif/core"
)

func main() {
	p, err := core.Load(os.Args[1])
	if err != nil {
		panic(err)
	}
	var lines []string
	for _, fn := range p.ModFuncs {
		if fn.Blocks == nil {
			continue
		}
		fn := fn
		core.Instrs(fn, func(in ssa.Instruction) {
			sl, ok := in.(*ssa.Slice)
			if !ok || sl.Low == nil {
				return
			}
			// low bound = rangeindex phi + 1 (SSA range loops: t = phi; idx = t+1)
			bo, ok := sl.Low.(*ssa.BinOp)
			if !ok {
				return
			}
			phi, ok := bo.X.(*ssa.Phi)
			if !ok || phi.Comment != "rangeindex" {
				return
			}
			// the ranged collection: len(X) compared with idx in the header
			var ranged ssa.Value
			for _, r := range *bo.Referrers() {
				if cmp, ok := r.(*ssa.BinOp); ok && cmp.X == ssa.Value(bo) {
					if call, ok := cmp.Y.(*ssa.Call); ok && len(call.Call.Args) == 1 {
						ranged = call.Call.Args[0]
					}
				}
			}
			same := ranged != nil && (ranged == sl.X)
			lines = append(lines, fmt.Sprintf("%v %s %s: %s", same, p.Pos(sl.Pos()), core.FuncName(fn), p.StmtTextAt(fn, sl.Pos())))
		})
	}
	sort.Strings(lines)
	for _, l := range lines {
		fmt.Println(l)
	}
}
