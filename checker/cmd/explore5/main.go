package main

import (
	"fmt"
	"go/types"
	"os"
	"sort"

	"golang.org/x/tools/go/ssa"

	"wrverif/core"
)

func main() {
	p, err := core.Load(os.Args[1])
	if err != nil {
		panic(err)
	}
	// beliefs: invoke sites whose pointer result is dereferenced directly
	type key struct {
		iface  *types.Named
		method string
	}
	beliefs := map[string][]string{}
	for fn := range p.AllFuncs {
		if !core.IsModFunc(fn) || fn.Blocks == nil {
			continue
		}
		core.Instrs(fn, func(in ssa.Instruction) {
			call, ok := in.(*ssa.Call)
			if !ok || !call.Call.IsInvoke() {
				return
			}
			if _, isPtr := call.Type().Underlying().(*types.Pointer); !isPtr {
				return
			}
			if call.Referrers() == nil {
				return
			}
			deref, tested := false, false
			for _, r := range *call.Referrers() {
				switch x := r.(type) {
				case *ssa.FieldAddr:
					if x.X == call {
						deref = true
					}
				case *ssa.UnOp:
					deref = true
				case *ssa.BinOp:
					tested = true
				}
			}
			if deref && !tested {
				k := call.Call.Value.Type().String() + "." + call.Call.Method.Name()
				beliefs[k] = append(beliefs[k], p.Pos(call.Pos()))
			}
		})
	}
	// implementations returning nil
	var lines []string
	for fn := range p.AllFuncs {
		if !core.IsModFunc(fn) || fn.Blocks == nil || fn.Signature.Recv() == nil || fn.Signature.Results().Len() != 1 {
			continue
		}
		if _, isPtr := fn.Signature.Results().At(0).Type().Underlying().(*types.Pointer); !isPtr {
			continue
		}
		retNil := false
		core.Instrs(fn, func(in ssa.Instruction) {
			if ret, ok := in.(*ssa.Return); ok && len(ret.Results) == 1 {
				if k, ok := ret.Results[0].(*ssa.Const); ok && k.Value == nil {
					retNil = true
				}
			}
		})
		if !retNil {
			continue
		}
		for k, sites := range beliefs {
			// method name match and receiver implements interface named in k (textual)
			if len(k) > len(fn.Name()) && k[len(k)-len(fn.Name())-1:] == "."+fn.Name() {
				lines = append(lines, fmt.Sprintf("%s returns nil; believed non-nil via %s at %v", core.FuncName(fn), k, sites[:1]))
			}
		}
	}
	sort.Strings(lines)
	for _, l := range lines {
		fmt.Println(l)
	}
}
