package main

import (
	"fmt"
	"go/token"
	"go/types"
	"os"
	"sort"

	"golang.org/x/tools/go/ssa"

	"wrverif/core"
)

func main() {
	p, err := core.Load(os.Args[1])
	if err != nil {
		panic(err)
	}
	var lines []string
	errT := types.Universe.Lookup("error").Type()
	for fn := range p.AllFuncs {
		if !core.IsModFunc(fn) || fn.Blocks == nil {
			continue
		}
		for _, l := range core.Loops(fn) {
			for _, in := range l.Header.Instrs {
				phi, ok := in.(*ssa.Phi)
				if !ok || !types.Identical(phi.Type(), errT) {
					continue
				}
				// back-edge values
				stale := false
				for i, pred := range l.Header.Preds {
					if !l.Blocks[pred] {
						continue
					}
					e := phi.Edges[i]
					if k, ok := e.(*ssa.Const); ok && k.Value == nil {
						continue
					}
					stale = true
				}
				if !stale {
					continue
				}
				// is the phi (or a phi of it) tested != nil in the loop?
				for b := range l.Blocks {
					for _, in2 := range b.Instrs {
						bo, ok := in2.(*ssa.BinOp)
						if !ok || (bo.Op != token.NEQ && bo.Op != token.EQL) {
							continue
						}
						if core.DerivesFrom(bo.X, func(v ssa.Value) bool { return v == ssa.Value(phi) }) {
							lines = append(lines, fmt.Sprintf("%s %s: %s tested at %s", p.Pos(phi.Pos()), core.FuncName(fn), phi.Comment, p.Pos(bo.Pos())))
						}
					}
				}
			}
		}
	}
	sort.Strings(lines)
	for _, l := range lines {
		fmt.Println(l)
	}
}
