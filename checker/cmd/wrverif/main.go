// wrverif decides the properties of /verif/properties.jsonl for benoitkugler/webrender
// by static analysis of /repo's current working tree.
package main

import (
	"flag"
	"fmt"
	"os"
	"path/filepath"
	"sort"
	"strconv"
	"time"

	"wrverif/core"
	"wrverif/props"
)

func main() {
	property := flag.String("property", "", "property id (C01..C20)")
	tier := flag.String("tier", "quick", "quick|thorough")
	repo := flag.String("repo", "/repo", "repository root")
	verif := flag.String("verif", "", "verif dir (default: parent of the binary's dir)")
	all := flag.Bool("all", false, "run every registered property with one load")
	list := flag.Bool("list", false, "list registered properties")
	flag.Parse()
	if t := os.Getenv("VERIF_TIER"); t != "" && (t == "quick" || t == "thorough") {
		// explicit flag wins when given
		set := false
		flag.Visit(func(f *flag.Flag) {
			if f.Name == "tier" {
				set = true
			}
		})
		if !set {
			*tier = t
		}
	}
	if *verif == "" {
		exe, _ := os.Executable()
		*verif = filepath.Dir(filepath.Dir(exe))
	}
	if *list {
		var ids []string
		for id := range props.Registry {
			ids = append(ids, id)
		}
		sort.Strings(ids)
		for _, id := range ids {
			fmt.Println(id)
		}
		return
	}
	var ids []string
	if *all {
		for id := range props.Registry {
			ids = append(ids, id)
		}
		sort.Strings(ids)
	} else {
		if props.Registry[*property] == nil {
			fmt.Fprintf(os.Stderr, "unknown property %q\n", *property)
			os.Exit(2)
		}
		ids = []string{*property}
	}
	seed, _ := strconv.Atoi(os.Getenv("VERIF_SEED"))
	known, err := core.LoadKnown(filepath.Join(*verif, "known_findings.json"))
	if err != nil {
		fmt.Fprintln(os.Stderr, "CHECKER-BROKEN: known_findings.json:", err)
		os.Exit(2)
	}
	t0 := time.Now()
	prog, err := core.Load(*repo)
	loadSecs := time.Since(t0).Seconds()
	exit := 0
	// thorough tier: the same rules are also decided on the program built for another platform (32-bit int, other
	// GOOS) and the two sets of obligations are compared
	const otherConfig = "GOOS=windows GOARCH=386"
	var prog2 *core.Prog
	var err2 error
	if *tier == "thorough" && err == nil {
		t1 := time.Now()
		prog2, err2 = core.LoadEnv(*repo, "GOOS=windows", "GOARCH=386", "CGO_ENABLED=0")
		loadSecs += time.Since(t1).Seconds()
	}
	run := func(c *core.Check, id string) {
		defer func() {
			if os.Getenv("WRV_NORECOVER") != "" {
				return
			}
			if r := recover(); r != nil {
				// a panic of the checker is not silence: fail closed
				ru := c.Rule("checker", "the checker must complete", 0)
				ru.Unknown("checker panic", "-", fmt.Sprint(r))
			}
		}()
		props.Registry[id](c)
	}
	for _, id := range ids {
		if err != nil {
			core.WriteLoadFailure(*verif, id, *tier, seed, err)
			exit = 1
			continue
		}
		c := core.NewCheck(id, *tier, prog, known)
		c.Seed = seed
		c.LoadSecs = loadSecs
		run(c, id)
		if *tier == "thorough" {
			if err2 != nil {
				ru := c.Rule("X", "thorough tier: the rules are also decided on the "+otherConfig+" build", 0)
				ru.Unknown("load "+otherConfig, "-", err2.Error())
			} else {
				c2 := core.NewCheck(id, *tier, prog2, known)
				run(c2, id)
				c.CrossCheck(c2, otherConfig)
			}
		}
		if code := c.Finish(*verif); code > exit {
			exit = code
		}
	}
	os.Exit(exit)
}
