package main

import (
	"fmt"
	"go/types"
	"os"
	"sort"

	"golang.org/x/tools/go/ssa"

	"wrverif/core"
)

func isFloat(t types.Type) bool {
	b, ok := t.Underlying().(*types.Basic)
	return ok && b.Info()&types.IsFloat != 0
}

func main() {
	p, err := core.Load(os.Args[1])
	if err != nil {
		panic(err)
	}
	var lines []string
	for _, fn := range p.ModFuncs {
		if fn.Blocks == nil {
			continue
		}
		for _, l := range core.Loops(fn) {
			// exits of the loop: Ifs in loop blocks with one successor outside
			floatExit, otherExit := false, false
			var pos ssa.Instruction
			for b := range l.Blocks {
				ifi, ok := b.Instrs[len(b.Instrs)-1].(*ssa.If)
				if !ok {
					continue
				}
				out := false
				for _, s := range b.Succs {
					if !l.Blocks[s] {
						out = true
					}
				}
				if !out {
					continue
				}
				if cmp, ok := ifi.Cond.(*ssa.BinOp); ok && isFloat(cmp.X.Type()) {
					floatExit = true
					pos = ifi
				} else {
					otherExit = true
				}
			}
			if floatExit && !otherExit {
				lines = append(lines, fmt.Sprintf("%s %s", p.Pos(pos.Pos()), core.FuncName(fn)))
			}
		}
	}
	sort.Strings(lines)
	for _, l := range lines {
		fmt.Println(l)
	}
}
